/-
Cost side of the cache model (C18): which calls evaluate nothing.
-/
import MiciVerif.Lemmas.CacheNoAlias

namespace MiciVerif.Cache

variable {tbl : Table} {cfg : Cfg}

def isVal : Option (Option Val) → Bool
  | some (some _) => true
  | _ => false

theorem isVal_iff {o : Option (Option Val)} : isVal o = true ↔ ∃ v, o = some (some v) := by
  cases o with
  | none => simp [isVal]
  | some o => cases o <;> simp [isVal]

/-- every wrapped method that a call of `m` consults (down to the first cached method on each
path of the call graph) has a cached value in the cache `c` -/
def Warm (tbl : Table) (cfg : Cfg) (c : Key → Option (Option Val)) (sys : Nat) : Nat → Nat → Prop
  | 0, _ => False
  | fuel + 1, m =>
    match lookup tbl (cfg.clsOf sys) m with
    | none => False
    | some e => if e.cached then isVal (c ⟨sys, m⟩) = true else ∀ c' ∈ e.calls, Warm tbl cfg c sys fuel c'

theorem warm_mono {c c' : Key → Option (Option Val)} (sys : Nat)
    (hcc : ∀ k, isVal (c k) = true → isVal (c' k) = true) :
    ∀ fuel m, Warm tbl cfg c sys fuel m → Warm tbl cfg c' sys fuel m := by
  intro fuel
  induction fuel with
  | zero => intro m h; exact h
  | succ fuel ih =>
    intro m h
    simp only [Warm] at h ⊢
    split
    · rename_i hl; simp [hl] at h
    · rename_i e hl
      simp only [hl] at h
      split
      · rename_i hc; simp only [hc, if_true] at h; exact hcc _ h
      · rename_i hc; simp only [hc] at h; exact fun c'' hc'' => ih c'' (h c'' hc'')

/-- what a call may do to the caches: other states untouched, values of the state stay values -/
structure CacheFrame (h h' : Heap) (sid : Nat) : Prop where
  other : ∀ i, i ≠ sid → (h'.st i).cache = (h.st i).cache
  keep : ∀ k, isVal ((h.st sid).cache k) = true → isVal ((h'.st sid).cache k) = true

theorem CacheFrame.refl (h : Heap) (sid : Nat) : CacheFrame h h sid := ⟨fun _ _ => rfl, fun _ hh => hh⟩

theorem CacheFrame.trans {a b c : Heap} {sid : Nat} (h1 : CacheFrame a b sid) (h2 : CacheFrame b c sid) :
    CacheFrame a c sid :=
  ⟨fun i hi => (h2.other i hi).trans (h1.other i hi), fun k hk => h2.keep k (h1.keep k hk)⟩

theorem runCalls_cacheFrame (sid : Nat) (call : Heap → Nat → Res)
    (hcall : ∀ h c, CacheFrame h (call h c).h sid) :
    ∀ (cs : List Nat) (h : Heap) (p : Prov3), CacheFrame h (runCalls call h p cs).1 sid := by
  intro cs
  induction cs with
  | nil => intro h p; exact CacheFrame.refl h sid
  | cons c cs ih => intro h p; simp only [runCalls]; exact (hcall h c).trans (ih _ _)

theorem store_cacheFrame (h : Heap) (sid : Nat) (key : Key) (v : Val) (auxKeys : List Key) :
    CacheFrame h (setSt h sid (fun s => store cfg s key v auxKeys)) sid := by
  refine ⟨?_, ?_⟩
  · intro i hi; simp [setSt, hi]
  · intro k hk
    simp only [setSt, if_true, store]
    split
    · rfl
    · split
      · rfl
      · exact hk

theorem wrapM_cacheFrame (sid sys : Nat) (call : Heap → Nat → Res) (e : Entry)
    (hcall : ∀ h c, CacheFrame h (call h c).h sid) (h : Heap) :
    CacheFrame h (wrapM cfg call e sid sys h).h sid := by
  simp only [wrapM]
  split
  · exact ⟨fun _ _ => rfl, fun _ hh => hh⟩
  · have h1 : CacheFrame h (register h sid (if e.withAux then (⟨sys, e.meth⟩ : Key) :: e.aux.map (Key.mk sys) else [⟨sys, e.meth⟩]) e.declared) sid :=
      ⟨fun _ _ => rfl, fun _ hh => hh⟩
    refine h1.trans (CacheFrame.trans ?_ (store_cacheFrame _ sid _ _ _))
    simp only [bodyM]
    exact runCalls_cacheFrame sid call hcall _ _ _

theorem callM_cacheFrame (sid sys : Nat) :
    ∀ (fuel m : Nat) (h : Heap), CacheFrame h (callM tbl cfg fuel h sid sys m).h sid := by
  intro fuel
  induction fuel with
  | zero => intro m h; exact CacheFrame.refl h sid
  | succ fuel ih =>
    intro m h
    simp only [callM]
    split
    · exact CacheFrame.refl h sid
    · split
      · exact wrapM_cacheFrame sid sys _ _ (fun h c => ih c h) h
      · simp only [bodyM]; exact runCalls_cacheFrame sid _ (fun h c => ih c h) _ _ _

/-- a heap differing from `h` at most in its `_dependencies` dicts (and counters) -/
def SameStates (h h' : Heap) : Prop := h'.st = h.st ∧ h'.nSt = h.nSt

theorem runCalls_hit (sid : Nat) (call : Heap → Nat → Res) :
    ∀ (cs : List Nat) (h : Heap) (p : Prov3),
      (∀ c ∈ cs, ∀ h', h'.st = h.st → (call h' c).tr = [] ∧ (call h' c).h.st = h'.st) →
      (runCalls call h p cs).2.2 = [] ∧ (runCalls call h p cs).1.st = h.st := by
  intro cs
  induction cs with
  | nil => intro h p _; exact ⟨rfl, rfl⟩
  | cons c cs ih =>
    intro h p hc
    simp only [runCalls]
    obtain ⟨h1, h2⟩ := hc c List.mem_cons_self h rfl
    have := ih (call h c).h (p.join (call h c).v.prov)
      (fun c' hc' h' hh' => hc c' (List.mem_cons_of_mem _ hc') h' (hh'.trans h2))
    exact ⟨by rw [h1, this.1]; rfl, this.2.trans h2⟩

/-- **a warm call is free**: it evaluates nothing and leaves every cache as it is -/
theorem hit_of_warm (sid sys : Nat) :
    ∀ (fuel m : Nat) (h : Heap), Warm tbl cfg (h.st sid).cache sys fuel m →
      (callM tbl cfg fuel h sid sys m).tr = [] ∧ (callM tbl cfg fuel h sid sys m).h.st = h.st := by
  intro fuel
  induction fuel with
  | zero => intro m h hw; exact absurd hw (by simp [Warm])
  | succ fuel ih =>
    intro m h hw
    simp only [Warm] at hw
    simp only [callM]
    split
    · rename_i hl; simp [hl] at hw
    · rename_i e hl
      have hm : e.meth = m := (lookup_some hl).2.2
      simp only [hl] at hw
      split
      · rename_i hc
        simp only [hc, if_true] at hw
        obtain ⟨v, hv⟩ := isVal_iff.mp hw
        simp only [wrapM]
        have : ((register h sid (if e.withAux then (⟨sys, e.meth⟩ : Key) :: e.aux.map (Key.mk sys) else [⟨sys, e.meth⟩]) e.declared).st sid).cache ⟨sys, e.meth⟩ = some (some v) := by
          rw [hm]; exact hv
        rw [this]
        exact ⟨rfl, rfl⟩
      · rename_i hc
        simp only [hc] at hw
        simp only [bodyM]
        apply runCalls_hit sid
        intro c hcm h' hh'
        apply ih c h'
        rw [hh']; exact hw c hcm

theorem runCalls_warm (hs : DepsSound tbl) (sid sys fuel : Nat)
    (ih : ∀ m e, lookup tbl (cfg.clsOf sys) m = some e → e.rank < fuel → ∀ h,
      Warm tbl cfg ((callM tbl cfg fuel h sid sys m).h.st sid).cache sys fuel m) :
    ∀ (cs : List Nat) (h : Heap) (p : Prov3),
      (∀ c ∈ cs, ∃ ec, lookup tbl (cfg.clsOf sys) c = some ec ∧ ec.rank < fuel) →
      ∀ c ∈ cs, Warm tbl cfg ((runCalls (fun h c => callM tbl cfg fuel h sid sys c) h p cs).1.st sid).cache sys fuel c := by
  intro cs
  induction cs with
  | nil => intro h p _ c hc; cases hc
  | cons c0 cs ihl =>
    intro h p hcs c hc
    simp only [runCalls]
    rcases List.mem_cons.mp hc with rfl | hc'
    · obtain ⟨ec, hl, hr⟩ := hcs c List.mem_cons_self
      have hw := ih c ec hl hr h
      exact warm_mono sys (runCalls_cacheFrame sid _ (fun h c => callM_cacheFrame sid sys fuel c h) cs _ _).keep fuel c hw
    · exact ihl _ _ (fun c' hc'' => hcs c' (List.mem_cons_of_mem _ hc'')) c hc'

/-- after a call, the same call is warm -/
theorem warm_after_call (hs : DepsSound tbl) (sid sys : Nat) :
    ∀ (fuel m : Nat) (e : Entry), lookup tbl (cfg.clsOf sys) m = some e → e.rank < fuel → ∀ h,
      Warm tbl cfg ((callM tbl cfg fuel h sid sys m).h.st sid).cache sys fuel m := by
  intro fuel
  induction fuel with
  | zero => intro m e _ hr; omega
  | succ fuel ih =>
    intro m e hl hr h
    have hm : e.meth = m := (lookup_some hl).2.2
    have hcls : e.cls = cfg.clsOf sys := (lookup_some hl).2.1
    have hf := facts_of_sound hs hl
    simp only [Warm, callM, hl]
    by_cases hc : e.cached = true
    · simp only [hc, if_true, wrapM]
      split
      · rename_i v hv
        rw [← hm]; rw [hv]; rfl
      · simp only [setSt, if_true, store, hm, if_true]; rfl
    · simp only [hc]
      simp only [bodyM]
      apply runCalls_warm hs sid sys fuel ih
      intro c hcm
      obtain ⟨ec, hlc, hrc⟩ := hf.calls c hcm
      rw [hcls] at hlc
      exact ⟨ec, hlc, by omega⟩

/-! ### assignments and `isVal` -/

theorem isVal_sweep (a : Nat) (x : Var) (n : Nat) (s : St) (k : Key) :
    isVal ((sweepSt a x n s).cache k) = isVal (s.cache k) := by
  simp only [sweepSt]
  split
  · rename_i v hv; rw [hv]; split <;> rfl
  · rfl

theorem isVal_invalidate (h : Heap) (s : St) (x : Var) (k : Key) (hk : h.cells s.cell x k = false) :
    isVal (invalidate h s x k) = isVal (s.cache k) := by
  unfold invalidate; simp [hk]

theorem cache_after_assign (h : Heap) (sid : Nat) (x : Var) (k : Key)
    (hk : h.cells (h.st sid).cell x k = false) (hv : isVal ((h.st sid).cache k) = true) :
    isVal (((step tbl cfg h (.assign sid x)).1.st sid).cache k) = true := by
  simp only [step]
  split
  · split
    · exact hv
    · simp only [setSt, if_true]
      exact (isVal_invalidate h (h.st sid) x k hk).trans hv
  · exact hv

theorem cache_after_assignIP (h : Heap) (sid : Nat) (x : Var) (k : Key)
    (hk : h.cells (h.st sid).cell x k = false) (hv : isVal ((h.st sid).cache k) = true) :
    isVal (((step tbl cfg h (.assignIP sid x)).1.st sid).cache k) = true := by
  simp only [step]
  split
  · split
    · exact hv
    · split
      · simp only [setSt, if_true]
        exact (isVal_sweep _ _ _ _ _).trans hv
      · simp only [setSt, if_true]
        unfold invalidate
        have hk' : h.cells (sweepSt ((h.st sid).arr x) x h.nextStamp (h.st sid)).cell x k = false := hk
        simp only [hk', Bool.false_eq_true, if_false]
        exact (isVal_sweep _ _ _ _ _).trans hv
  · exact hv

/-! ### registrations are precise -/

structure PreciseFacts (tbl : Table) (e : Entry) : Prop where
  sub : e.cached = true → e.declared.subset e.trueDeps = true
  aux : e.cached = true → ∀ a ∈ e.aux, ∀ ea, lookup tbl e.cls a = some ea → ea.cached = true →
    e.declared.subset ea.trueDeps = true

theorem preciseFacts (hp : DepsPrecise tbl) {cls m : Nat} {e : Entry} (h : lookup tbl cls m = some e) :
    PreciseFacts tbl e := by
  have := (List.all_eq_true.mp hp) e (lookup_some h).1
  unfold entryPrecise at this
  refine ⟨?_, ?_⟩
  · intro hc; simp only [hc, Bool.not_true, Bool.false_or, Bool.and_eq_true] at this; exact this.1
  · intro hc a ha ea hl hea
    simp only [hc, Bool.not_true, Bool.false_or, Bool.and_eq_true] at this
    have := (List.all_eq_true.mp this.2) a ha
    simpa [hl, hea] using this

/-- a key is registered under a variable only if the method's result depends on that variable -/
def RegPrecise (tbl : Table) (cfg : Cfg) (h : Heap) : Prop :=
  ∀ c x k e, h.cells c x k = true → keyEntry tbl cfg k = some e → e.cached = true → e.trueDeps.mem x = true

theorem runCalls_regPrecise (call : Heap → Nat → Res)
    (hcall : ∀ h c, RegPrecise tbl cfg h → RegPrecise tbl cfg (call h c).h) :
    ∀ (cs : List Nat) (h : Heap) (p : Prov3), RegPrecise tbl cfg h → RegPrecise tbl cfg (runCalls call h p cs).1 := by
  intro cs
  induction cs with
  | nil => intro h p hi; exact hi
  | cons c cs ih => intro h p hi; simp only [runCalls]; exact ih _ _ (hcall h c hi)

theorem callM_regPrecise (hp : DepsPrecise tbl) (sid sys : Nat) :
    ∀ (fuel m : Nat) (h : Heap), RegPrecise tbl cfg h → RegPrecise tbl cfg (callM tbl cfg fuel h sid sys m).h := by
  intro fuel
  induction fuel with
  | zero => intro m h hi; exact hi
  | succ fuel ih =>
    intro m h hi
    simp only [callM]
    split
    · exact hi
    · rename_i e hl
      have hpf := preciseFacts hp hl
      obtain ⟨_, hcls, hmeth⟩ := lookup_some hl
      have hke : keyEntry tbl cfg ⟨sys, e.meth⟩ = some e := by simp [keyEntry, hmeth, hl]
      by_cases hc : e.cached = true
      · simp only [hc, if_true, wrapM]
        have hreg : RegPrecise tbl cfg (register h sid (if e.withAux then (⟨sys, e.meth⟩ : Key) :: e.aux.map (Key.mk sys) else [⟨sys, e.meth⟩]) e.declared) := by
          intro c x k e' hcell hke' hce'
          simp only [register, Bool.or_eq_true, Bool.and_eq_true, decide_eq_true_eq] at hcell
          rcases hcell with hcell | ⟨⟨⟨_, hdx⟩, hkk⟩, _⟩
          · exact hi c x k e' hcell hke' hce'
          · have hkm : k ∈ (if e.withAux then (⟨sys, e.meth⟩ : Key) :: e.aux.map (Key.mk sys) else [⟨sys, e.meth⟩]) := by
              simpa using hkk
            have hk' : k = ⟨sys, e.meth⟩ ∨ ∃ a ∈ e.aux, k = ⟨sys, a⟩ := by
              split at hkm
              · rcases List.mem_cons.mp hkm with h1 | h1
                · exact Or.inl h1
                · obtain ⟨a, ha, rfl⟩ := List.mem_map.mp h1; exact Or.inr ⟨a, ha, rfl⟩
              · exact Or.inl (by simpa using hkm)
            rcases hk' with rfl | ⟨a, ha, rfl⟩
            · rw [hke] at hke'; cases hke'; exact VarSet.subset_mem (hpf.sub hc) hdx
            · have : lookup tbl e.cls a = some e' := by simpa [keyEntry, hcls] using hke'
              exact VarSet.subset_mem (hpf.aux hc a ha e' this hce') hdx
        split
        · exact hreg
        · have := runCalls_regPrecise (tbl := tbl) (cfg := cfg) (fun h c => callM tbl cfg fuel h sid sys c)
            (fun h c hh => ih c h hh) e.calls _ (Prov3.ofSet e.reads ((register h sid (if e.withAux then (⟨sys, e.meth⟩ : Key) :: e.aux.map (Key.mk sys) else [⟨sys, e.meth⟩]) e.declared).st sid).stamp) hreg
          exact this
      · simp only [hc]
        simp only [bodyM]
        exact runCalls_regPrecise _ (fun h c hh => ih c h hh) _ _ _ hi

theorem regPrecise_init : RegPrecise tbl cfg Heap.init := by
  intro c x k e h; simp [Heap.init] at h

theorem regPrecise_step (hp : DepsPrecise tbl) (h : Heap) (hi : RegPrecise tbl cfg h) (op : Op) :
    RegPrecise tbl cfg (step tbl cfg h op).1 := by
  cases op with
  | assign sid x =>
    simp only [step]; split
    · split
      · exact hi
      · exact hi
    · exact hi
  | assignIP sid x =>
    simp only [step]; split
    · split
      · exact hi
      · split
        · exact hi
        · exact hi
    · exact hi
  | copy sid ro =>
    simp only [step]; split
    · exact hi
    · exact hi
  | pickle sid =>
    simp only [step]; split
    · intro c x k e hc; simp only at hc
      split at hc
      · exact hi _ x k e hc
      · exact hi c x k e hc
    · exact hi
  | fresh =>
    simp only [step]
    intro c x k e hc; simp only at hc
    split at hc
    · cases hc
    · exact hi c x k e hc
  | call sid sys m =>
    simp only [step]; split
    · simp only [callTop]; split
      · exact hi
      · exact callM_regPrecise hp sid sys _ m h hi
    · exact hi

/-! ### callee dependencies are contained in the caller's -/

theorem foldl_union_mem (f : Nat → VarSet) (x : Var) :
    ∀ (cs : List Nat) (acc : VarSet),
      (acc.mem x = true ∨ ∃ c ∈ cs, (f c).mem x = true) →
      (cs.foldl (fun a c => a.union (f c)) acc).mem x = true := by
  intro cs
  induction cs with
  | nil => intro acc h; rcases h with h | ⟨c, hc, _⟩; exact h; cases hc
  | cons c cs ih =>
    intro acc h
    simp only [List.foldl_cons]
    apply ih
    rcases h with h | ⟨c', hc', hm⟩
    · left; rw [VarSet.mem_union, h]; rfl
    · rcases List.mem_cons.mp hc' with rfl | hc''
      · left; rw [VarSet.mem_union, hm]; simp
      · right; exact ⟨c', hc'', hm⟩

theorem callee_deps_subset (hs : DepsSound tbl) {cls m : Nat} {e : Entry} (hl : lookup tbl cls m = some e)
    {c : Nat} (hc : c ∈ e.calls) {ec : Entry} (hlc : lookup tbl e.cls c = some ec) {x : Var}
    (hx : ec.trueDeps.mem x = true) : e.trueDeps.mem x = true := by
  have hf := facts_of_sound hs hl
  rw [hf.deps, closeDeps]
  apply foldl_union_mem
  right
  exact ⟨c, hc, by simp [depsOf, hlc, hx]⟩

/-- invalidation by an assignment to a variable outside the true dependencies keeps `m` warm -/
theorem warm_after_invalidate (hs : DepsSound tbl) (h : Heap) (hrp : RegPrecise tbl cfg h) (cell : Nat) (x : Var)
    (sys : Nat) (c c' : Key → Option (Option Val))
    (hcc : ∀ k, h.cells cell x k = false → isVal (c k) = true → isVal (c' k) = true) :
    ∀ (fuel m : Nat) (e : Entry), lookup tbl (cfg.clsOf sys) m = some e → e.trueDeps.mem x = false →
      Warm tbl cfg c sys fuel m → Warm tbl cfg c' sys fuel m := by
  intro fuel
  induction fuel with
  | zero => intro m e _ _ hw; exact hw
  | succ fuel ih =>
    intro m e hl hx hw
    simp only [Warm, hl] at hw ⊢
    by_cases hc : e.cached = true
    · simp only [hc, if_true] at hw ⊢
      apply hcc _ _ hw
      cases hcell : h.cells cell x ⟨sys, m⟩ with
      | false => rfl
      | true =>
        have := hrp cell x ⟨sys, m⟩ e hcell (by simp [keyEntry, hl]) hc
        rw [hx] at this; cases this
    · simp only [hc] at hw ⊢
      intro c0 hc0
      have hcls : e.cls = cfg.clsOf sys := (lookup_some hl).2.1
      obtain ⟨ec, hlc, _⟩ := (facts_of_sound hs hl).calls c0 hc0
      have hxc : ec.trueDeps.mem x = false := by
        cases hm : ec.trueDeps.mem x with
        | false => rfl
        | true => rw [callee_deps_subset hs hl hc0 hlc hm] at hx; cases hx
      rw [hcls] at hlc
      exact ih c0 ec hlc hxc (hw c0 hc0)

end MiciVerif.Cache
