/-
Data types of the step-structure tables that `tools/extractors/integ_steps.py` regenerates from
`src/mici/integrators.py` (into `Generated/IntegSteps.lean`), and the two Python list-slicing
primitives used by the translated `SymmetricCompositionIntegrator.__init__`.

Only definitions here (no theorems): the generated file imports this module, so it has to be cheap.
The semantics of these tables (their interpretation as the hand-written models of
`Model/Integrators.lean` / `Model/IntegratorsImplicit.lean`) is in `Lemmas/IntegSteps.lean`.
-/
import Mathlib.Algebra.Field.Defs

namespace MiciVerif.IntegSteps

/-- Hamiltonian component whose flow is called: `system.h1_flow` / `system.h2_flow`. -/
inductive Comp
  | h1 | h2
  deriving DecidableEq, Repr

/-- `state.pos` / `state.mom`. -/
inductive Var
  | pos | mom
  deriving DecidableEq, Repr

/-- A time argument that is linear in the enclosing method's `time_step`:
`num/den * time_step`, additionally divided by `self.n_inner_step` when `perInner`.
The extractor emits `num/den` in lowest terms with `den > 0`, so structural equality is equality
of the rational. -/
structure TimeArg where
  num : Int
  den : Nat
  perInner : Bool
  deriving DecidableEq, Repr

/-- One call made by a `_step` body: `callee(state, t)`; `callee` is `"system.h1_flow"`,
`"system.h2_flow"` or `"self.<helper>"`. -/
structure Call where
  callee : String
  t : TimeArg
  deriving DecidableEq, Repr

/-- `state.<var> (+|-)= <t> * self.system.<deriv>(<at>)`  (explicit form), or the corresponding
summand of a fixed-point map `x ↦ <var>_init (+|-) <t> * self.system.<deriv>(state)`. -/
structure Update where
  var : Var
  sign : Int
  deriv : String
  t : TimeArg
  /-- the state object the derivative is evaluated at (`"state"`, `"state_prev"`) -/
  atState : String
  deriving DecidableEq, Repr

/-- The reverse check that follows an explicit sub-step:
```
state_back = state.copy()
self.<adjoint>(state_back, <t>)                       # t = -time_step in the code
rev_diff = self.<norm>(state_back.<cmp> - <cmp>_init) # value saved before the update
if rev_diff <cmpOp> self.<tol>: raise <raises>(msg)
``` -/
structure RevCheck where
  onCopy : Bool
  adjoint : String
  t : TimeArg
  cmp : List Var
  /-- the reference value was saved (copied) BEFORE the explicit update -/
  savedBefore : Bool
  norm : String
  tol : String
  cmpOp : String
  raises : String
  deriving DecidableEq, Repr

/-- `ConstrainedLeapfrogIntegrator._step_b` (all holes of the recognised shape). -/
structure RetractLoop where
  /-- `for i in range(self.<count>)` -/
  count : String
  /-- `time_step_inner = <tInner>` -/
  tInner : TimeArg
  /-- `state_prev = state.copy()` at the top of each iteration -/
  prevIsCopy : Bool
  /-- forward retraction `self._h2_flow_retraction_onto_manifold(state, state_prev, <tFwd>)`
  (relative to `time_step_inner`) -/
  tFwd : TimeArg
  /-- `_h2_flow_retraction_onto_manifold` = `system.<flow>(state, t)` then
  `self.<solver>(state, state_prev, t, self.system, **kwargs)` with the same `t` -/
  retractFlow : String
  retractSolver : String
  retractArgsOk : Bool
  /-- `self.system.dh1_dpos(state)` pre-evaluated only under `if i == self.<count> - 1` -/
  preEvalOnlyLast : Bool
  /-- `self._project_onto_cotangent_space(state)` between retraction and check, and
  `_project_onto_cotangent_space` = `state.mom = system.project_onto_cotangent_space(state.mom, state)` -/
  projectAfter : Bool
  /-- check: `state_back = state.copy()`; retraction of `(state_back, state, <tBack>)` -/
  chkOnCopy : Bool
  chkPrev : String
  tBack : TimeArg
  cmp : List Var
  against : String
  norm : String
  tol : String
  cmpOp : String
  raises : String
  deriving DecidableEq, Repr

/-- What a helper method (`_step_a`, `_step_b_fwd`, …) does. -/
inductive Method
  /-- `self.system.<c>_flow(state, t)` (then the cotangent projection when `project`) -/
  | flow (c : Comp) (t : TimeArg) (project : Bool)
  /-- implicit update: `state.vars = self.<solver>(x ↦ init + Σ updates, init)`; `solver` is the
  attribute finally called (`_solve_fixed_point` resolved to `fixed_point_solver`) -/
  | fixedPoint (us : List Update) (solver : String)
  /-- explicit update followed by a reverse check -/
  | checked (us : List Update) (chk : RevCheck)
  | retractLoop (r : RetractLoop)
  /-- shape not understood (fail closed) -/
  | unknown (why : String)
  deriving DecidableEq, Repr

/-- `Integrator.step`. -/
structure StepWrapper where
  /-- exception raised when `self.step_size is None` -/
  noneRaises : String
  /-- `state = state.copy()` before `_step` -/
  copiesState : Bool
  /-- the call is `self._step(state, state.dir * self.step_size)` on the copy -/
  callOnCopyDirTimesStepSize : Bool
  /-- exception classes caught around the `_step` call … -/
  converts : List String
  /-- … and re-raised (`raise … from e`) as -/
  convertsTo : String
  returnsCopy : Bool
  deriving DecidableEq, Repr

/-- `super().__init__(system, (<free>), step_size=step_size, initial_h1_flow_step=<b>)` of a BCSS
class: names of the free coefficients in order, and the flag. -/
structure BCSSInit where
  free : List String
  initialH1 : Bool
  passesStepSize : Bool
  deriving DecidableEq, Repr

/-- `(a - b ** (1/2)) / c` with integer literals (`BCSSTwoStageIntegrator`'s `a_0`). -/
structure SqrtForm where
  a : Int
  b : Int
  c : Int
  deriving DecidableEq, Repr

/-- A numeric literal / constant expression: the exact rational of its decimal source text
(`dec`, `none` if it is not a plain decimal literal) and of the float Python computes (`flt`). -/
structure Lit where
  name : String
  decNum : Option Int
  decDen : Nat
  fltNum : Int
  fltDen : Nat
  deriving DecidableEq, Repr

/-- `for coefficient, flow in zip(self.coefficients, self.flows, strict=True): flow(state, coefficient * time_step)` -/
structure ZipLoop where
  lists : List String
  strict : Bool
  /-- textual form of the call in the body -/
  body : String
  deriving DecidableEq, Repr

/-! ### Python list slicing (the two shapes used by `SymmetricCompositionIntegrator.__init__`) -/

/-- Elements at positions `0, s, 2s, …` when started with counter `0` (counter `i`: skip `i`). -/
def everyNth {α : Type*} (s : Nat) : Nat → List α → List α
  | _, [] => []
  | 0, a :: t => a :: everyNth s (s - 1) t
  | i + 1, _ :: t => everyNth s i t

/-- Python `l[k::s]` for literal `k ≥ 0`, `s ≥ 1`. -/
def pySliceFrom {α : Type*} (k s : Nat) (l : List α) : List α := everyNth s 0 (l.drop k)

/-- Python `l[-k::-1]` for a literal `k ≥ 1`: start at index `len - k` (nothing if negative) and walk
down to index 0. -/
def pySliceRevFromNeg {α : Type*} (k : Nat) (l : List α) : List α := (l.take (l.length + 1 - k)).reverse

end MiciVerif.IntegSteps
