/-
Generic part of the statistics reading of `DynamicIntegrationTransition._build_tree` (builder B12): for the
expected plan (`BSem.expectedPlan`) and the expected `_process_integrator_error` chain (`SSem.expectedChain`) the
reading `SSem.buildRead` on ANY trajectory tree, from ANY state of the shared dictionary, counts in `n_step`
exactly the leaves `Transitions.buildVisit` lists, in that order, adds their acceptance probabilities to
`sum_metrop_accept_prob`, terminates iff `buildVisit` does not end `.ok`, and changes the error flags iff it ends
`.err` (then by the flag of the class of the error raised).  Independent of the generated tables.
-/
import MiciVerif.Model.TransitionStatsSem
import MiciVerif.Lemmas.TransitionSkeletonBuild

namespace MiciVerif.Skel.SSem
open MiciVerif.Transitions MiciVerif.Transitions.TTree

/-- the `isinstance` chain of `_process_integrator_error` the model was written against -/
def expectedChain : List (String × String) :=
  [("HamiltonianDivergenceError", "diverging"), ("NonReversibleStepError", "non_reversible_step"),
   ("ConvergenceError", "convergence_error")]

/-- what the expected chain does to the flags -/
def procFlags : ErrKind → Flags → Flags
  | .divergence, f => { f with diverging := true }
  | .nonReversible, f => { f with nonReversibleStep := true }
  | .convergence, f => { f with convergenceError := true }
  | .plain, f => f

theorem runProc_expected (k : ErrKind) (f : Flags) : runProc expectedChain k f = some (procFlags k f) := by
  cases k <;> simp [runProc, expectedChain, ErrKind.isInstance, ErrKind.className, Flags.set, procFlags]

theorem procFlags_any (k : ErrKind) (f : Flags) (hk : k.flagged = true) : (procFlags k f).any = true := by
  cases k <;> simp_all [procFlags, Flags.any, ErrKind.flagged]

theorem procFlags_any_mono (k : ErrKind) (f : Flags) (hf : f.any = true) : (procFlags k f).any = true := by
  cases k <;> simp_all [procFlags, Flags.any]

set_option linter.unusedSectionVars false

variable {K : Type} [Field K] [LinearOrder K]

/-- the dictionary after the leaves `v` (offsets relative to `off`) have been counted and the flags have
become `fl` -/
def St.visit (s : St K) (a : Nat → K) (off : Nat) (v : List Nat) (fl : Flags) : St K :=
  ⟨s.nStep + v.length, s.sumAcc + (v.map fun k => a (k + off)).sum, fl, s.counted ++ v.map (· + off)⟩

theorem St.visit_nil (s : St K) (a : Nat → K) (off : Nat) : s.visit a off [] s.flags = s := by
  cases s; simp [St.visit]

theorem St.visit_visit (s : St K) (a : Nat → K) (off : Nat) (v₁ v₂ : List Nat) (f₁ f₂ : Flags) :
    (s.visit a off v₁ f₁).visit a off v₂ f₂ = s.visit a off (v₁ ++ v₂) f₂ := by
  simp [St.visit, List.map_append, List.sum_append, add_assoc]

theorem St.visit_shift (s : St K) (a : Nat → K) (off n : Nat) (v : List Nat) (fl : Flags) :
    s.visit a (off + n) v fl = s.visit a off (v.map (· + n)) fl := by
  have h : ∀ k : Nat, k + (off + n) = k + n + off := fun k => by omega
  simp [St.visit, List.map_map, Function.comp_def, h]

@[simp] theorem St.visit_flags (s : St K) (a : Nat → K) (off : Nat) (v : List Nat) (fl : Flags) :
    (s.visit a off v fl).flags = fl := rfl

/-- the flags after a call that ended with `e`, started with flags `f` -/
def FlagSpec (stepErr : ErrKind) (e : BuildEnd) (f f' : Flags) : Prop :=
  (e ≠ .err → f' = f) ∧ (e = .err → ∃ k, (k = stepErr ∨ k = .divergence) ∧ f' = procFlags k f)

/-- what a call whose visit list / end status is `bv` returns, started with the dictionary `s` -/
def BSpec (stepErr : ErrKind) (a : Nat → K) (off : Nat) (bv : List Nat × BuildEnd) (s : St K) (r : Bool × St K) :
    Prop :=
  ∃ fl, r = (decide (bv.2 ≠ .ok), s.visit a off bv.1 fl) ∧ FlagSpec stepErr bv.2 s.flags fl

/-- the leaf block -/
theorem buildRead_leaf (stepErr : ErrKind) (a : Nat → K) (fwd : Bool) (w : K) (ok : Bool) (off : Nat)
    (entryOk : Bool) (s : St K) :
    ∃ r, buildRead BSem.expectedPlan (runProc expectedChain) stepErr a fwd (.leaf w ok) off entryOk s = some r ∧
      BSpec stepErr a off (buildVisit fwd (.leaf w ok) entryOk) s r := by
  cases entryOk <;> cases ok <;>
    simp [buildRead, BSem.expectedPlan, runLeaf, runHand, runProc_expected, buildVisit, BSpec, FlagSpec, St.visit]

/-- the visit list / end status of a node from those of its halves, exactly as `buildVisit` composes them -/
def nodeVisit (lsize : Nat) (e τ fwd entryOk : Bool) (bvL bvR : Bool → List Nat × BuildEnd) : List Nat × BuildEnd :=
  if fwd then
    let ri := bvL entryOk
    if ri.2 ≠ .ok then ri else
    let ro := bvR e
    let vo := ro.1.map (· + lsize)
    if ro.2 ≠ .ok then (ri.1 ++ vo, ro.2) else
    (ri.1 ++ vo, if τ then .crit else .ok)
  else
    let ri := bvR entryOk
    let vi := ri.1.map (· + lsize)
    if ri.2 ≠ .ok then (vi, ri.2) else
    let ro := bvL e
    if ro.2 ≠ .ok then (vi ++ ro.1, ro.2) else
    (vi ++ ro.1, if τ then .crit else .ok)

theorem FlagSpec.of_ok {stepErr : ErrKind} {e : BuildEnd} {f f' : Flags} (h : FlagSpec stepErr e f f')
    (he : e = .ok) : f' = f := h.1 (by rw [he]; decide)

theorem runRec_expected (stepErr : ErrKind) (a : Nat → K) (off lsize : Nat) (e τ fwd entryOk : Bool)
    (callL callR : Bool → St K → Option (Bool × St K)) (bvL bvR : Bool → List Nat × BuildEnd)
    (hL : ∀ b s, ∃ r, callL b s = some r ∧ BSpec stepErr a off (bvL b) s r)
    (hR : ∀ b s, ∃ r, callR b s = some r ∧ BSpec stepErr a (off + lsize) (bvR b) s r) (s : St K) :
    ∃ r, runRec e τ fwd entryOk callL callR BSem.expectedPlan.recp {} s = some r ∧
      BSpec stepErr a off (nodeVisit lsize e τ fwd entryOk bvL bvR) s r := by
  cases fwd
  · -- built backwards: the right child is the inner one
    obtain ⟨ri, hi, fi, rfl, hfi⟩ := hR entryOk s
    rw [St.visit_shift] at hi
    by_cases h1 : (bvR entryOk).2 = .ok
    · have hf1 := hfi.of_ok h1
      subst hf1
      obtain ⟨ro, ho, fo, rfl, hfo⟩ := hL e (s.visit a off ((bvR entryOk).1.map (· + lsize)) s.flags)
      rw [St.visit_visit] at ho
      rw [St.visit_flags] at hfo
      simp only [BSem.expectedPlan, runRec, Bool.false_eq_true, if_false, hi, Option.bind_some, nodeVisit, h1, ne_eq,
        not_true_eq_false, decide_false, Bool.and_self, if_true, ho]
      by_cases h2 : (bvL e).2 = .ok
      · have hf2 := hfo.of_ok h2
        subst hf2
        cases τ <;>
          simp only [h2, not_true_eq_false, decide_false, if_false, Bool.false_eq_true] <;>
          exact ⟨_, rfl, s.flags, rfl, by simp [FlagSpec]⟩
      · simp only [h2, not_false_eq_true, decide_true, if_true]
        exact ⟨_, rfl, fo, by simp [h2], hfo⟩
    · simp only [BSem.expectedPlan, runRec, Bool.false_eq_true, if_false, hi, Option.bind_some, nodeVisit, h1, ne_eq,
        not_false_eq_true, decide_true, if_true]
      exact ⟨_, rfl, fi, by simp [h1], hfi⟩
  · obtain ⟨ri, hi, fi, rfl, hfi⟩ := hL entryOk s
    by_cases h1 : (bvL entryOk).2 = .ok
    · have hf1 := hfi.of_ok h1
      subst hf1
      obtain ⟨ro, ho, fo, rfl, hfo⟩ := hR e (s.visit a off (bvL entryOk).1 s.flags)
      rw [St.visit_shift, St.visit_visit] at ho
      rw [St.visit_flags] at hfo
      simp only [BSem.expectedPlan, runRec, if_true, hi, Option.bind_some, nodeVisit, h1, ne_eq,
        not_true_eq_false, decide_false, Bool.and_self, if_false, ho]
      by_cases h2 : (bvR e).2 = .ok
      · have hf2 := hfo.of_ok h2
        subst hf2
        cases τ <;>
          simp only [h2, not_true_eq_false, decide_false, if_false, Bool.false_eq_true] <;>
          exact ⟨_, rfl, s.flags, rfl, by simp [FlagSpec]⟩
      · simp only [h2, not_false_eq_true, decide_true, if_true]
        exact ⟨_, rfl, fo, by simp [h2], hfo⟩
    · simp only [BSem.expectedPlan, runRec, if_true, hi, Option.bind_some, nodeVisit, h1, ne_eq,
        not_false_eq_true, decide_true]
      exact ⟨_, rfl, fi, by simp [h1], hfi⟩

/-- full characterisation of the statistics side of a `_build_tree` call -/
theorem buildRead_expected (stepErr : ErrKind) (a : Nat → K) (fwd : Bool) (t : TTree K) (off : Nat) (entryOk : Bool)
    (s : St K) :
    ∃ r, buildRead BSem.expectedPlan (runProc expectedChain) stepErr a fwd t off entryOk s = some r ∧
      BSpec stepErr a off (buildVisit fwd t entryOk) s r := by
  induction t generalizing off entryOk s with
  | leaf w ok => exact buildRead_leaf stepErr a fwd w ok off entryOk s
  | node l r e τ ihl ihr =>
    have := runRec_expected stepErr a off l.size e τ fwd entryOk
      (buildRead BSem.expectedPlan (runProc expectedChain) stepErr a fwd l off)
      (buildRead BSem.expectedPlan (runProc expectedChain) stepErr a fwd r (off + l.size))
      (buildVisit fwd l) (buildVisit fwd r) (fun b s => ihl off b s) (fun b s => ihr (off + l.size) b s) s
    simpa only [buildRead, buildVisit, nodeVisit] using this

end MiciVerif.Skel.SSem
