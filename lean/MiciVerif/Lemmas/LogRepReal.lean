/-
Real-number semantics of the primitives of `Model/LogRep.lean` and the analytic identities
behind the branches of the stable formulas (C20).

`XReal` = extended reals with NaN and a raised-exception value.  `realPrims g` gives every
primitive its Python/IEEE meaning *without rounding*:
`math.log` raises for arguments `≤ 0`, `math.log1p` for arguments `≤ -1`, float division by zero
raises; `exp` never overflows on reals.  With `g = true` ("guarded") a primitive additionally
raises when it is called outside the range in which the stable formulas are supposed to use
it: `exp` on a positive argument (overflow risk), `log1p` on an argument `< -1/2`
(cancellation in `1 + x`), `expm1` outside `(-log 2, 0)`.  Because every primitive is strict
in `err`, "the guarded run does not return `err`" is exactly "no call was out of range".
-/
import MiciVerif.Model.LogRep
import Mathlib.Analysis.SpecialFunctions.Log.Basic
import Mathlib.Analysis.SpecialFunctions.Exp

namespace MiciVerif.LogRep
open Real

inductive XReal
  | fin (r : ℝ)
  | posInf
  | negInf
  | nan
  | err

namespace XReal

noncomputable def exp (g : Bool) : XReal → XReal
  | fin r => if g ∧ 0 < r then err else fin (Real.exp r)
  | posInf => if g then err else posInf
  | negInf => fin 0
  | nan => nan
  | err => err

noncomputable def log : XReal → XReal
  | fin r => if 0 < r then fin (Real.log r) else err
  | posInf => posInf
  | negInf => err
  | nan => nan
  | err => err

noncomputable def log1p (g : Bool) : XReal → XReal
  | fin r => if -1 < r then (if g ∧ r < -(1 / 2) then err else fin (Real.log (1 + r))) else err
  | posInf => posInf
  | negInf => err
  | nan => nan
  | err => err

noncomputable def expm1 (g : Bool) : XReal → XReal
  | fin r => if g ∧ ¬ (-(Real.log 2) < r ∧ r < 0) then err else fin (Real.exp r - 1)
  | posInf => if g then err else posInf
  | negInf => if g then err else fin (-1)
  | nan => nan
  | err => err

noncomputable def add : XReal → XReal → XReal
  | err, _ => err
  | _, err => err
  | nan, _ => nan
  | _, nan => nan
  | fin a, fin b => fin (a + b)
  | fin _, posInf => posInf
  | fin _, negInf => negInf
  | posInf, fin _ => posInf
  | negInf, fin _ => negInf
  | posInf, posInf => posInf
  | negInf, negInf => negInf
  | posInf, negInf => nan
  | negInf, posInf => nan

noncomputable def neg : XReal → XReal
  | fin r => fin (-r)
  | posInf => negInf
  | negInf => posInf
  | nan => nan
  | err => err

noncomputable def sub (a b : XReal) : XReal := add a (neg b)

/-- multiplication / division are only used on plain values (mixed operators); infinite
operands follow IEEE for the sign cases that matter here, `0 * inf = nan`. -/
noncomputable def mul : XReal → XReal → XReal
  | err, _ => err
  | _, err => err
  | nan, _ => nan
  | _, nan => nan
  | fin a, fin b => fin (a * b)
  | fin a, posInf => if 0 < a then posInf else if a < 0 then negInf else nan
  | fin a, negInf => if 0 < a then negInf else if a < 0 then posInf else nan
  | posInf, fin b => if 0 < b then posInf else if b < 0 then negInf else nan
  | negInf, fin b => if 0 < b then negInf else if b < 0 then posInf else nan
  | posInf, posInf => posInf
  | negInf, negInf => posInf
  | posInf, negInf => negInf
  | negInf, posInf => negInf

noncomputable def div : XReal → XReal → XReal
  | err, _ => err
  | _, err => err
  | nan, _ => nan
  | _, nan => nan
  | fin a, fin b => if b = 0 then err else fin (a / b)
  | fin _, posInf => fin 0
  | fin _, negInf => fin 0
  | posInf, fin b => if 0 < b then posInf else if b < 0 then negInf else err
  | negInf, fin b => if 0 < b then negInf else if b < 0 then posInf else err
  | posInf, posInf => nan
  | negInf, negInf => nan
  | posInf, negInf => nan
  | negInf, posInf => nan

noncomputable def lt : XReal → XReal → Bool
  | fin a, fin b => decide (a < b)
  | fin _, posInf => true
  | negInf, fin _ => true
  | negInf, posInf => true
  | _, _ => false

noncomputable def le : XReal → XReal → Bool
  | fin a, fin b => decide (a ≤ b)
  | fin _, posInf => true
  | negInf, fin _ => true
  | negInf, posInf => true
  | posInf, posInf => true
  | negInf, negInf => true
  | _, _ => false

noncomputable def beq : XReal → XReal → Bool
  | fin a, fin b => decide (a = b)
  | posInf, posInf => true
  | negInf, negInf => true
  | _, _ => false

end XReal

/-- Python/IEEE semantics of the primitives on reals (`g = false`), or the same with the
intended-use ranges enforced (`g = true`). -/
noncomputable def realPrims (g : Bool) : Prims XReal where
  exp := XReal.exp g
  expSat := XReal.exp false
  log := XReal.log
  log1p := XReal.log1p g
  expm1 := XReal.expm1 g
  add := XReal.add
  sub := XReal.sub
  mul := XReal.mul
  div := XReal.div
  neg := XReal.neg
  lt := XReal.lt
  le := XReal.le
  eq := XReal.beq
  zero := .fin 0
  negInf := .negInf
  nan := .nan
  log2 := .fin (Real.log 2)
  err := .err

/-! ### The analytic identities of the four branches -/

theorem log1p_exp_pos_branch (v : ℝ) :
    v + Real.log (1 + Real.exp (-v)) = Real.log (1 + Real.exp v) := by
  have h1 : (0 : ℝ) < 1 + Real.exp (-v) := by positivity
  have key : Real.log (Real.exp v * (1 + Real.exp (-v))) = v + Real.log (1 + Real.exp (-v)) := by
    rw [Real.log_mul (Real.exp_pos v).ne' h1.ne', Real.log_exp]
  rw [← key]
  congr 1
  rw [mul_add, mul_one, ← Real.exp_add, add_neg_cancel, Real.exp_zero, add_comm]

theorem log_sum_exp_branch (a b : ℝ) :
    a + Real.log (1 + Real.exp (b - a)) = Real.log (Real.exp a + Real.exp b) := by
  have h1 : (0 : ℝ) < 1 + Real.exp (b - a) := by positivity
  have key : Real.log (Real.exp a * (1 + Real.exp (b - a))) = a + Real.log (1 + Real.exp (b - a)) := by
    rw [Real.log_mul (Real.exp_pos a).ne' h1.ne', Real.log_exp]
  rw [← key]
  congr 1
  rw [mul_add, mul_one, ← Real.exp_add, add_sub_cancel]

theorem log_diff_exp_branch (a b : ℝ) (h : b < a) :
    a + Real.log (1 - Real.exp (b - a)) = Real.log (Real.exp a - Real.exp b) := by
  have hlt : Real.exp (b - a) < 1 := by
    rw [← Real.exp_zero]; exact Real.exp_lt_exp.mpr (by linarith)
  have h1 : (0 : ℝ) < 1 - Real.exp (b - a) := by linarith
  have key : Real.log (Real.exp a * (1 - Real.exp (b - a))) = a + Real.log (1 - Real.exp (b - a)) := by
    rw [Real.log_mul (Real.exp_pos a).ne' h1.ne', Real.log_exp]
  rw [← key]
  congr 1
  rw [mul_sub, mul_one, ← Real.exp_add, add_sub_cancel]

theorem exp_neg_log_two : Real.exp (-(Real.log 2)) = 1 / 2 := by
  rw [Real.exp_neg, Real.exp_log (by norm_num : (0 : ℝ) < 2)]; norm_num

theorem exp_lt_one_of_neg {v : ℝ} (h : v < 0) : Real.exp v < 1 := by
  rw [← Real.exp_zero]; exact Real.exp_lt_exp.mpr h

theorem exp_le_half {v : ℝ} (h : v ≤ -(Real.log 2)) : Real.exp v ≤ 1 / 2 := by
  rw [← exp_neg_log_two]; exact Real.exp_le_exp.mpr h

theorem half_lt_exp {v : ℝ} (h : -(Real.log 2) < v) : 1 / 2 < Real.exp v := by
  rw [← exp_neg_log_two]; exact Real.exp_lt_exp.mpr h

theorem log_two_pos : 0 < Real.log 2 := Real.log_pos (by norm_num)

/-! ### Evaluation of the primitives inside their intended ranges (for both semantics) -/

namespace XReal

theorem exp_fin_nonpos (g : Bool) {r : ℝ} (h : r ≤ 0) : exp g (fin r) = fin (Real.exp r) := by
  have : ¬ (0 < r) := not_lt.mpr h
  simp [exp, this]

theorem log1p_fin (g : Bool) {r : ℝ} (h : -(1 / 2) ≤ r) :
    log1p g (fin r) = fin (Real.log (1 + r)) := by
  have h1 : -1 < r := by linarith
  have h2 : ¬ (r < -(1 / 2)) := not_lt.mpr h
  simp only [log1p, h1, if_true, h2, and_false, if_false]

theorem expm1_fin (g : Bool) {r : ℝ} (h1 : -(Real.log 2) < r) (h2 : r < 0) :
    expm1 g (fin r) = fin (Real.exp r - 1) := by
  simp [expm1, h1, h2]

theorem log_fin_pos {r : ℝ} (h : 0 < r) : log (fin r) = fin (Real.log r) := by
  simp [log, h]

end XReal

/-- Log-representation of a non-negative real: `0 ↦ -inf`, `a > 0 ↦ log a`. -/
noncomputable def toLog (a : ℝ) : LogRepF XReal := ⟨if a = 0 then .negInf else .fin (Real.log a)⟩

theorem toLog_zero : toLog 0 = ⟨.negInf⟩ := by simp [toLog]
theorem toLog_pos {a : ℝ} (h : 0 < a) : toLog a = ⟨.fin (Real.log a)⟩ := by simp [toLog, h.ne']

end MiciVerif.LogRep
