/-
Dual-number helper lemmas for C05: vectors/matrices over `K[ε]`, first-order expansions of
dot products, matrix-vector products, matrix products.
-/
import Mathlib.Algebra.DualNumber
import Mathlib.Data.Matrix.Mul
import Mathlib.Tactic.Ring
import Mathlib.LinearAlgebra.Matrix.Charpoly.Coeff
import Mathlib.LinearAlgebra.Matrix.NonsingularInverse

set_option linter.unusedSectionVars false

namespace MiciVerif.Dual
open Matrix TrivSqZeroExt DualNumber

variable {K : Type*} [CommRing K] {l m n : Type*} [Fintype l] [Fintype m] [Fintype n]

/-- `x + ε v` -/
def dvec (x v : n → K) : n → K[ε] := fun i => inl (x i) + inr (v i)

/-- `A + ε B` -/
def dmat (A B : Matrix m n K) : Matrix m n K[ε] := Matrix.of fun i j => inl (A i j) + inr (B i j)

/-- constant lift -/
def cmat (A : Matrix m n K) : Matrix m n K[ε] := A.map inl

/-- `a + ε b` -/
def dnum (a b : K) : K[ε] := inl a + inr b

@[simp] theorem fst_dnum (a b : K) : (dnum a b).fst = a := by simp [dnum]
@[simp] theorem snd_dnum (a b : K) : (dnum a b).snd = b := by simp [dnum]
@[simp] theorem fst_dvec (x v : n → K) (i : n) : (dvec x v i).fst = x i := by simp [dvec]
@[simp] theorem snd_dvec (x v : n → K) (i : n) : (dvec x v i).snd = v i := by simp [dvec]
@[simp] theorem fst_dmat (A B : Matrix m n K) (i : m) (j : n) : (dmat A B i j).fst = A i j := by
  simp [dmat]
@[simp] theorem snd_dmat (A B : Matrix m n K) (i : m) (j : n) : (dmat A B i j).snd = B i j := by
  simp [dmat]
@[simp] theorem fst_cmat (A : Matrix m n K) (i : m) (j : n) : (cmat A i j).fst = A i j := by
  simp [cmat]
@[simp] theorem snd_cmat (A : Matrix m n K) (i : m) (j : n) : (cmat A i j).snd = 0 := by
  simp [cmat]

theorem cmat_eq_dmat (A : Matrix m n K) : cmat A = dmat A 0 := by
  ext i j <;> simp

theorem dnum_ext {x : K[ε]} {a b : K} (h1 : x.fst = a) (h2 : x.snd = b) : x = dnum a b :=
  TrivSqZeroExt.ext (by simp [h1]) (by simp [h2])

theorem dnum_mul (a b a' b' : K) : dnum a b * dnum a' b' = dnum (a * a') (a * b' + b * a') := by
  apply dnum_ext
  · simp
  · rw [DualNumber.snd_mul]; simp

theorem dnum_add (a b a' b' : K) : dnum a b + dnum a' b' = dnum (a + a') (b + b') := by
  apply dnum_ext <;> simp

theorem inl_eq_dnum (a : K) : (inl a : K[ε]) = dnum a 0 := by
  apply dnum_ext <;> simp

/-- `(x+εv)·(y+εu) = x·y + ε (x·u + v·y)` -/
theorem dot_dvec (x v y u : n → K) :
    dvec x v ⬝ᵥ dvec y u = dnum (x ⬝ᵥ y) (x ⬝ᵥ u + v ⬝ᵥ y) := by
  apply dnum_ext
  · simp [dotProduct, fst_sum]
  · simp only [dotProduct, snd_sum, DualNumber.snd_mul, fst_dvec, snd_dvec, Finset.sum_add_distrib]

/-- `(A+εB)(x+εv) = Ax + ε (Av + Bx)` -/
theorem dmat_mulVec_dvec (A B : Matrix m n K) (x v : n → K) :
    dmat A B *ᵥ dvec x v = dvec (A *ᵥ x) (A *ᵥ v + B *ᵥ x) := by
  funext i
  apply TrivSqZeroExt.ext
  · simp [mulVec, dotProduct, fst_sum]
  · simp only [mulVec, dotProduct, snd_sum, DualNumber.snd_mul, fst_dmat, snd_dmat, fst_dvec,
      snd_dvec, Finset.sum_add_distrib, Pi.add_apply]

theorem cmat_mulVec_dvec (A : Matrix m n K) (x v : n → K) :
    cmat A *ᵥ dvec x v = dvec (A *ᵥ x) (A *ᵥ v) := by
  rw [cmat_eq_dmat, dmat_mulVec_dvec]; simp

/-- `(A+εB)(C+εD) = AC + ε (AD + BC)` -/
theorem dmat_mul_dmat (A B : Matrix l m K) (C D : Matrix m n K) :
    dmat A B * dmat C D = dmat (A * C) (A * D + B * C) := by
  ext i j
  · simp [Matrix.mul_apply, fst_sum]
  · simp only [Matrix.mul_apply, snd_sum, DualNumber.snd_mul, fst_dmat, snd_dmat,
      Finset.sum_add_distrib, Matrix.add_apply]

theorem dmat_transpose (A B : Matrix m n K) : (dmat A B)ᵀ = dmat Aᵀ Bᵀ := by
  ext i j <;> simp

theorem dmat_add (A B C D : Matrix m n K) : dmat A B + dmat C D = dmat (A + C) (B + D) := by
  ext i j <;> simp

/-- `v · (A w) = w · (Aᵀ v)` -/
theorem dot_mulVec_comm (A : Matrix m n K) (v : m → K) (w : n → K) :
    v ⬝ᵥ A *ᵥ w = w ⬝ᵥ Aᵀ *ᵥ v := by
  rw [Matrix.dotProduct_mulVec, Matrix.mulVec_transpose, dotProduct_comm]


/-! ### determinants: Jacobi's formula in dual numbers -/

section Det
variable [DecidableEq n]

theorem det_cmat (A : Matrix n n K) : (cmat A).det = inl A.det := by
  exact ((TrivSqZeroExt.inlHom K K).map_det A).symm

theorem trace_cmat (A : Matrix n n K) : (cmat A).trace = inl A.trace := by
  simp [Matrix.trace, cmat, TrivSqZeroExt.inl_sum]

theorem dmat_one_eq (C : Matrix n n K) : dmat 1 C = 1 + (ε : K[ε]) • cmat C := by
  ext i j
  · by_cases h : i = j <;> simp [h]
  · by_cases h : i = j <;> simp [h]

/-- `det (1 + εC) = 1 + ε tr C` -/
theorem det_dmat_one (C : Matrix n n K) : (dmat 1 C).det = dnum 1 (trace C) := by
  rw [dmat_one_eq, Matrix.det_one_add_smul, DualNumber.eps_pow_two, mul_zero, add_zero, trace_cmat]
  apply dnum_ext
  · simp
  · simp

/-- **Jacobi's formula**: `det (A + εB) = det A · (1 + ε tr(A⁻¹B))`, `X` the checked inverse. -/
theorem det_dmat (A B X : Matrix n n K) (hAX : A * X = 1) :
    (dmat A B).det = dnum A.det (A.det * trace (X * B)) := by
  have hfac : dmat A B = cmat A * dmat 1 (X * B) := by
    rw [cmat_eq_dmat, dmat_mul_dmat, Matrix.mul_one, Matrix.zero_mul, add_zero, ← Matrix.mul_assoc,
      hAX, Matrix.one_mul]
  rw [hfac, Matrix.det_mul, det_cmat, det_dmat_one, inl_eq_dnum, dnum_mul]
  congr 1 <;> ring

end Det

/-- the inverse of `A + εB` is `X − ε X B X` -/
theorem dmat_inv [DecidableEq n] (A B X : Matrix n n K) (hAX : A * X = 1) :
    dmat A B * dmat X (-(X * B * X)) = 1 := by
  have hXA : X * A = 1 := mul_eq_one_comm.mp hAX
  rw [dmat_mul_dmat, hAX]
  have : A * -(X * B * X) + B * X = 0 := by
    rw [Matrix.mul_neg, ← Matrix.mul_assoc, ← Matrix.mul_assoc, hAX, Matrix.one_mul, neg_add_cancel]
  rw [this]
  ext i j
  · by_cases h : i = j <;> simp [h, Matrix.one_apply]
  · by_cases h : i = j <;> simp [h, Matrix.one_apply]

/-- uniqueness: any right inverse of `A + εB` over `K[ε]` is `X − ε X B X` -/
theorem dmat_inv_unique [DecidableEq n] (A B X : Matrix n n K) (hAX : A * X = 1)
    (Y : Matrix n n K[ε]) (hY : dmat A B * Y = 1) : Y = dmat X (-(X * B * X)) := by
  have h1 := dmat_inv A B X hAX
  have h2 : dmat X (-(X * B * X)) * dmat A B = 1 := mul_eq_one_comm.mp h1
  calc Y = (dmat X (-(X * B * X)) * dmat A B) * Y := by rw [h2, Matrix.one_mul]
    _ = dmat X (-(X * B * X)) * (dmat A B * Y) := by rw [Matrix.mul_assoc]
    _ = dmat X (-(X * B * X)) := by rw [hY, Matrix.mul_one]


/-- the inverse of a symmetric matrix is symmetric -/
theorem inv_symm_of_symm [DecidableEq n] (A X : Matrix n n K) (hA : Aᵀ = A) (hAX : A * X = 1) :
    Xᵀ = X := by
  have h1 : Xᵀ * A = 1 := by
    have := congrArg Matrix.transpose hAX
    rwa [Matrix.transpose_mul, hA, Matrix.transpose_one] at this
  calc Xᵀ = Xᵀ * (A * X) := by rw [hAX, Matrix.mul_one]
    _ = (Xᵀ * A) * X := by rw [Matrix.mul_assoc]
    _ = X := by rw [h1, Matrix.one_mul]

/-- `a · (A b) = b · (A a)` for symmetric `A` -/
theorem dot_mulVec_symm (A : Matrix n n K) (hA : Aᵀ = A) (a b : n → K) :
    a ⬝ᵥ A *ᵥ b = b ⬝ᵥ A *ᵥ a := by
  rw [dot_mulVec_comm, hA]

/-- Frobenius pairing as a trace: `Σᵢⱼ Aᵢⱼ Bᵢⱼ = tr(A Bᵀ)` -/
theorem trace_mul_transpose_eq_sum (A B : Matrix m n K) :
    trace (A * Bᵀ) = ∑ i, ∑ j, A i j * B i j := by
  simp [Matrix.trace, Matrix.mul_apply]

end MiciVerif.Dual
