/- Helper lemmas about trajectory trees (`Model/Transitions.lean`): weighted sums, the
uniform-progressive proposal, the biased-progressive merge identity. -/
import MiciVerif.Lemmas.Dist
import Mathlib.Tactic.Positivity
import Mathlib.Tactic.Push

namespace MiciVerif.Transitions
open Dist MiciVerif.Transitions.TTree

variable {K : Type} [Field K] [LinearOrder K] [IsStrictOrderedRing K]

namespace TTree

theorem W_node (l r : TTree K) (e τ : Bool) : (node l r e τ).W = l.W + r.W := rfl

theorem size_pos (t : TTree K) : 0 < t.size := by
  induction t with
  | leaf => simp [size]
  | node l r e τ ihl ihr => simp [size]; omega

theorem wsum_congr (t : TTree K) (g h : Nat → K) (hgh : ∀ k, k < t.size → g k = h k) :
    t.wsum g = t.wsum h := by
  induction t generalizing g h with
  | leaf w ok => simp [wsum, hgh 0 (by simp [size])]
  | node l r e τ ihl ihr =>
    simp only [wsum]
    rw [ihl g h (fun k hk => hgh k (by simp [size]; omega)),
      ihr _ _ (fun k hk => hgh (k + l.size) (by simp [size]; omega))]

theorem wsum_add (t : TTree K) (g h : Nat → K) :
    t.wsum (fun k => g k + h k) = t.wsum g + t.wsum h := by
  induction t generalizing g h with
  | leaf w ok => simp [wsum]; ring
  | node l r e τ ihl ihr => simp only [wsum]; rw [ihl, ihr]; ring

theorem wsum_smul (t : TTree K) (c : K) (g : Nat → K) :
    t.wsum (fun k => c * g k) = c * t.wsum g := by
  induction t generalizing g with
  | leaf w ok => simp [wsum]; ring
  | node l r e τ ihl ihr => simp only [wsum]; rw [ihl, ihr]; ring

theorem wsum_sub (t : TTree K) (g h : Nat → K) :
    t.wsum (fun k => g k - h k) = t.wsum g - t.wsum h := by
  induction t generalizing g h with
  | leaf w ok => simp [wsum]; ring
  | node l r e τ ihl ihr => simp only [wsum]; rw [ihl, ihr]; ring

theorem good_node (l r : TTree K) (e τ : Bool) : (node l r e τ).good = (l.valid && r.valid && e) := rfl

theorem wsum_const (t : TTree K) (c : K) : t.wsum (fun _ => c) = c * t.W := by
  have := wsum_smul t c (fun _ => (1 : K))
  simpa [W] using this

theorem wsum_zero (t : TTree K) : t.wsum (fun _ => (0 : K)) = 0 := by
  rw [wsum_const]; ring

theorem W_nonneg (t : TTree K) (h : t.Nonneg) : 0 ≤ t.W := by
  induction t with
  | leaf w ok => simpa [W, wsum, Nonneg] using h
  | node l r e τ ihl ihr =>
    rw [W_node]; exact add_nonneg (ihl h.1) (ihr h.2)

/-- a tree of total weight zero carries no mass at all -/
theorem wsum_eq_zero_of_W (t : TTree K) (h : t.Nonneg) (hW : t.W = 0) (g : Nat → K) :
    t.wsum g = 0 := by
  induction t generalizing g with
  | leaf w ok =>
    have : w = 0 := by simpa [W, wsum] using hW
    simp [wsum, this]
  | node l r e τ ihl ihr =>
    rw [W_node] at hW
    have hl := W_nonneg l h.1
    have hr := W_nonneg r h.2
    have h1 : l.W = 0 := by linarith
    have h2 : r.W = 0 := by linarith
    simp only [wsum]
    rw [ihl h.1 h1, ihr h.2 h2]; ring

theorem valid_eq (t : TTree K) : t.valid = (t.good && !t.termFlag) := by
  cases t <;> simp [valid, good, termFlag]

end TTree

/-! ### ratio -/

theorem ratio_of_le {a b : K} (ha : 0 < a) (hab : a ≤ b) : ratio b a = 1 := by
  unfold ratio
  have : 1 ≤ b / a := by rw [le_div_iff₀ ha]; linarith
  exact min_eq_right this

theorem ratio_of_ge {a b : K} (ha : 0 < a) (hb : 0 ≤ b) (hab : b ≤ a) : ratio b a = b / a := by
  unfold ratio
  have : b / a ≤ 1 := by rw [div_le_iff₀ ha]; linarith
  exact min_eq_left this

theorem ratio_zero_den (b : K) : ratio b 0 = 0 := by
  unfold ratio; simp

theorem ratio_zero_num (a : K) : ratio 0 a = 0 := by
  unfold ratio; simp

/-! ### the proposal of a freshly built sub-tree is a draw proportional to the weights -/

theorem propose_mass (fwd : Bool) (t : TTree K) (hn : t.Nonneg) (g : Nat → K) :
    t.W * expect (propose fwd t) g = t.wsum g := by
  induction t generalizing g with
  | leaf w ok => simp [propose, W, wsum]
  | node l r e τ ihl ihr =>
    have hl := W_nonneg l hn.1
    have hr := W_nonneg r hn.2
    have il := ihl hn.1 g
    have ir := ihr hn.2 (fun k => g (k + l.size))
    simp only [propose, expect_bind, expect_bernoulli, W_node, wsum]
    rcases (add_nonneg hl hr).eq_or_lt with h0 | hpos
    · -- total weight zero
      have h1 : l.W = 0 := by linarith
      have h2 : r.W = 0 := by linarith
      rw [wsum_eq_zero_of_W l hn.1 h1, wsum_eq_zero_of_W r hn.2 h2, h1, h2]; ring
    · cases fwd
      · -- built right to left: outer half is the left one
        have hp : ratio l.W (l.W + r.W) = l.W / (l.W + r.W) :=
          ratio_of_ge hpos hl (by linarith)
        simp only [Bool.false_eq_true, if_false, if_true, hp, expect_map, decide_false,
          decide_true, Bool.true_eq_false]
        rw [← il, ← ir]
        field_simp
        ring
      · have hp : ratio r.W (l.W + r.W) = r.W / (l.W + r.W) :=
          ratio_of_ge hpos hr (by linarith)
        simp only [if_true, hp, expect_map, Bool.false_eq_true, if_false]
        rw [← il, ← ir]
        field_simp
        ring

/-! ### merge identity of biased progressive sampling -/

/-- `Σ_{c∈L} w c · P_{L→}(c→·) + Σ_{c∈R} w c · P_{R→}(c→·) = w` tested against `g`:
with `αL = min(1, W_R/W_L)`, `αR = min(1, W_L/W_R)`. -/
theorem merge_mass (l r : TTree K) (hl : l.Nonneg) (hr : r.Nonneg) (g : Nat → K) :
    l.wsum (fun c => (1 - ratio r.W l.W) * g c +
        ratio r.W l.W * expect (propose true r) (fun k => g (k + l.size))) +
      r.wsum (fun c => (1 - ratio l.W r.W) * g (c + l.size) +
        ratio l.W r.W * expect (propose false l) g) =
    l.wsum g + r.wsum (fun k => g (k + l.size)) := by
  have hWl := W_nonneg l hl
  have hWr := W_nonneg r hr
  have eL := propose_mass false l hl g
  have eR := propose_mass true r hr (fun k => g (k + l.size))
  have key : l.wsum (fun c => (1 - ratio r.W l.W) * g c +
        ratio r.W l.W * expect (propose true r) (fun k => g (k + l.size))) +
      r.wsum (fun c => (1 - ratio l.W r.W) * g (c + l.size) +
        ratio l.W r.W * expect (propose false l) g) =
      ((1 - ratio r.W l.W) * l.wsum g +
        ratio r.W l.W * expect (propose true r) (fun k => g (k + l.size)) * l.W) +
      ((1 - ratio l.W r.W) * r.wsum (fun k => g (k + l.size)) +
        ratio l.W r.W * expect (propose false l) g * r.W) := by
    rw [wsum_add, wsum_add, wsum_smul l, wsum_smul r, wsum_const l, wsum_const r]
  rw [key]
  have hAz : l.W = 0 → l.wsum g = 0 := fun h => wsum_eq_zero_of_W l hl h g
  have hBz : r.W = 0 → r.wsum (fun k => g (k + l.size)) = 0 := fun h => wsum_eq_zero_of_W r hr h _
  generalize l.wsum g = A at *
  generalize r.wsum (fun k => g (k + l.size)) = B at *
  generalize expect (propose false l) g = EL at *
  generalize expect (propose true r) (fun k => g (k + l.size)) = ER at *
  generalize l.W = WL at *
  generalize r.W = WR at *
  rcases hWl.eq_or_lt with h0 | hlpos
  · -- W_L = 0
    subst h0
    rw [hAz rfl, ratio_zero_den, ratio_zero_num]; ring
  · rcases hWr.eq_or_lt with h0 | hrpos
    · subst h0
      rw [hBz rfl, ratio_zero_den, ratio_zero_num]; ring
    · rcases le_total WL WR with hle | hle
      · rw [ratio_of_le hlpos hle, ratio_of_ge hrpos hWl hle, ← eL, ← eR]
        field_simp
        ring
      · rw [ratio_of_le hrpos hle, ratio_of_ge hlpos hWr hle, ← eL, ← eR]
        field_simp
        ring

end MiciVerif.Transitions
