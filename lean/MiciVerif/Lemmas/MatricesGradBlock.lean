/-
C11 — block-diagonal lemmas: log-determinant and inverse quadratic form of
`blockDiag2 A B = fromBlocks A 0 0 B` split over the blocks.
-/
import MiciVerif.Lemmas.MatricesGrad
import Mathlib.LinearAlgebra.Matrix.SchurComplement

set_option linter.unusedSectionVars false

namespace MiciVerif.MatricesGrad
open Matrix

variable {R : Type*} [CommRing R] {n m : Type*} [Fintype n] [Fintype m] [DecidableEq n]
  [DecidableEq m]

theorem blockDiag2_det (A : Matrix n n R) (B : Matrix m m R) :
    det (blockDiag2 A B) = det A * det B := by
  unfold blockDiag2; exact det_fromBlocks_zero₂₁ A 0 B

theorem blockDiag2_mul (A X : Matrix n n R) (B Y : Matrix m m R) :
    blockDiag2 A B * blockDiag2 X Y = blockDiag2 (A * X) (B * Y) := by
  unfold blockDiag2
  rw [fromBlocks_multiply]
  simp

theorem blockDiag2_one : blockDiag2 (1 : Matrix n n R) (1 : Matrix m m R) = 1 := by
  unfold blockDiag2; exact fromBlocks_one

theorem blockDiag2_quadForm (X : Matrix n n R) (Y : Matrix m m R) (v : n → R) (w : m → R) :
    Sum.elim v w ⬝ᵥ blockDiag2 X Y *ᵥ Sum.elim v w = v ⬝ᵥ X *ᵥ v + w ⬝ᵥ Y *ᵥ w := by
  unfold blockDiag2
  rw [fromBlocks_mulVec, sumElim_dotProduct_sumElim]
  simp

/-- log-determinant gradient of a block-diagonal matrix = tuple of the blocks' gradients. -/
theorem blockDiag2_logdet {ε : R} (hε : ε * ε = 0) {A Ah : Matrix n n R} {B Bh : Matrix m m R}
    {a b : R} (hA : det Ah = det A * (1 + ε * a)) (hB : det Bh = det B * (1 + ε * b)) :
    det (blockDiag2 Ah Bh) = det (blockDiag2 A B) * (1 + ε * (a + b)) := by
  rw [blockDiag2_det, blockDiag2_det, hA, hB]
  have : det A * (1 + ε * a) * (det B * (1 + ε * b))
      = det A * det B * (1 + ε * (a + b)) + (ε * ε) * (det A * det B * a * b) := by ring
  rw [this, hε, zero_mul, add_zero]

/-- inverse-quadratic-form gradient of a block-diagonal matrix = tuple of the blocks'
gradients at the corresponding parts of the vector. -/
theorem blockDiag2_quad {ε : R} {Ah X : Matrix n n R} {Bh Y : Matrix m m R} {v : n → R}
    {w : m → R} {ga gb : R}
    (hA : (∃ Xh, Ah * Xh = 1) ∧ ∀ Xh, Ah * Xh = 1 → v ⬝ᵥ Xh *ᵥ v = v ⬝ᵥ X *ᵥ v + ε * ga)
    (hB : (∃ Yh, Bh * Yh = 1) ∧ ∀ Yh, Bh * Yh = 1 → w ⬝ᵥ Yh *ᵥ w = w ⬝ᵥ Y *ᵥ w + ε * gb) :
    (∃ Zh, blockDiag2 Ah Bh * Zh = 1) ∧
      ∀ Zh, blockDiag2 Ah Bh * Zh = 1 →
        Sum.elim v w ⬝ᵥ Zh *ᵥ Sum.elim v w
          = Sum.elim v w ⬝ᵥ blockDiag2 X Y *ᵥ Sum.elim v w + ε * (ga + gb) := by
  obtain ⟨⟨Xh, hXh⟩, hAq⟩ := hA
  obtain ⟨⟨Yh, hYh⟩, hBq⟩ := hB
  have h0 : blockDiag2 Ah Bh * blockDiag2 Xh Yh = 1 := by
    rw [blockDiag2_mul, hXh, hYh, blockDiag2_one]
  refine ⟨⟨_, h0⟩, fun Zh hZh => ?_⟩
  rw [right_inv_unique hZh h0, blockDiag2_quadForm, blockDiag2_quadForm, hAq Xh hXh, hBq Yh hYh]
  ring

end MiciVerif.MatricesGrad
