/-
Generic part of the semantic tie of `DynamicIntegrationTransition._build_tree` (builder B8): for the expected plan
(`Skel.BSem.expectedPlan`) the reading `BSem.buildRead` on any trajectory tree terminates iff
`!(entryOk && t.valid)` and otherwise returns weight `t.W` and a proposal distributed as `TTree.propose fwd t`.
Independent of the generated tables.
-/
import MiciVerif.Model.TransitionSkeleton

namespace MiciVerif.Skel.BSem
open MiciVerif.Transitions MiciVerif.Transitions.TTree

def expectedPlan : Plan :=
  ⟨[.step, .energy, .nanToInf, .newLeaf, .proposeSelf, .hDiff, .acceptProb, .sumAccept, .countStep, .clearTerminate,
    .checkDivergence],
   [.processError, .terminateNoTree],
   [.buildInner, .returnIfTerminated, .moveToFarEdge, .buildOuter, .returnIfTerminated, .orderNeg, .orderPos, .merge,
    .outerProb, .pickProposal, .criterion, .returnAll]⟩

variable {K : Type} [Field K] [LinearOrder K]

theorem bind_congr' {α β : Type} (d : Dist K α) (f g : α → Dist K β) (h : ∀ a, f a = g a) :
    Dist.bind d f = Dist.bind d g := by
  have : f = g := funext h
  rw [this]

/-- what a call returns when its tree is `valid` and the entering step succeeds, resp. otherwise -/
def Spec (r : BRes K) (good : Bool) (W : K) (p : Dist K Nat) : Prop :=
  if good then r = ⟨false, some W, some p⟩ else r.terminate = true

theorem runRec_expected (lsize : Nat) (e τ fwd entryOk : Bool) (resL resR : Bool → Option (BRes K))
    (WL WR : K) (pL pR : Dist K Nat) (vL vR : Bool)
    (hL : ∀ b, ∃ r, resL b = some r ∧ Spec r (b && vL) WL pL)
    (hR : ∀ b, ∃ r, resR b = some r ∧ Spec r (b && vR) WR pR) :
    ∃ r, runRec lsize e τ fwd entryOk resL resR expectedPlan.recp {} = some r ∧
      Spec r (entryOk && (vL && vR && e && !τ)) (WL + WR)
        (Dist.bind (Dist.bernoulli (ratio (if fwd then WR else WL) (WL + WR))) fun pickOuter =>
          if pickOuter = fwd then Dist.map (· + lsize) pR else pL) := by
  cases fwd
  · obtain ⟨ri, hi, hi'⟩ := hR entryOk
    obtain ⟨ro, ho, ho'⟩ := hL e
    simp only [expectedPlan, runRec, Bool.false_eq_true, if_false, hi, ho, Option.bind_some]
    unfold Spec at hi' ho' ⊢
    by_cases h1 : (entryOk && vR) = true
    · rw [if_pos h1] at hi'
      subst hi'
      by_cases h2 : (e && vL) = true
      · rw [if_pos h2] at ho'
        subst ho'
        simp only [Bool.and_eq_true] at h1 h2
        simp only [BRes.observe, Bool.not_false, h1.1, h1.2, h2.1, h2.2, Bool.true_and, Bool.and_true]
        cases τ
        · refine ⟨_, rfl, ?_⟩
          simp only [Bool.not_false, if_true]
          congr 2
        · exact ⟨_, rfl, by simp⟩
      · rw [if_neg h2] at ho'
        refine ⟨⟨true, none, none⟩, by simp [BRes.observe, ho'], ?_⟩
        have : (entryOk && (vL && vR && e && !τ)) = false := by
          cases e <;> cases vL <;> simp_all
        simp [this]
    · rw [if_neg h1] at hi'
      refine ⟨⟨true, none, none⟩, by simp [hi'], ?_⟩
      have : (entryOk && (vL && vR && e && !τ)) = false := by
        cases entryOk <;> cases vR <;> simp_all
      simp [this]
  · obtain ⟨ri, hi, hi'⟩ := hL entryOk
    obtain ⟨ro, ho, ho'⟩ := hR e
    simp only [expectedPlan, runRec, if_true, hi, ho, Option.bind_some]
    unfold Spec at hi' ho' ⊢
    by_cases h1 : (entryOk && vL) = true
    · rw [if_pos h1] at hi'
      subst hi'
      by_cases h2 : (e && vR) = true
      · rw [if_pos h2] at ho'
        subst ho'
        simp only [Bool.and_eq_true] at h1 h2
        simp only [BRes.observe, Bool.not_true, h1.1, h1.2, h2.1, h2.2, Bool.true_and, Bool.and_true]
        cases τ
        · refine ⟨_, rfl, ?_⟩
          simp only [Bool.not_false, if_true]
          congr 2
        · exact ⟨_, rfl, by simp⟩
      · rw [if_neg h2] at ho'
        refine ⟨⟨true, none, none⟩, by simp [BRes.observe, ho'], ?_⟩
        have : (entryOk && (vL && vR && e && !τ)) = false := by
          cases e <;> cases vR <;> simp_all
        simp [this]
    · rw [if_neg h1] at hi'
      refine ⟨⟨true, none, none⟩, by simp [hi'], ?_⟩
      have : (entryOk && (vL && vR && e && !τ)) = false := by
        cases entryOk <;> cases vL <;> simp_all
      simp [this]

/-- full characterisation of what a call returns -/
theorem buildRead_expected (fwd : Bool) (t : TTree K) (entryOk : Bool) :
    ∃ r, buildRead expectedPlan fwd t entryOk = some r ∧ Spec r (entryOk && t.valid) t.W (propose fwd t) := by
  induction t generalizing entryOk with
  | leaf w ok =>
    cases entryOk <;> cases ok <;>
      simp [Spec, buildRead, expectedPlan, runLeaf, runHand, valid, W, wsum, propose]
  | node l r e τ ihl ihr =>
    have := runRec_expected l.size e τ fwd entryOk (buildRead expectedPlan fwd l) (buildRead expectedPlan fwd r)
      l.W r.W (propose fwd l) (propose fwd r) l.valid r.valid ihl ihr
    simpa only [buildRead, valid, W, wsum, propose] using this

/-- what the caller can use of a result satisfying `Spec` -/
theorem observe_of_spec (r : BRes K) (good : Bool) (W : K) (p : Dist K Nat) (h : Spec r good W p) :
    r.observe = if good then some (W, p) else none := by
  unfold Spec at h
  cases good
  · simp only [Bool.false_eq_true, if_false] at h ⊢
    simp [BRes.observe, h]
  · simp only [if_true] at h ⊢
    subst h
    rfl

/-- A body with the expected plan reads, for the caller, as: nothing if `!(entryOk && t.valid)`, else the
weight `t.W` and a proposal distributed as `propose fwd t`. -/
theorem buildPass_of_plan (body : List S) (hplan : buildPlan body = some expectedPlan) (fwd : Bool) (t : TTree K)
    (entryOk : Bool) :
    buildPass body fwd t entryOk = some (if entryOk && t.valid then some (t.W, propose fwd t) else none) := by
  obtain ⟨r, hr, hs⟩ := buildRead_expected fwd t entryOk
  unfold buildPass
  rw [hplan]
  simp [hr, observe_of_spec r _ _ _ hs]

end MiciVerif.Skel.BSem
