/-
Helper lemmas for C17 (Welford / Chan / Schubert–Gertz), over any field of characteristic 0.

The closed form all recursions are compared with is `statsOf ps`:
`(n, Σx/n, Σy/n, Σxy − Σx·Σy/n)`; `centered_sum` identifies the last entry with the
centred sum of products `Σ (x − x̄)(y − ȳ)`.
-/
import MiciVerif.Model.Adapters
import Mathlib.Tactic.Ring
import Mathlib.Tactic.FieldSimp
import Mathlib.Tactic.Linarith
import Mathlib.Algebra.BigOperators.Group.List.Basic
import Mathlib.Algebra.Order.Field.Basic
import Mathlib.Data.Nat.Cast.Field
import Mathlib.Algebra.Order.BigOperators.Group.List
import Mathlib.Tactic.Positivity

namespace MiciVerif.Adapters
variable {K : Type} [Field K]

def S1 (ps : List (K × K)) : K := (ps.map Prod.fst).sum
def S2 (ps : List (K × K)) : K := (ps.map Prod.snd).sum
def S12 (ps : List (K × K)) : K := (ps.map (fun p => p.1 * p.2)).sum

@[simp] theorem S1_nil : S1 ([] : List (K × K)) = 0 := rfl
@[simp] theorem S2_nil : S2 ([] : List (K × K)) = 0 := rfl
@[simp] theorem S12_nil : S12 ([] : List (K × K)) = 0 := rfl
theorem S1_append (a b : List (K × K)) : S1 (a ++ b) = S1 a + S1 b := by simp [S1]
theorem S2_append (a b : List (K × K)) : S2 (a ++ b) = S2 a + S2 b := by simp [S2]
theorem S12_append (a b : List (K × K)) : S12 (a ++ b) = S12 a + S12 b := by simp [S12]
theorem S1_cons (p : K × K) (b : List (K × K)) : S1 (p :: b) = p.1 + S1 b := by simp [S1]
theorem S2_cons (p : K × K) (b : List (K × K)) : S2 (p :: b) = p.2 + S2 b := by simp [S2]
theorem S12_cons (p : K × K) (b : List (K × K)) : S12 (p :: b) = p.1 * p.2 + S12 b := by simp [S12]

/-- Batch statistics in closed form (raw sums). -/
def statsOf (ps : List (K × K)) : CState K :=
  ⟨ps.length, S1 ps / (ps.length : K), S2 ps / (ps.length : K),
   S12 ps - S1 ps * S2 ps / (ps.length : K), false⟩

/-- Centred sum of products about arbitrary centres. -/
theorem centered_sum_general (ps : List (K × K)) (a b : K) :
    (ps.map (fun p => (p.1 - a) * (p.2 - b))).sum
      = S12 ps - a * S2 ps - b * S1 ps + (ps.length : K) * a * b := by
  induction ps with
  | nil => simp
  | cons p ps ih =>
    simp only [List.map_cons, List.sum_cons, ih, S1_cons, S2_cons, S12_cons, List.length_cons]
    push_cast; ring

/-- `Σ (x − x̄)(y − ȳ) = Σxy − Σx Σy / n`. -/
theorem centered_sum [CharZero K] (ps : List (K × K)) :
    (ps.map (fun p => (p.1 - S1 ps / (ps.length : K)) * (p.2 - S2 ps / (ps.length : K)))).sum
      = S12 ps - S1 ps * S2 ps / (ps.length : K) := by
  rw [centered_sum_general]
  rcases ps with _ | ⟨p, ps⟩
  · simp
  · have hn : (((p :: ps).length : Nat) : K) ≠ 0 := Nat.cast_ne_zero.mpr (by simp)
    field_simp; ring

/-- One Welford step preserves the invariant `n·μ = Σx`, `n·ν = Σy`, `C = Σxy − μ·Σy`. -/
theorem update_invariant [CharZero K] (s : CState K) (p : K × K) (s1 s2 s12 : K)
    (hA : (s.iter : K) * s.meanA = s1) (hB : (s.iter : K) * s.meanB = s2)
    (hc : s.c = s12 - s.meanA * s2) :
    ((s.update p).iter : K) * (s.update p).meanA = s1 + p.1 ∧
    ((s.update p).iter : K) * (s.update p).meanB = s2 + p.2 ∧
    (s.update p).c = (s12 + p.1 * p.2) - (s.update p).meanA * (s2 + p.2) := by
  have hn : ((s.iter + 1 : Nat) : K) ≠ 0 := Nat.cast_ne_zero.mpr (Nat.succ_ne_zero s.iter)
  subst hA hB
  simp only [CState.update, hc]
  push_cast at hn ⊢
  refine ⟨?_, ?_, ?_⟩ <;> (field_simp; ring)

theorem fold_invariant [CharZero K] (ps : List (K × K)) :
    ∀ (pre : List (K × K)) (s : CState K), s.iter = pre.length →
      (s.iter : K) * s.meanA = S1 pre → (s.iter : K) * s.meanB = S2 pre →
      s.c = S12 pre - s.meanA * S2 pre →
      let s' := ps.foldl CState.update s
      s'.iter = (pre ++ ps).length ∧ (s'.iter : K) * s'.meanA = S1 (pre ++ ps) ∧
      (s'.iter : K) * s'.meanB = S2 (pre ++ ps) ∧
      s'.c = S12 (pre ++ ps) - s'.meanA * S2 (pre ++ ps) ∧ s'.nan = s.nan := by
  induction ps with
  | nil => intro pre s h0 h1 h2 h3; simp [h0, h3]; rw [← h0]; exact ⟨h1, h2⟩
  | cons p ps ih =>
    intro pre s h0 h1 h2 h3
    obtain ⟨u1, u2, u3⟩ := update_invariant s p _ _ _ h1 h2 h3
    have := ih (pre ++ [p]) (s.update p) (by simp [CState.update, h0])
      (by rw [u1, S1_append]; simp [S1]) (by rw [u2, S2_append]; simp [S2])
      (by rw [u3, S12_append, S2_append]; simp [S12, S2])
    simpa [List.append_assoc, CState.update] using this

/-- **Welford fold = batch statistics** (pair version, closed form), for every list. -/
theorem welfordCov_eq_statsOf [CharZero K] (ps : List (K × K)) : welfordCov ps = statsOf ps := by
  obtain ⟨h0, h1, h2, h3, h4⟩ := fold_invariant ps [] (CState.init : CState K) rfl
    (by simp [CState.init]) (by simp [CState.init]) (by simp [CState.init])
  simp only [List.nil_append] at h0 h1 h2 h3
  change (welfordCov ps).iter = _ at h0
  change ((welfordCov ps).iter : K) * (welfordCov ps).meanA = _ at h1
  change ((welfordCov ps).iter : K) * (welfordCov ps).meanB = _ at h2
  change (welfordCov ps).c = S12 ps - (welfordCov ps).meanA * S2 ps at h3
  change (welfordCov ps).nan = false at h4
  rcases ps with _ | ⟨p, ps⟩
  · simp [welfordCov, statsOf, CState.init]
  · have hn : (((p :: ps).length : Nat) : K) ≠ 0 := Nat.cast_ne_zero.mpr (by simp)
    rw [h0] at h1 h2
    have hA : (welfordCov (p :: ps)).meanA = S1 (p :: ps) / ((p :: ps).length : K) := by
      rw [eq_div_iff hn, mul_comm]; exact h1
    have hB : (welfordCov (p :: ps)).meanB = S2 (p :: ps) / ((p :: ps).length : K) := by
      rw [eq_div_iff hn, mul_comm]; exact h2
    cases hw : welfordCov (p :: ps) with
    | mk i a b c f =>
      rw [hw] at h0 h3 h4 hA hB
      simp only at h0 h3 h4 hA hB
      simp only [statsOf, CState.mk.injEq]
      refine ⟨h0, hA, hB, ?_, h4⟩
      rw [h3, hA]; ring

/-- The diagonal adapter's recursion is the pair recursion with both streams equal. -/
theorem welford_toC (xs : List K) :
    (welford xs).toC = welfordCov (xs.map (fun x => (x, x))) := by
  have key : ∀ (xs : List K) (s : WState K),
      (xs.foldl WState.update s).toC = (xs.map (fun x => (x, x))).foldl CState.update s.toC := by
    intro xs
    induction xs with
    | nil => intro s; rfl
    | cons x xs ih =>
      intro s
      simp only [List.foldl_cons, List.map_cons]
      rw [ih]
      rfl
  simpa [welford, welfordCov, WState.toC, WState.init, CState.init] using key xs WState.init

/-- **Chan / Schubert–Gertz step = statistics of the concatenation**, for all `A`, `B`
(the value identity even holds for two empty lists because `0/0 = 0` in a field; the
`nan` flag records that NumPy computes NaN there). -/
theorem mergeStep_statsOf [CharZero K] (A B : List (K × K)) (f : Bool) :
    mergeStep { statsOf A with nan := f } (statsOf B)
      = { statsOf (A ++ B) with nan := f || (A.length + B.length == 0) } := by
  rcases A with _ | ⟨a, A⟩
  · rcases B with _ | ⟨b, B⟩
    · simp [mergeStep, statsOf]
    · have hn : (((b :: B).length : Nat) : K) ≠ 0 := Nat.cast_ne_zero.mpr (by simp)
      simp only [mergeStep, statsOf, List.length_nil, Nat.zero_add, List.nil_append,
        S1_nil, S2_nil, S12_nil, Nat.cast_zero, CState.mk.injEq]
      refine ⟨trivial, ?_, ?_, ?_, by simp⟩ <;> (push_cast; field_simp; try ring)
  · have hA : (((a :: A).length : Nat) : K) ≠ 0 := Nat.cast_ne_zero.mpr (by simp)
    rcases B with _ | ⟨b, B⟩
    · simp only [mergeStep, statsOf, List.length_nil, Nat.add_zero, List.append_nil,
        S1_nil, S2_nil, S12_nil, Nat.cast_zero, CState.mk.injEq]
      refine ⟨trivial, ?_, ?_, ?_, by simp⟩ <;> (push_cast; field_simp; try ring)
    · have hB : (((b :: B).length : Nat) : K) ≠ 0 := Nat.cast_ne_zero.mpr (by simp)
      have hAB : ((((a :: A).length + (b :: B).length : Nat)) : K) ≠ 0 :=
        Nat.cast_ne_zero.mpr (by simp)
      simp only [mergeStep, statsOf, CState.mk.injEq, List.length_append, S1_append, S2_append,
        S12_append]
      refine ⟨trivial, ?_, ?_, ?_, by simp⟩
      · push_cast at hAB ⊢; field_simp
      · push_cast at hAB ⊢; field_simp
      · push_cast at hA hB hAB ⊢; field_simp; ring

/-- NaN flag produced by merging the chains `rest` into an accumulator holding `A`. -/
def nanRest {α : Type} : List α → List (List α) → Bool
  | _, [] => false
  | A, c :: cs => (A.length + c.length == 0) || nanRest (A ++ c) cs

theorem nanRest_eq {α : Type} (A : List α) (rest : List (List α)) :
    nanRest A rest = true ↔ A = [] ∧ rest.head? = some [] := by
  induction rest generalizing A with
  | nil => simp [nanRest]
  | cons c cs ih =>
    simp only [nanRest, Bool.or_eq_true, beq_iff_eq, ih, List.head?_cons, Option.some.injEq]
    constructor
    · rintro (h | ⟨h1, _⟩)
      · have h1 : A.length = 0 := by omega
        have h2 : c.length = 0 := by omega
        exact ⟨List.length_eq_zero_iff.mp h1, List.length_eq_zero_iff.mp h2⟩
      · have h1' := congrArg List.length h1
        simp only [List.length_append, List.length_nil] at h1'
        have hA : A.length = 0 := by omega
        have hc : c.length = 0 := by omega
        exact ⟨List.length_eq_zero_iff.mp hA, List.length_eq_zero_iff.mp hc⟩
    · rintro ⟨rfl, rfl⟩; left; simp

theorem fold_mergeStep_statsOf [CharZero K] (rest : List (List (K × K))) :
    ∀ (A : List (K × K)) (f : Bool),
      (rest.map welfordCov).foldl mergeStep { statsOf A with nan := f }
        = { statsOf (A ++ rest.flatten) with nan := f || nanRest A rest } := by
  induction rest with
  | nil => intro A f; simp [nanRest]
  | cons c cs ih =>
    intro A f
    simp only [List.map_cons, List.foldl_cons, List.flatten_cons, nanRest]
    rw [welfordCov_eq_statsOf, mergeStep_statsOf, ih]
    simp [List.append_assoc, Bool.or_assoc]

/-- `statsOf` only depends on the multiset of data. -/
theorem statsOf_perm {ps qs : List (K × K)} (h : ps.Perm qs) : statsOf ps = statsOf qs := by
  simp only [statsOf, S1, S2, S12, h.length_eq, (h.map Prod.fst).sum_eq, (h.map Prod.snd).sum_eq,
    (h.map (fun p => p.1 * p.2)).sum_eq]

/-! ### The documented (batch) estimators -/

/-- Sample mean `Σx / n`. -/
def bmean (xs : List K) : K := xs.sum / (xs.length : K)
/-- Centred sum of squares `Σ (x − x̄)²`. -/
def bM2 (xs : List K) : K := (xs.map (fun x => (x - bmean xs) ^ 2)).sum
/-- Centred sum of products `Σ (x − x̄)(y − ȳ)`. -/
def bCov (ps : List (K × K)) : K :=
  (ps.map (fun p => (p.1 - bmean (ps.map Prod.fst)) * (p.2 - bmean (ps.map Prod.snd)))).sum

theorem bCov_eq [CharZero K] (ps : List (K × K)) :
    bCov ps = S12 ps - S1 ps * S2 ps / (ps.length : K) := by
  have := centered_sum ps
  simpa [bCov, bmean, S1, S2] using this

theorem bM2_eq_bCov (xs : List K) : bM2 xs = bCov (xs.map (fun x => (x, x))) := by
  simp [bM2, bCov, bmean, List.map_map, Function.comp_def, pow_two]

/-- No `0/0` is executed by the merge loop: not both of the first two chains are empty. -/
def NoNaN {α : Type} : List (List α) → Prop
  | c0 :: c1 :: _ => c0 ≠ [] ∨ c1 ≠ []
  | _ => True

theorem noNaN_iff {α : Type} (c0 : List α) (rest : List (List α)) :
    NoNaN (c0 :: rest) ↔ ¬ (c0 = [] ∧ rest.head? = some []) := by
  rcases rest with _ | ⟨c1, rest⟩
  · simp [NoNaN]
  · simp only [NoNaN, List.head?_cons, Option.some.injEq]
    constructor
    · rintro (h | h) ⟨h0, h1⟩
      · exact h h0
      · exact h h1
    · intro h
      by_cases h0 : c0 = []
      · right; intro h1; exact h ⟨h0, h1⟩
      · left; exact h0

end MiciVerif.Adapters
