/-
C10S — meaning of the extracted loop bodies of `_left_matrix_multiply` / `_right_matrix_multiply`:

* the three product classes (`for matrix in reversed(self.matrices): other = matrix @ other`,
  `for matrix in self.matrices: other = other @ matrix`; extracted as `SExpr.fold`): a fold over the
  tuple of factors, for EVERY non-empty chain of factors with matching inner dimensions (`Chain`);
* the block classes (list comprehensions over `self._blocks`, possibly zipped with the parts of the
  split argument, combined by `np.concatenate` / `sum`): decoded into three independent components
  (`BlockShape`: how the results are combined, on which side the block multiplies, which parts of
  the argument it multiplies), each with its typed meaning for two blocks (n-ary by nesting, as in
  `MExpr`).

`M @ x` / `x @ M` for a matrix object `M` and an array `x` are `M._left_matrix_multiply(x)` /
`M._right_matrix_multiply(x)` (`C10S.matmul_operator_shape`), i.e. the model's `leftMul` / `rightMul`
of the factor / block.  Combinations of the components that are ill-typed for blocks / factors of
different sizes (e.g. `matrix @ other` iterating FORWARD, `np.concatenate` along the wrong axis,
`sum` of blocks of different heights) have no value (`none`), so a source change to such a form
breaks the `…_agrees` theorems of `Props/C10S.lean`.
-/
import MiciVerif.Lemmas.MatrixOpsSyntax
import MiciVerif.Model.Matrices

namespace MiciVerif.MatrixOps
open MiciVerif.Matrices MiciVerif.Matrices.MExpr

variable {K : Type} [Field K]

/-! ### product classes -/

/-- The tuple `self.matrices` of a product object: a non-empty chain of factors with matching inner
dimensions (checked by `MatrixProduct.__init__`). -/
inductive Chain (K : Type) : ℕ → ℕ → Type
  | one {m n : ℕ} (a : MExpr K m n) : Chain K m n
  | cons {l m n : ℕ} (a : MExpr K l m) (r : Chain K m n) : Chain K l n

namespace Chain

/-- the model's (binary, right-nested) product expression of the chain -/
def toExpr (pk : PKind) : {m n : ℕ} → Chain K m n → MExpr K m n
  | _, _, one a => a
  | _, _, cons a r => prod pk a (toExpr pk r)

def length : {m n : ℕ} → Chain K m n → ℕ
  | _, _, one _ => 1
  | _, _, cons _ r => length r + 1

/-- `for M in reversed(factors): acc = step M acc`, starting from `acc = B` -/
def foldRev {p : ℕ} (step : {l m : ℕ} → MExpr K l m → Mat m p K → Mat l p K) :
    {m n : ℕ} → Chain K m n → Mat n p K → Mat m p K
  | _, _, one a, B => step a B
  | _, _, cons a r, B => step a (foldRev step r B)

/-- `for M in factors: acc = step acc M`, starting from `acc = B` -/
def foldFwd {p : ℕ} (step : {l m : ℕ} → Mat p l K → MExpr K l m → Mat p m K) :
    {m n : ℕ} → Mat p m K → Chain K m n → Mat p n K
  | _, _, B, one a => step B a
  | _, _, B, cons a r => foldFwd step (step B a) r

end Chain

/-- What the extracted loop does: on which side the factor multiplies the accumulator and in which
order the factors are visited. -/
structure LoopShape where
  /-- body is `matrix @ other` (`true`) / `other @ matrix` (`false`) -/
  leftStep : Bool
  /-- iterates over `reversed(self.matrices)` (`true`) / `self.matrices` (`false`) -/
  reversed : Bool
  deriving DecidableEq, Repr

/-- Decode a method whose only path returns the accumulator `other` of
`for v in <iter>: other = <body>` started from the argument `other`. -/
def loopShape (m : Method) : Option LoopShape :=
  if m.unknown then Option.none else
  match m.branches with
  | [b] =>
    if b.cond == .tt then
      match b.ret with
      | .fold body acc v iter init =>
        if acc == "other" && init == .var "other" && v != acc then
          let side : Option Bool :=
            if body == .matmul (.var v) (.var acc) then some true
            else if body == .matmul (.var acc) (.var v) then some false else Option.none
          let rev : Option Bool :=
            if iter == .call "reversed" (.cons (.attr .self "matrices") .nil) then some true
            else if iter == .attr .self "matrices" then some false else Option.none
          match side, rev with
          | some s, some r => some ⟨s, r⟩
          | _, _ => Option.none
        else Option.none
      | _ => Option.none
    else Option.none
  | _ => Option.none

/-- Value of the extracted `_left_matrix_multiply` loop on the factor chain `c` and the array `B`.
`matrix @ other` visiting the factors in REVERSED order is the only well-typed combination for a chain
`l×m₁, m₁×m₂, …, mₖ×n` and `B : n×p`. -/
def evalLeftLoop {l n p : ℕ} (m : Option Method) (c : Chain K l n) (B : Mat n p K) : Option (Mat l p K) :=
  match m.bind loopShape with
  | some ⟨true, true⟩ => some (c.foldRev (fun M X => leftMul M X) B)
  | _ => Option.none

/-- Value of the extracted `_right_matrix_multiply` loop: `other @ matrix` visiting the factors in
FORWARD order. -/
def evalRightLoop {l n p : ℕ} (m : Option Method) (B : Mat p l K) (c : Chain K l n) : Option (Mat p n K) :=
  match m.bind loopShape with
  | some ⟨false, false⟩ => some (Chain.foldFwd (fun X M => rightMul X M) B c)
  | _ => Option.none

theorem Chain.foldRev_leftMul (pk : PKind) {l n p : ℕ} (c : Chain K l n) (B : Mat n p K) :
    c.foldRev (fun M X => leftMul M X) B = leftMul (c.toExpr pk) B := by
  induction c with
  | one a => rfl
  | cons a r ih => simp only [Chain.foldRev, Chain.toExpr, leftMul, ih]

theorem Chain.foldFwd_rightMul (pk : PKind) {l n p : ℕ} (c : Chain K l n) (B : Mat p l K) :
    Chain.foldFwd (fun X M => rightMul X M) B c = rightMul B (c.toExpr pk) := by
  induction c with
  | one a => rfl
  | cons a r ih => simp only [Chain.foldFwd, Chain.toExpr, rightMul, ih]

/-! ### block classes -/

/-- how the per-block results are combined -/
inductive Comb | cat0 | cat1 | sum
  deriving DecidableEq, Repr
/-- what each block multiplies: part `i` of `other` split along axis 0 / axis -1, or all of `other` -/
inductive Parts | split0 | split1 | whole
  deriving DecidableEq, Repr

structure BlockShape where
  comb : Comb
  /-- `block @ x` (`true`) / `x @ block` (`false`) -/
  left : Bool
  parts : Parts
  deriving DecidableEq, Repr

/-- axis literal `0` (`false`) / `-1` (`true`) -/
def axisOf : SExpr → Option Bool
  | .num 0 => some false
  | .neg (.num 1) => some true
  | _ => Option.none

/-- `self._split(other, axis=a)` / `np.split(other, self._splits, axis=a)` -/
def splitAxis (e : SExpr) : Option Bool :=
  match e with
  | .mcall o meth (.cons x (.kw k ax .nil)) =>
      if o == .self && meth == "_split" && x == .var "other" && k == "axis" then axisOf ax else Option.none
  | .call fn (.cons x (.cons s (.kw k ax .nil))) =>
      if fn == "np.split" && x == .var "other" && s == .attr .self "_splits" && k == "axis" then axisOf ax
      else Option.none
  | _ => Option.none

/-- the comprehension `[block @ part for block, part in zip(self._blocks, <split>, strict=True)]` /
`[block @ other for block in self._blocks]` (or with the operands swapped) -/
def genShape (g : SExpr) : Option (Bool × Parts) :=
  match g with
  | .gen body v iter =>
    if v == "block,part" then
      match iter with
      | .call fn (.cons bl (.cons sp (.kw k st .nil))) =>
        if fn == "zip" && bl == .attr .self "_blocks" && k == "strict" && st == .tt then
          match splitAxis sp with
          | some ax =>
            let P : Parts := if ax then .split1 else .split0
            if body == .matmul (.var "block") (.var "part") then some (true, P)
            else if body == .matmul (.var "part") (.var "block") then some (false, P)
            else Option.none
          | Option.none => Option.none
        else Option.none
      | _ => Option.none
    else if v == "block" && iter == .attr .self "_blocks" then
      if body == .matmul (.var "block") (.var "other") then some (true, .whole)
      else if body == .matmul (.var "other") (.var "block") then some (false, .whole)
      else Option.none
    else Option.none
  | _ => Option.none

def blockShapeOf (e : SExpr) : Option BlockShape :=
  match e with
  | .call fn (.cons (.call l (.cons g .nil)) rest) =>
    if l == "list" then
      if fn == "np.concatenate" then
        match rest with
        | .kw k ax .nil =>
          if k == "axis" then
            match axisOf ax, genShape g with
            | some c, some (s, P) => some ⟨if c then .cat1 else .cat0, s, P⟩
            | _, _ => Option.none
          else Option.none
        | _ => Option.none
      else if fn == "sum" && rest == .nil then
        (genShape g).map fun (s, P) => ⟨.sum, s, P⟩
      else Option.none
    else Option.none
  | _ => Option.none

/-- The shape of a method all of whose paths but one raise (dimension guards). -/
def blockShape (m : Option Method) : Option BlockShape :=
  match m with
  | some x =>
    if x.unknown then Option.none else
    match x.branches.filter fun b => b.ret != .raise with
    | [b] => blockShapeOf b.ret
    | _ => Option.none
  | Option.none => Option.none

section typed
variable {m n p q : ℕ}

def rowParts (P : Parts) (B : Mat (m + n) p K) : Option (Mat m p K × Mat n p K) :=
  match P with
  | .split0 => some (topRows B, botRows B)
  | _ => Option.none

def colParts (P : Parts) (B : Mat p (m + n) K) : Option (Mat p m K × Mat p n K) :=
  match P with
  | .split1 => some (leftCols B, rightCols B)
  | _ => Option.none

def sameParts (P : Parts) (B : Mat q p K) : Option (Mat q p K × Mat q p K) :=
  match P with
  | .whole => some (B, B)
  | _ => Option.none

def catRows (c : Comb) (X : Mat m p K) (Y : Mat n p K) : Option (Mat (m + n) p K) :=
  match c with
  | .cat0 => some (bcol X Y)
  | _ => Option.none

def catCols (c : Comb) (X : Mat p m K) (Y : Mat p n K) : Option (Mat p (m + n) K) :=
  match c with
  | .cat1 => some (brow X Y)
  | _ => Option.none

def addUp (c : Comb) (X Y : Mat m p K) : Option (Mat m p K) :=
  match c with
  | .sum => some (force (X + Y))
  | _ => Option.none

end typed

/-- `SquareBlockDiagonalMatrix` (and subclasses) `._left_matrix_multiply`, two blocks -/
def evalDiagLeft {m n p : ℕ} (s : Option BlockShape) (a : MExpr K m m) (b : MExpr K n n) (B : Mat (m + n) p K) :
    Option (Mat (m + n) p K) :=
  match s with
  | some ⟨c, true, P⟩ => (rowParts P B).bind fun (X, Y) => catRows c (leftMul a X) (leftMul b Y)
  | _ => Option.none

def evalDiagRight {m n p : ℕ} (s : Option BlockShape) (B : Mat p (m + n) K) (a : MExpr K m m) (b : MExpr K n n) :
    Option (Mat p (m + n) K) :=
  match s with
  | some ⟨c, false, P⟩ => (colParts P B).bind fun (X, Y) => catCols c (rightMul X a) (rightMul Y b)
  | _ => Option.none

/-- `BlockRowMatrix`: blocks `m×n`, `m×p` side by side -/
def evalRowLeft {m n p q : ℕ} (s : Option BlockShape) (a : MExpr K m n) (b : MExpr K m p) (B : Mat (n + p) q K) :
    Option (Mat m q K) :=
  match s with
  | some ⟨c, true, P⟩ => (rowParts P B).bind fun (X, Y) => addUp c (leftMul a X) (leftMul b Y)
  | _ => Option.none

def evalRowRight {m n p q : ℕ} (s : Option BlockShape) (B : Mat q m K) (a : MExpr K m n) (b : MExpr K m p) :
    Option (Mat q (n + p) K) :=
  match s with
  | some ⟨c, false, P⟩ => (sameParts P B).bind fun (X, Y) => catCols c (rightMul X a) (rightMul Y b)
  | _ => Option.none

/-- `BlockColumnMatrix`: blocks `m×n`, `p×n` on top of each other -/
def evalColLeft {m n p q : ℕ} (s : Option BlockShape) (a : MExpr K m n) (b : MExpr K p n) (B : Mat n q K) :
    Option (Mat (m + p) q K) :=
  match s with
  | some ⟨c, true, P⟩ => (sameParts P B).bind fun (X, Y) => catRows c (leftMul a X) (leftMul b Y)
  | _ => Option.none

def evalColRight {m n p q : ℕ} (s : Option BlockShape) (B : Mat q (m + p) K) (a : MExpr K m n) (b : MExpr K p n) :
    Option (Mat q n K) :=
  match s with
  | some ⟨c, false, P⟩ => (colParts P B).bind fun (X, Y) => addUp c (rightMul X a) (rightMul Y b)
  | _ => Option.none

end MiciVerif.MatrixOps
