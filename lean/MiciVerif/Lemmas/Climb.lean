/- Mass-flow lemmas for the dynamic transition on a fixed trajectory tree. -/
import MiciVerif.Lemmas.Tree

namespace MiciVerif.Transitions
open Dist MiciVerif.Transitions.TTree

variable {K : Type} [Field K] [LinearOrder K] [IsStrictOrderedRing K]

/-- the part of a test function that looks only at `top` results -/
def topPart (h : Nat → K) : Res → K
  | .top c => h c
  | .stopped _ => 0

omit [IsStrictOrderedRing K] in
theorem stepUp_expect (cur sib : TTree K) (isLeft e : Bool) (c : Nat) (φ : Res → K) :
    expect (stepUp cur sib isLeft e c) φ =
      if cur.termFlag || !(e && sib.valid) then φ (.stopped (if isLeft then c else c + sib.size))
      else (1 - ratio sib.W cur.W) * φ (.top (if isLeft then c else c + sib.size)) +
        ratio sib.W cur.W *
          expect (propose isLeft sib) (fun k => φ (.top (if isLeft then k + cur.size else k))) := by
  unfold stepUp
  by_cases h1 : cur.termFlag = true
  · simp [h1]
  · by_cases h2 : (e && sib.valid) = true
    · simp only [h1, h2, Bool.false_eq_true, if_false, Bool.not_true, Bool.or_false,
        expect_bind, expect_bernoulli, if_true, expect_map, expect_pure]
      ring
    · have h2' : (e && sib.valid) = false := by simpa using h2
      simp [h1, h2']

/-- Mass arriving at the top of `t`:
`Σ_i w_i · E[top-part of climb t i] = [t.good] · Σ_c w_c g(c)`. -/
theorem climb_top (t : TTree K) (hn : t.Nonneg) (hp : t.PosOk) :
    ∀ g : Nat → K, t.wsum (fun i => expect (climb t i) (topPart g)) =
      if t.good then t.wsum g else 0 := by
  induction t with
  | leaf w ok =>
    intro g
    simp only [wsum, climb, expect_pure, topPart, good]
    by_cases hok : ok = true
    · simp [hok]
    · have hw : w = 0 := by
        have h1 : 0 ≤ w := hn
        rcases h1.eq_or_lt with h | h
        · exact h.symm
        · exact absurd (hp h) hok
      simp [hok, hw]
  | node l r e τ ihl ihr =>
    intro g
    -- unfold the two halves
    have hL : l.wsum (fun i => expect (climb (node l r e τ) i) (topPart g)) =
        l.wsum (fun i => expect (climb l i)
          (topPart (fun c => expect (stepUp l r true e c) (topPart g)))) := by
      apply wsum_congr
      intro i hi
      simp only [climb, hi, if_true, expect_bind]
      apply expect_congr
      intro res
      cases res <;> simp [topPart]
    have hR : r.wsum (fun k => expect (climb (node l r e τ) (k + l.size)) (topPart g)) =
        r.wsum (fun i => expect (climb r i)
          (topPart (fun c => expect (stepUp r l false e c) (topPart g)))) := by
      apply wsum_congr
      intro i _
      have hnot : ¬ (i + l.size < l.size) := by omega
      simp only [climb, hnot, if_false, Nat.add_sub_cancel, expect_bind]
      apply expect_congr
      intro res
      cases res <;> simp [topPart]
    simp only [wsum]
    rw [hL, hR, ihl hn.1 hp.1, ihr hn.2 hp.2]
    have mm := merge_mass l r hn.1 hn.2 g
    rw [good_node]
    simp only [stepUp_expect, topPart, valid_eq l, valid_eq r, if_true, Bool.false_eq_true,
      if_false]
    rcases hgl : l.good with _ | _ <;> rcases hgr : r.good with _ | _ <;>
      rcases htl : l.termFlag with _ | _ <;> rcases htr : r.termFlag with _ | _ <;>
      rcases e with _ | _ <;> simp [wsum_zero]
    simpa using mm

/-- Total mass: `Σ_i w_i · E[g(final state)] = Σ_c w_c g(c)`. -/
theorem climb_any (t : TTree K) (hn : t.Nonneg) (hp : t.PosOk) :
    ∀ g : Nat → K, t.wsum (fun i => expect (climb t i) (fun res => g res.val)) = t.wsum g := by
  induction t with
  | leaf w ok =>
    intro g
    simp [wsum, climb, Res.val]
  | node l r e τ ihl ihr =>
    intro g
    have mm := merge_mass l r hn.1 hn.2 g
    have tL := climb_top l hn.1 hp.1
    have tR := climb_top r hn.2 hp.2
    -- left half
    have hL : l.wsum (fun i => expect (climb (node l r e τ) i) (fun res => g res.val)) =
        l.wsum (fun i => expect (climb l i) (fun res => g res.val)) +
        l.wsum (fun i => expect (climb l i) (topPart (fun c =>
          expect (stepUp l r true e c) (fun res => g res.val) - g c))) := by
      rw [← wsum_add]
      apply wsum_congr
      intro i hi
      simp only [climb, hi, if_true, expect_bind]
      rw [← expect_add]
      apply expect_congr
      intro res
      cases res <;> simp [topPart, Res.val]
    have hR : r.wsum (fun k => expect (climb (node l r e τ) (k + l.size)) (fun res => g res.val)) =
        r.wsum (fun i => expect (climb r i) (fun res => g (res.val + l.size))) +
        r.wsum (fun i => expect (climb r i) (topPart (fun c =>
          expect (stepUp r l false e c) (fun res => g res.val) - g (c + l.size)))) := by
      rw [← wsum_add]
      apply wsum_congr
      intro i _
      have hnot : ¬ (i + l.size < l.size) := by omega
      simp only [climb, hnot, if_false, Nat.add_sub_cancel, expect_bind]
      rw [← expect_add]
      apply expect_congr
      intro res
      cases res <;> simp [topPart, Res.val]
    simp only [wsum]
    rw [hL, hR, ihl hn.1 hp.1 g, ihr hn.2 hp.2 (fun k => g (k + l.size)), tL, tR]
    simp only [stepUp_expect, Res.val, valid_eq l, valid_eq r, if_true, Bool.false_eq_true,
      if_false]
    rcases hgl : l.good with _ | _ <;> rcases hgr : r.good with _ | _ <;>
      rcases htl : l.termFlag with _ | _ <;> rcases htr : r.termFlag with _ | _ <;>
      rcases e with _ | _ <;> simp [wsum_zero]
    -- the only remaining case: both halves valid and joined
    have mm' : l.wsum (fun c => (1 - ratio r.W l.W) * g c +
        ratio r.W l.W * expect (propose true r) (fun k => g (k + l.size)) - g c) +
      r.wsum (fun c => (1 - ratio l.W r.W) * g (c + l.size) +
        ratio l.W r.W * expect (propose false l) g - g (c + l.size)) = 0 := by
      rw [wsum_sub, wsum_sub]; linarith
    linarith [mm']

end MiciVerif.Transitions
