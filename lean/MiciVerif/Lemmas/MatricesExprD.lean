/-
C10 model: structural-induction lemmas, part D (`diagonal`, determinant behind `log_abs_det`).
-/
import MiciVerif.Lemmas.MatricesExprC
import Mathlib.LinearAlgebra.Matrix.SchurComplement

set_option linter.unusedSectionVars false
set_option linter.unusedVariables false
set_option linter.unusedSimpArgs false

namespace MiciVerif.Matrices
open Matrix
variable {K : Type} [Field K]

@[simp] theorem diagOf_square {n : ℕ} (M : Mat n n K) : diagOf M = fun i => M i i := by
  funext i; simp [diagOf]

@[simp] theorem detOf_square {n : ℕ} (M : Mat n n K) : detOf M = M.det := by
  simp [detOf]

theorem orth_det_sq {n : ℕ} {Q : Mat n n K} (h : Q * Qᵀ = 1) : Q.det * Q.det = 1 := by
  have := congrArg Matrix.det h
  rwa [Matrix.det_mul, Matrix.det_transpose, Matrix.det_one] at this

theorem det_eig {n : ℕ} {Q : Mat n n K} (ev : Fin n → K) (h : Q * Qᵀ = 1) :
    (Q * Matrix.diagonal ev * Qᵀ).det = ∏ i, ev i := by
  rw [Matrix.det_mul, Matrix.det_mul, Matrix.det_transpose, Matrix.det_diagonal]
  have := orth_det_sq h
  calc Q.det * (∏ i, ev i) * Q.det = (Q.det * Q.det) * ∏ i, ev i := by ring
    _ = ∏ i, ev i := by rw [this, one_mul]

theorem sgn_pow_sq (s : Sgn) (n : ℕ) : ((s.val : K) ^ n) ^ 2 = 1 := by
  rw [← pow_mul, mul_comm, pow_mul]
  cases s <;> simp [Sgn.val]

namespace MExpr

theorem diagonal_eq {m n : ℕ} (e : MExpr K m n) (h : WF e) : diagonal e = diagOf (denote e) := by
  induction e with
  | identity n => funext i; simp [diagonal, denote]
  | scaledId n p c => funext i; simp [diagonal, denote]
  | diag p d => funext i; simp [diagonal, denote]
  | tri f => simp [diagonal, denote, TriF.diagonal_eq h]; rfl
  | triFact pd s f => rfl
  | denseDef pd s A f => rfl
  | lu inverse A X => rfl
  | denseSym A Q ev => rfl
  | orth Q => rfl
  | scaledOrth c Q => funext i; simp [diagonal, denote]
  | eigSym pd Q ev => rfl
  | rect A => rfl
  | blockDiag k a b iha ihb =>
    simp only [diagonal, denote, iha h.1, ihb h.2.1, diagOf_square]
    exact (diag_bdiag (denote a) (denote b)).symm
  | blockRow a b iha ihb => rfl
  | blockCol a b iha ihb => rfl
  | prod pk a b iha ihb => rfl
  | lowRank kind s U V S Kin C ihU ihV ihS ihK ihC =>
    obtain ⟨hU, hV, hS, hK, hC, _⟩ := h
    funext i
    simp only [diagonal, denote, force_eq, ihS hS, diagOf_square, rightMul_eq, denote_T V hV,
      Matrix.add_apply, Matrix.smul_apply, smul_eq_mul, Matrix.transpose_apply]
    congr 2

theorem sdet_sq {m n : ℕ} (e : MExpr K m n) (h : WF e) (hd : HasDet e) :
    sdet e ^ 2 = detOf (denote e) ^ 2 := by
  induction e with
  | identity n => simp [sdet, denote]
  | scaledId n p c => simp [sdet, denote, Matrix.det_smul]
  | diag p d => simp [sdet, denote]
  | tri f => simp [sdet, denote, TriF.sdet_eq h]
  | triFact pd s f =>
    have hf : f.WF := h
    simp only [sdet, denote, force_eq, detOf_square, Matrix.det_smul, Matrix.det_mul,
      Matrix.det_transpose, Fintype.card_fin, TriF.sdet_eq hf, mul_pow, sgn_pow_sq]
    ring
  | denseDef pd s A f =>
    obtain ⟨hf, hA⟩ := h
    simp only [sdet, denote, detOf_square, hA, Matrix.det_smul, Matrix.det_mul,
      Matrix.det_transpose, Fintype.card_fin, TriF.sdet_eq hf, mul_pow, sgn_pow_sq]
    ring
  | lu inverse A X =>
    have hAX : A * X = 1 := h
    have hdet : A.det * X.det = 1 := by rw [← Matrix.det_mul, hAX, Matrix.det_one]
    cases inverse
    · simp [sdet, denote]
    · simp only [sdet, denote, if_true, detOf_square]
      rw [(eq_inv_of_mul_eq_one_right hdet)]
  | denseSym A Q ev =>
    obtain ⟨hQ, hA, hev⟩ := h
    simp only [sdet, denote, detOf_square, hA, det_eig ev hQ]
  | orth Q =>
    have := orth_det_sq (h : Q * Qᵀ = 1)
    simp only [sdet, denote, detOf_square, pow_two, this]; simp
  | scaledOrth c Q =>
    have := orth_det_sq h.2
    simp only [sdet, denote, detOf_square, Matrix.det_smul, Fintype.card_fin, mul_pow]
    rw [pow_two Q.det, this, mul_one]
  | eigSym pd Q ev =>
    simp only [sdet, denote, force_eq, detOf_square, det_eig ev h.1]
  | rect A => exact absurd hd (by simp [HasDet])
  | blockDiag k a b iha ihb =>
    obtain ⟨ha, hb, _⟩ := h
    have ea := iha ha hd.1
    have eb := ihb hb hd.2
    simp only [detOf_square] at ea eb
    simp only [sdet, denote, detOf_square, det_bdiag, mul_pow, ea, eb]
  | blockRow a b iha ihb => exact absurd hd (by simp [HasDet])
  | blockCol a b iha ihb => exact absurd hd (by simp [HasDet])
  | prod pk a b iha ihb =>
    obtain ⟨ha, hb, hp⟩ := h
    obtain ⟨hk, da, db⟩ := hd
    obtain ⟨h1, h2⟩ := hp hk
    subst h1; subst h2
    have ea := iha ha da
    have eb := ihb hb db
    simp only [detOf_square] at ea eb
    simp only [sdet, denote, force_eq, detOf_square, Matrix.det_mul, mul_pow, ea, eb]
  | lowRank kind s U V S Kin C ihU ihV ihS ihK ihC =>
    obtain ⟨hU, hV, hS, hK, hC, iS, iK, iC, hcap, hsym⟩ := h
    obtain ⟨dS, dK, dC⟩ := hd
    have eS := ihS hS dS
    have eK := ihK hK dK
    have eC := ihC hC dC
    simp only [detOf_square] at eS eK eC
    have gS := good S hS iS
    have gK := good Kin hK iK
    simp only [sdet, denote, force_eq, detOf_square,
      det_lowRank_signed _ _ _ _ _ _ _ _ gS.right gK.right hcap, mul_pow, eS, eK, eC]

end MExpr
end MiciVerif.Matrices
