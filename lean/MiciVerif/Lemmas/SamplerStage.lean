/-
Stage- and run-level lemmas about the sequential sampler model.
-/
import MiciVerif.Lemmas.SamplerChain

namespace MiciVerif.Sampler
open MiciVerif.Stagers

variable {S V A P : Type}

theorem snoc_ind {α : Type} {motive : List α → Prop} (nil : motive [])
    (snoc : ∀ l a, motive l → motive (l ++ [a])) (l : List α) : motive l := by
  have : ∀ r : List α, motive r.reverse := by
    intro r
    induction r with
    | nil => exact nil
    | cons a r ih => rw [List.reverse_cons]; exact snoc _ _ ih
  simpa using this l.reverse

/-! ### one chain -/

/-- the `Run` a chain starts from (after the adapters' `initialize`) -/
def startRun (K : Kernel S V A P) (st : Stage) (p : P) (ch : Chain S V) : Run S V A P :=
  let ap := if st.kind = .main then (K.a0, p) else K.init st.kind ch.state p
  ⟨⟨ch.state, ch.rng, ap.1, ap.2, ch.log⟩, ch.mem, false⟩

/-- `_sample_chain` applied to a parent chain record -/
def chainRes (K : Kernel S V A P) (st : Stage) (offset : Nat) (ci : Option (Nat × Nat)) (p : P)
    (ch : Chain S V) : Run S V A P :=
  sampleChain K st offset ci p ch.state ch.rng ch.log ch.mem

theorem chainRes_none (K : Kernel S V A P) (st : Stage) (offset : Nat) (p : P) (ch : Chain S V) :
    chainRes K st offset none p ch =
      foldOps st offset (rowsFrom (opsOf K st) 0 st.n) (startRun K st p ch) := by
  unfold chainRes sampleChain startRun
  exact runIters_no_intr K st offset none 0 st.n _ rfl (by intro _ _ h; cases h)

theorem chainRes_intr (K : Kernel S V A P) (st : Stage) (offset i0 j0 : Nat) (p : P)
    (ch : Chain S V) (hi : i0 < st.n) (hj : j0 < (opsOf K st).length) :
    chainRes K st offset (some (i0, j0)) p ch =
      { foldOps st offset (prefixOps (opsOf K st) i0 j0) (startRun K st p ch) with halted := true } := by
  unfold chainRes sampleChain startRun
  exact runIters_intr K st offset i0 j0 st.n _ rfl hi hj

/-- shape of the arrays is never changed by a chain run, interrupted or not -/
theorem stepOp_shape (st : Stage) (offset : Nat) (intr : Option (Nat × Nat)) (i j : Nat)
    (op : Op S V A P) (x : Run S V A P) (n : Nat) (h : AllLen x.mem n) :
    AllLen (stepOp st offset intr i j op x).mem n ∧
      (stepOp st offset intr i j op x).mem.length = x.mem.length := by
  unfold stepOp
  split
  · exact ⟨h, rfl⟩
  · split
    · exact ⟨h, rfl⟩
    · exact ⟨allLen_execOp _ _ _ _ _ _ _ h, length_mem_execOp _ _ _ _ _ _⟩

theorem iterOps_shape (st : Stage) (offset : Nat) (intr : Option (Nat × Nat)) (i j : Nat)
    (ops : List (Op S V A P)) (x : Run S V A P) (n : Nat) (h : AllLen x.mem n) :
    AllLen (iterOps st offset intr i j ops x).mem n ∧
      (iterOps st offset intr i j ops x).mem.length = x.mem.length := by
  induction ops generalizing j x with
  | nil => exact ⟨h, rfl⟩
  | cons op ops ih =>
    simp only [iterOps]
    have hs := stepOp_shape st offset intr i j op x n h
    have := ih (j + 1) _ hs.1
    exact ⟨this.1, this.2.trans hs.2⟩

theorem runIters_shape (K : Kernel S V A P) (st : Stage) (offset : Nat) (intr : Option (Nat × Nat))
    (start k : Nat) (x : Run S V A P) (n : Nat) (h : AllLen x.mem n) :
    AllLen (runIters K st offset intr start k x).mem n ∧
      (runIters K st offset intr start k x).mem.length = x.mem.length := by
  induction k generalizing start x with
  | zero => exact ⟨h, rfl⟩
  | succ k ih =>
    simp only [runIters]
    have hs := iterOps_shape st offset intr start 0 (opsOf K st) x n h
    have := ih (start + 1) _ hs.1
    exact ⟨this.1, this.2.trans hs.2⟩

theorem chainRes_shape (K : Kernel S V A P) (st : Stage) (offset : Nat) (ci : Option (Nat × Nat))
    (p : P) (ch : Chain S V) (n : Nat) (h : AllLen ch.mem n) :
    AllLen (chainRes K st offset ci p ch).mem n ∧
      (chainRes K st offset ci p ch).mem.length = ch.mem.length := by
  unfold chainRes sampleChain
  exact runIters_shape K st offset ci 0 st.n _ n h


/-! ### cells written by one chain run -/

theorem mem_prefixOps {ops : List (Op S V A P)} {i0 j0 : Nat} {t : Triple S V A P}
    (h : t ∈ prefixOps ops i0 j0) : t.1 < i0 ∨ (t.1 = i0 ∧ t.2.1 < j0) := by
  simp only [prefixOps, List.mem_append] at h
  rcases h with h | h
  · have := mem_rowsFrom h; omega
  · have := mem_rowFrom h
    simp only [List.length_take] at this
    omega

theorem mem_suffixOps {ops : List (Op S V A P)} {n i0 j0 : Nat} {t : Triple S V A P}
    (h : t ∈ suffixOps ops n i0 j0) : (t.1 = i0 ∧ j0 ≤ t.2.1) ∨ i0 < t.1 := by
  simp only [suffixOps, List.mem_append] at h
  rcases h with h | h
  · have := mem_rowFrom h; omega
  · have := mem_rowsFrom h; omega

/-- (iteration `i`, operation `j`) completes before operation `j0` of iteration `i0` starts -/
def Before (i0 j0 i j : Nat) : Prop := i < i0 ∨ (i = i0 ∧ j < j0)

instance (i0 j0 i j : Nat) : Decidable (Before i0 j0 i j) := by unfold Before; infer_instance

/-- Row `i + offset` of array `j` after an uninterrupted chain run holds the value operation `j`
computed in iteration `i` from the variables left by all operations before it. -/
theorem chainRes_cell_value (K : Kernel S V A P) (st : Stage) (offset : Nat) (p : P)
    (ch : Chain S V) (i j : Nat) (op : Op S V A P) (hi : i < st.n)
    (hop : (opsOf K st)[j]? = some op) (hg : gate st op = true)
    (hin : (cell ch.mem j (i + offset)).isSome) :
    cell (chainRes K st offset none p ch).mem j (i + offset) =
      some (some (opVal st op
        (foldOps st offset (prefixOps (opsOf K st) i j) (startRun K st p ch)).ctx)) := by
  rw [chainRes_none]
  have hjlt : j < (opsOf K st).length := by
    rcases List.getElem?_eq_some_iff.mp hop with ⟨h, _⟩; exact h
  rw [rows_split (opsOf K st) st.n i j hi (Nat.le_of_lt hjlt)]
  have hdrop : (opsOf K st).drop j = op :: (opsOf K st).drop (j + 1) := by
    rw [List.drop_eq_getElem_cons hjlt]
    congr 1
    rcases List.getElem?_eq_some_iff.mp hop with ⟨_, h⟩; exact h
  simp only [suffixOps, hdrop, rowFrom, List.cons_append]
  have := cell_foldOps_value st offset (prefixOps (opsOf K st) i j)
    (rowFrom i (j + 1) ((opsOf K st).drop (j + 1)) ++ rowsFrom (opsOf K st) (i + 1) (st.n - i - 1))
    (i, j, op) (startRun K st p ch) hg hin
    (by
      intro t' ht'
      simp only [List.mem_append] at ht'
      rcases ht' with h | h
      · have := mem_rowFrom h; simp only; omega
      · have := mem_rowsFrom h; simp only; omega)
  exact this

theorem cell_stepOp_frame (st : Stage) (offset : Nat) (intr : Option (Nat × Nat)) (i j : Nat)
    (op : Op S V A P) (x : Run S V A P) (j' r' : Nat) (h : r' ≠ i + offset) :
    cell (stepOp st offset intr i j op x).mem j' r' = cell x.mem j' r' := by
  unfold stepOp
  split
  · rfl
  · split
    · rfl
    · rw [cell_execOp]
      have : ¬ (j = j' ∧ i + offset = r' ∧ gate st op = true) := fun hh => h hh.2.1.symm
      simp [this]

theorem cell_iterOps_frame (st : Stage) (offset : Nat) (intr : Option (Nat × Nat)) (i j : Nat)
    (ops : List (Op S V A P)) (x : Run S V A P) (j' r' : Nat) (h : r' ≠ i + offset) :
    cell (iterOps st offset intr i j ops x).mem j' r' = cell x.mem j' r' := by
  induction ops generalizing j x with
  | nil => rfl
  | cons op ops ih =>
    simp only [iterOps]
    rw [ih, cell_stepOp_frame _ _ _ _ _ _ _ _ _ h]

theorem cell_runIters_frame (K : Kernel S V A P) (st : Stage) (offset : Nat)
    (intr : Option (Nat × Nat)) (start k : Nat) (x : Run S V A P) (j' r' : Nat)
    (h : r' < start + offset ∨ start + k + offset ≤ r') :
    cell (runIters K st offset intr start k x).mem j' r' = cell x.mem j' r' := by
  induction k generalizing start x with
  | zero => rfl
  | succ k ih =>
    simp only [runIters]
    rw [ih _ _ (by omega), cell_iterOps_frame _ _ _ _ _ _ _ _ _ (by omega)]

/-- A chain run (interrupted or not) of a stage with `n` iterations at offset `offset` only
touches rows `offset … offset + n - 1`. -/
theorem chainRes_cell_frame (K : Kernel S V A P) (st : Stage) (offset : Nat)
    (ci : Option (Nat × Nat)) (p : P) (ch : Chain S V) (j r : Nat)
    (h : r < offset ∨ offset + st.n ≤ r) :
    cell (chainRes K st offset ci p ch).mem j r = cell ch.mem j r := by
  unfold chainRes sampleChain
  rw [cell_runIters_frame K st offset ci 0 st.n _ j r (by omega)]

/-- Interrupted chain run: cells of completed operations are those of the uninterrupted run. -/
theorem chainRes_intr_done (K : Kernel S V A P) (st : Stage) (offset i0 j0 : Nat) (p : P)
    (ch : Chain S V) (hi : i0 < st.n) (hj : j0 < (opsOf K st).length) (i j : Nat)
    (hb : Before i0 j0 i j) :
    cell (chainRes K st offset (some (i0, j0)) p ch).mem j (i + offset) =
      cell (chainRes K st offset none p ch).mem j (i + offset) := by
  rw [chainRes_intr K st offset i0 j0 p ch hi hj, chainRes_none,
    rows_split (opsOf K st) st.n i0 j0 hi (Nat.le_of_lt hj), foldOps_append]
  symm
  apply cell_foldOps_frame
  intro t ht
  have := mem_suffixOps ht
  unfold Before at hb
  omega

/-- Interrupted chain run: every other cell is untouched (still the fill value if it was). -/
theorem chainRes_intr_rest (K : Kernel S V A P) (st : Stage) (offset i0 j0 : Nat) (p : P)
    (ch : Chain S V) (hi : i0 < st.n) (hj : j0 < (opsOf K st).length) (j r : Nat)
    (hb : ¬ ∃ i, r = i + offset ∧ Before i0 j0 i j) :
    cell (chainRes K st offset (some (i0, j0)) p ch).mem j r = cell ch.mem j r := by
  rw [chainRes_intr K st offset i0 j0 p ch hi hj]
  show cell (foldOps st offset (prefixOps (opsOf K st) i0 j0) (startRun K st p ch)).mem j r = _
  rw [cell_foldOps_frame]
  · rfl
  · intro t ht hh
    have := mem_prefixOps ht
    exact hb ⟨t.1, hh.2.symm, by unfold Before; omega⟩

/-- Interrupted chain run: the returned chain-local variables (state, adapter state, …) are
those reached by the completed operations; the loop is flagged interrupted. -/
theorem chainRes_intr_ctx (K : Kernel S V A P) (st : Stage) (offset i0 j0 : Nat) (p : P)
    (ch : Chain S V) (hi : i0 < st.n) (hj : j0 < (opsOf K st).length) :
    (chainRes K st offset (some (i0, j0)) p ch).ctx =
      (foldOps st offset (prefixOps (opsOf K st) i0 j0) (startRun K st p ch)).ctx ∧
    (chainRes K st offset (some (i0, j0)) p ch).halted = true := by
  rw [chainRes_intr K st offset i0 j0 p ch hi hj]
  exact ⟨rfl, rfl⟩

/-! ### the sequential stage -/

def memOf (chains : List (Chain S V)) (c : Nat) : Mem V := ((chains[c]?).map (·.mem)).getD []

theorem stageSeq_snoc (K : Kernel S V A P) (st : Stage) (offset : Nat)
    (intr : Option (Nat × Nat × Nat)) (p : P) (chs : List (Chain S V)) (ch : Chain S V) :
    stageSeq K st offset intr p (chs ++ [ch]) =
      seqStep K st offset intr (stageSeq K st offset intr p chs) (chs.length, ch) := by
  unfold stageSeq
  rw [List.zipIdx_append, List.map_append, List.foldl_append]
  simp

theorem stageSeq_nil (K : Kernel S V A P) (st : Stage) (offset : Nat)
    (intr : Option (Nat × Nat × Nat)) (p : P) :
    stageSeq K st offset intr p ([] : List (Chain S V)) = ⟨p, [], [], false⟩ := rfl

theorem stageSeq_chains_length (K : Kernel S V A P) (st : Stage) (offset : Nat)
    (intr : Option (Nat × Nat × Nat)) (p : P) (chs : List (Chain S V)) :
    (stageSeq K st offset intr p chs).chains.length = chs.length := by
  induction chs using snoc_ind with
  | nil => rfl
  | snoc chs ch ih =>
    rw [stageSeq_snoc]
    unfold seqStep
    split <;> simp [ih]

/-- Uninterrupted sequential stage: never halted; chain `c` is run with the transition
parameters left by chains `0 … c-1`. -/
theorem stageSeq_none (K : Kernel S V A P) (st : Stage) (offset : Nat) (p : P)
    (chs : List (Chain S V)) :
    (stageSeq K st offset none p chs).halted = false ∧
    (stageSeq K st offset none p chs).chains = chs.mapIdx (fun c ch =>
        let r := chainRes K st offset none (stageSeq K st offset none p (chs.take c)).params ch
        (⟨ch.state, r.ctx.rng, r.mem, r.ctx.log⟩ : Chain S V)) ∧
    (stageSeq K st offset none p chs).outs = chs.mapIdx (fun c ch =>
        let r := chainRes K st offset none (stageSeq K st offset none p (chs.take c)).params ch
        (⟨c, r.ctx.state, r.ctx.adapt, r.ctx.rng⟩ : Out S A)) := by
  induction chs using snoc_ind with
  | nil => exact ⟨rfl, rfl, rfl⟩
  | snoc chs ch ih =>
    obtain ⟨h1, h2, h3⟩ := ih
    rw [stageSeq_snoc]
    have hrun : (chainRes K st offset none (stageSeq K st offset none p chs).params ch).halted = false := by
      rw [chainRes_none, foldOps_halted]; rfl
    have htake : ∀ c, c ≤ chs.length → (chs ++ [ch]).take c = chs.take c := by
      intro c hc; rw [List.take_append_of_le_length hc]
    refine ⟨?_, ?_, ?_⟩
    · simp only [seqStep, h1, chainIntr]
      exact hrun
    · simp only [seqStep, h1, chainIntr, Bool.false_eq_true, if_false]
      rw [List.mapIdx_append, h2]
      congr 1
      · apply List.mapIdx_eq_mapIdx_iff.mpr
        intro i hi
        simp only
        rw [htake i (by omega)]
      · simp [chainRes]
    · simp only [seqStep, h1, chainIntr, Bool.false_eq_true, if_false]
      rw [List.mapIdx_append, h3]
      congr 1
      · apply List.mapIdx_eq_mapIdx_iff.mpr
        intro i hi
        simp only
        rw [htake i (by omega)]
      · simp [chainRes]

end MiciVerif.Sampler
