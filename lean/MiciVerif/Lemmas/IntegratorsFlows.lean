/-
Helper lemmas about the component flows (C02 / C07): the harmonic (Gaussian-split) flow as a
function of its trigonometric data, composition of such data, conservation of `gaussH2`.
-/
import MiciVerif.Model.Integrators
import Mathlib.Tactic.Ring
import Mathlib.Tactic.FieldSimp
import Mathlib.Tactic.LinearCombination
import Mathlib.LinearAlgebra.Matrix.NonsingularInverse

namespace MiciVerif.Integrators

open Matrix

variable {K : Type*} [Field K] {n : Nat}

/-- The harmonic flow for given values `T = (cos, sin)`; `harmonic Q ω trig t = harmonicWith Q ω (trig t)`. -/
def harmonicWith (Q : Matrix (Fin n) (Fin n) K) (ω : Fin n → K) (T : Trig n K)
    (x : (Fin n → K) × (Fin n → K)) : (Fin n → K) × (Fin n → K) :=
  let eq := Q.transpose.mulVec x.1
  let ep := Q.transpose.mulVec x.2
  (Q.mulVec (T.c * eq + (T.s * ω) * ep), Q.mulVec (T.c * ep - (T.s / ω) * eq))

theorem harmonic_eq_with (Q : Matrix (Fin n) (Fin n) K) (ω : Fin n → K) (trig : K → Trig n K) (t : K) :
    harmonic Q ω trig t = harmonicWith Q ω (trig t) := rfl

/-- Angle addition on trigonometric data: `(cos(a+b), sin(a+b))` from `(cos a, sin a)`, `(cos b, sin b)`. -/
def Trig.comp (T₁ T₂ : Trig n K) : Trig n K :=
  ⟨T₁.c * T₂.c - T₁.s * T₂.s, T₁.s * T₂.c + T₁.c * T₂.s⟩

/-- Data of the negative angle. -/
def Trig.inv (T : Trig n K) : Trig n K := ⟨T.c, -T.s⟩

/-- Data of the zero angle. -/
def Trig.one : Trig n K := ⟨1, 0⟩

/-- `cos² + sin² = 1` in every mode. -/
def Trig.IsUnit (T : Trig n K) : Prop := ∀ i, T.c i ^ 2 + T.s i ^ 2 = 1

omit [Field K] in
theorem Trig.ext' {T₁ T₂ : Trig n K} (hc : T₁.c = T₂.c) (hs : T₁.s = T₂.s) : T₁ = T₂ := by
  cases T₁; cases T₂; simp_all

theorem Trig.comp_inv (T : Trig n K) (h : T.IsUnit) : T.comp T.inv = Trig.one := by
  apply Trig.ext'
  · funext i
    have := h i
    simp only [Trig.comp, Trig.inv, Trig.one, Pi.sub_apply, Pi.mul_apply, Pi.neg_apply, Pi.one_apply]
    linear_combination this
  · funext i
    simp only [Trig.comp, Trig.inv, Trig.one, Pi.add_apply, Pi.mul_apply, Pi.neg_apply, Pi.zero_apply]
    ring

theorem Trig.comp_isUnit (T₁ T₂ : Trig n K) (h₁ : T₁.IsUnit) (h₂ : T₂.IsUnit) : (T₁.comp T₂).IsUnit := by
  intro i
  have a := h₁ i
  have b := h₂ i
  simp only [Trig.comp, Pi.sub_apply, Pi.add_apply, Pi.mul_apply]
  linear_combination (T₂.c i ^ 2 + T₂.s i ^ 2) * a + b

theorem transpose_mulVec_mulVec (Q : Matrix (Fin n) (Fin n) K) (hQ : Qᵀ * Q = 1) (v : Fin n → K) :
    Qᵀ.mulVec (Q.mulVec v) = v := by
  rw [Matrix.mulVec_mulVec, hQ, Matrix.one_mulVec]

theorem mulVec_transpose_mulVec (Q : Matrix (Fin n) (Fin n) K) (hQ : Qᵀ * Q = 1) (v : Fin n → K) :
    Q.mulVec (Qᵀ.mulVec v) = v := by
  rw [Matrix.mulVec_mulVec, mul_eq_one_comm.mp hQ, Matrix.one_mulVec]

/-- Two harmonic flows compose to the harmonic flow of the added angles. -/
theorem harmonicWith_comp (Q : Matrix (Fin n) (Fin n) K) (ω : Fin n → K) (hQ : Qᵀ * Q = 1)
    (hω : ∀ i, ω i ≠ 0) (T₁ T₂ : Trig n K) (x : (Fin n → K) × (Fin n → K)) :
    harmonicWith Q ω T₂ (harmonicWith Q ω T₁ x) = harmonicWith Q ω (T₁.comp T₂) x := by
  unfold harmonicWith
  simp only [transpose_mulVec_mulVec Q hQ]
  simp only [Prod.mk.injEq]
  constructor
  · congr 1
    funext i
    have := hω i
    simp only [Trig.comp, Pi.add_apply, Pi.sub_apply, Pi.mul_apply, Pi.div_apply]
    field_simp
    ring
  · congr 1
    funext i
    have := hω i
    simp only [Trig.comp, Pi.add_apply, Pi.sub_apply, Pi.mul_apply, Pi.div_apply]
    field_simp
    ring

theorem harmonicWith_one (Q : Matrix (Fin n) (Fin n) K) (ω : Fin n → K) (hQ : Qᵀ * Q = 1)
    (x : (Fin n → K) × (Fin n → K)) : harmonicWith Q ω Trig.one x = x := by
  unfold harmonicWith
  refine Prod.ext ?_ ?_
  · have : (Trig.one : Trig n K).c * Qᵀ.mulVec x.1 + (Trig.one : Trig n K).s * ω * Qᵀ.mulVec x.2
        = Qᵀ.mulVec x.1 := by
      funext i; simp [Trig.one]
    simp only [this, mulVec_transpose_mulVec Q hQ]
  · have : (Trig.one : Trig n K).c * Qᵀ.mulVec x.2 - (Trig.one : Trig n K).s / ω * Qᵀ.mulVec x.1
        = Qᵀ.mulVec x.2 := by
      funext i; simp [Trig.one]
    simp only [this, mulVec_transpose_mulVec Q hQ]

/-- `v · v = (Qᵀ v) · (Qᵀ v)` for orthogonal `Q`. -/
theorem dotProduct_transpose_mulVec (Q : Matrix (Fin n) (Fin n) K) (hQ : Qᵀ * Q = 1) (u v : Fin n → K) :
    dotProduct (Qᵀ.mulVec u) (Qᵀ.mulVec v) = dotProduct u v := by
  rw [Matrix.dotProduct_mulVec, Matrix.vecMul_transpose, mulVec_transpose_mulVec Q hQ]

/-- `gaussH2` in eigen-coordinates. -/
theorem gaussH2_eigen (Q : Matrix (Fin n) (Fin n) K) (ω : Fin n → K) (hQ : Qᵀ * Q = 1)
    (x : (Fin n → K) × (Fin n → K)) :
    gaussH2 Q ω x = 1 / 2 * dotProduct (Qᵀ.mulVec x.1) (Qᵀ.mulVec x.1)
      + 1 / 2 * dotProduct (Qᵀ.mulVec x.2) ((ω * ω) * Qᵀ.mulVec x.2) := by
  unfold gaussH2 eigMulVec
  rw [dotProduct_transpose_mulVec Q hQ]
  congr 2
  rw [← dotProduct_transpose_mulVec Q hQ x.2, transpose_mulVec_mulVec Q hQ]

/-- Each mode conserves `q² + ω² p²`. -/
theorem harmonicWith_gaussH2 (Q : Matrix (Fin n) (Fin n) K) (ω : Fin n → K) (hQ : Qᵀ * Q = 1)
    (hω : ∀ i, ω i ≠ 0) (T : Trig n K) (hT : T.IsUnit) (x : (Fin n → K) × (Fin n → K)) :
    gaussH2 Q ω (harmonicWith Q ω T x) = gaussH2 Q ω x := by
  rw [gaussH2_eigen Q ω hQ, gaussH2_eigen Q ω hQ]
  unfold harmonicWith
  simp only [transpose_mulVec_mulVec Q hQ]
  simp only [dotProduct, ← mul_add, ← Finset.sum_add_distrib]
  congr 1
  apply Finset.sum_congr rfl
  intro i _
  have h1 := hω i
  have h2 := hT i
  simp only [Pi.add_apply, Pi.sub_apply, Pi.mul_apply, Pi.div_apply]
  field_simp
  linear_combination ((Qᵀ.mulVec x.1 i) ^ 2 + (ω i) ^ 2 * (Qᵀ.mulVec x.2 i) ^ 2) * h2

end MiciVerif.Integrators
