/-
State-machine model of `mici.states` (ChainState + the two memoising decorators), core Lean only.

It mirrors `src/mici/states.py` line by line:

* `ChainState` objects live in a heap `Heap.st : Nat → St`; a state has its variables (`stamp x`
  = version of the *content* of variable `x`, `arr x` = identity of the array object holding it),
  its `_cache : Key → Option (Option Val)` (`none` = key absent, `some none` = key present with
  value `None`, `some (some v)` = cached value), the id `cell` of its `_dependencies` dict (copies
  SHARE the dict, a pickle round trip un-shares it) and `_read_only`.
* `Heap.cells c x k` = "key `k` is in `_dependencies[x]` of dict `c`".
* cache key = (system object id, method id)  — `(type(system).__name__ + "." + name, id(system))`;
  the class is a function of the system object (`Cfg.clsOf`).  System ids are distinct by
  construction: the model does NOT cover re-use of `id(system)` after garbage collection.
* values are uninterpreted: a value is the *provenance* of the computation that produced it
  (`Prov3`: for each variable, the version of it the computation consumed, `unused`, or `mixed`
  when two different versions of the same variable were combined).  The from-scratch value of
  method `m` on a state is `Prov3.ofSet (trueDeps m) stamps`.
* `Val.aliasOf = some a`: the cached value *is* the array object `a` (e.g. `return state.pos`);
  an in-place update of that array (`state.pos += …`) changes the content of the cached value
  in every state that holds it (`sweepSt`).

The dependency table (`Entry`) is generated from the source by `tools/extractors/cache_deps.py`.
-/
import MiciVerif.Proto

namespace MiciVerif.Cache

inductive Var | pos | mom | dir
  deriving DecidableEq, Repr, Inhabited

/-- finite set of state variables ⟨pos, mom, dir⟩ -/
structure VarSet where
  pos : Bool
  mom : Bool
  dir : Bool
  deriving DecidableEq, Repr, Inhabited

namespace VarSet
def mem (s : VarSet) : Var → Bool
  | .pos => s.pos | .mom => s.mom | .dir => s.dir
def empty : VarSet := ⟨false, false, false⟩
def union (a b : VarSet) : VarSet := ⟨a.pos || b.pos, a.mom || b.mom, a.dir || b.dir⟩
def subset (a b : VarSet) : Bool := (!a.pos || b.pos) && (!a.mom || b.mom) && (!a.dir || b.dir)
end VarSet

/-- One row of the generated table: a method (taking `state`) of a concrete system class. -/
structure Entry where
  cls : Nat
  meth : Nat
  cached : Bool            -- decorated with cache_in_state / cache_in_state_with_aux
  withAux : Bool           -- … the latter
  declared : VarSet        -- `depends_on`
  declUnknown : Bool       -- decorator arguments not understood (fail closed)
  aux : List Nat           -- `auxiliary_outputs` (method ids)
  reads : VarSet           -- `state.<var>` read directly in the body
  writes : VarSet          -- `state.<var> = …` in the body
  calls : List Nat         -- `self.<m>(state)` in evaluation order
  condCalls : Bool         -- some call sits under a condition
  unknownReads : Bool      -- some use of `state` not understood (fail closed)
  trueDeps : VarSet        -- translator's transitive closure of reads (re-checked by `entryOk`)
  writesT : VarSet         -- transitive writes
  rank : Nat               -- depth in the call graph (re-checked by `entryOk`)
  mayAlias : VarSet        -- return value may be the variable's array object itself
  stateOnly : Bool         -- signature is exactly (self, state)
  clsName : String
  methName : String
  deriving Repr, Inhabited

abbrev Table := List Entry

def lookup (tbl : Table) (cls meth : Nat) : Option Entry :=
  tbl.find? (fun e => e.cls == cls && e.meth == meth)

/-- true dependencies recomputed locally: own reads ∪ the callees' true dependencies -/
def depsOf (tbl : Table) (cls c : Nat) : VarSet :=
  ((lookup tbl cls c).map (·.trueDeps)).getD VarSet.empty

def closeDeps (tbl : Table) (e : Entry) : VarSet :=
  e.calls.foldl (fun acc c => acc.union (depsOf tbl e.cls c)) e.reads

def closeWrites (tbl : Table) (e : Entry) : VarSet :=
  e.calls.foldl (fun acc c => acc.union (((lookup tbl e.cls c).map (·.writesT)).getD VarSet.empty)) e.writes

/-- Decidable per-entry soundness obligation (C09). -/
def entryOk (tbl : Table) (e : Entry) : Bool :=
  !e.unknownReads && !e.declUnknown
  && e.calls.all (fun c => match lookup tbl e.cls c with | some ec => decide (ec.rank < e.rank) | none => false)
  && e.trueDeps == closeDeps tbl e
  && e.writesT == closeWrites tbl e
  && e.mayAlias.subset e.trueDeps
  && (!e.cached ||
        (e.trueDeps.subset e.declared && e.writesT == VarSet.empty
         && e.aux.all (fun a => match lookup tbl e.cls a with
              | some ea => !ea.cached || ea.trueDeps == e.trueDeps
              | none => true)))

def depsSoundB (tbl : Table) : Bool := tbl.all (entryOk tbl)

/-- **C09 obligation on the generated table**: every cached method declares (at least) all the
state variables its result really depends on, transitively through the methods it calls; the
values a method hands to its auxiliary outputs depend on the same variables as those outputs;
nothing was un-analysable. -/
def DepsSound (tbl : Table) : Prop := depsSoundB tbl = true

instance (tbl : Table) : Decidable (DepsSound tbl) := by unfold DepsSound; infer_instance

/-- Decidable per-entry precision obligation (C18): nothing is declared (or registered through
an auxiliary output) that the result does not depend on. -/
def entryPrecise (tbl : Table) (e : Entry) : Bool :=
  !e.cached ||
    (e.declared.subset e.trueDeps
     && e.aux.all (fun a => match lookup tbl e.cls a with
          | some ea => !ea.cached || e.declared.subset ea.trueDeps
          | none => true))

def depsPreciseB (tbl : Table) : Bool := tbl.all (entryPrecise tbl)
def DepsPrecise (tbl : Table) : Prop := depsPreciseB tbl = true
instance (tbl : Table) : Decidable (DepsPrecise tbl) := by unfold DepsPrecise; infer_instance

/-! ### values -/

inductive Prov | unused | ver (n : Nat) | mixed
  deriving DecidableEq, Repr, Inhabited

def Prov.join : Prov → Prov → Prov
  | .unused, p => p
  | p, .unused => p
  | .ver a, .ver b => if a = b then .ver a else .mixed
  | _, _ => .mixed

structure Prov3 where
  pos : Prov
  mom : Prov
  dir : Prov
  deriving DecidableEq, Repr, Inhabited

namespace Prov3
def get (p : Prov3) : Var → Prov
  | .pos => p.pos | .mom => p.mom | .dir => p.dir
def set (p : Prov3) (x : Var) (v : Prov) : Prov3 :=
  match x with
  | .pos => { p with pos := v } | .mom => { p with mom := v } | .dir => { p with dir := v }
def join (a b : Prov3) : Prov3 := ⟨a.pos.join b.pos, a.mom.join b.mom, a.dir.join b.dir⟩
/-- provenance of a from-scratch computation that consumes exactly the variables in `s` -/
def ofSet (s : VarSet) (stamp : Var → Nat) : Prov3 :=
  ⟨if s.pos then .ver (stamp .pos) else .unused,
   if s.mom then .ver (stamp .mom) else .unused,
   if s.dir then .ver (stamp .dir) else .unused⟩
def mixed : Prov3 := ⟨.mixed, .mixed, .mixed⟩
end Prov3

structure Key where
  sys : Nat
  meth : Nat
  deriving DecidableEq, Repr, Inhabited

structure Val where
  key : Key
  prov : Prov3
  aliasOf : Option Nat
  callable : Bool
  deriving DecidableEq, Repr, Inhabited

def Val.bad (k : Key) : Val := ⟨k, Prov3.mixed, none, false⟩

/-! ### heap -/

structure St where
  stamp : Var → Nat
  arr : Var → Nat
  cache : Key → Option (Option Val)
  cell : Nat
  readOnly : Bool
  frozen : Bool      -- array variables are non-writeable (set by `copy(read_only=True)`; `__setstate__` re-freezes read-only states)

structure Heap where
  st : Nat → St
  nSt : Nat
  cells : Nat → Var → Key → Bool
  nCells : Nat
  nextStamp : Nat
  nextArr : Nat

def upd (f : Var → Nat) (x : Var) (n : Nat) : Var → Nat := fun y => if y = x then n else f y

def St.empty : St := ⟨fun _ => 0, fun _ => 0, fun _ => none, 0, false, false⟩

/-- one fresh `ChainState(pos=…, mom=…, dir=…)` -/
def Heap.init : Heap :=
  { st := fun i => if i = 0 then
      ⟨fun | .pos => 1 | .mom => 2 | .dir => 3, fun | .pos => 1 | .mom => 2 | .dir => 3,
       fun _ => none, 0, false, false⟩ else St.empty
    nSt := 1, cells := fun _ _ _ => false, nCells := 1, nextStamp := 4, nextArr := 4 }

def setSt (h : Heap) (sid : Nat) (f : St → St) : Heap :=
  { h with st := fun i => if i = sid then f (h.st i) else h.st i }

/-- Facts about the live system objects that are not in the source of the library: class of
each object, how many auxiliary values the user function behind a `…_with_aux` method returns,
whether a method's value is callable, whether its value is a state variable's array itself. -/
structure Cfg where
  clsOf : Nat → Nat
  auxRet : Nat → Nat → Nat
  callableVal : Nat → Nat → Bool
  aliasRet : Nat → Nat → Option Var

/-- `if key not in state._cache: for dep in depends_on: state._dependencies[dep].add(key)` for
every key of `keys` (the cache is not modified while registering). -/
def register (h : Heap) (sid : Nat) (keys : List Key) (declared : VarSet) : Heap :=
  let s := h.st sid
  { h with cells := fun c x k =>
      h.cells c x k || (decide (c = s.cell) && declared.mem x && keys.contains k && (s.cache k).isNone) }

structure Res where
  h : Heap
  v : Val
  tr : List Key     -- keys whose wrapped method was really evaluated, in completion order

/-- the nested `self.m(state)` calls of a body, left to right, accumulating provenance -/
def runCalls (call : Heap → Nat → Res) : Heap → Prov3 → List Nat → Heap × Prov3 × List Key
  | h, p, [] => (h, p, [])
  | h, p, c :: cs =>
    let r := call h c
    let q := runCalls call r.h (p.join r.v.prov) cs
    (q.1, q.2.1, r.tr ++ q.2.2)

/-- store the results of a miss: `state._cache[k] = v for k, v in zip(keys, vals)` -/
def store (cfg : Cfg) (s : St) (key : Key) (v : Val) (auxKeys : List Key) : St :=
  { s with cache := fun k =>
      if k = key then some (some v)
      else if auxKeys.contains k then
        some (some { v with key := k, aliasOf := none, callable := cfg.callableVal k.sys k.meth })
      else s.cache k }

/-- the wrapped method itself: direct reads + nested calls -/
def bodyM (cfg : Cfg) (call : Heap → Nat → Res) (e : Entry) (sid sys : Nat) (h : Heap) : Res :=
  let s := h.st sid
  let q := runCalls call h (Prov3.ofSet e.reads s.stamp) e.calls
  ⟨q.1, ⟨⟨sys, e.meth⟩, q.2.1, (cfg.aliasRet sys e.meth).map s.arr, cfg.callableVal sys e.meth⟩, q.2.2⟩

/-- the decorator wrapper (`cache_in_state` when `withAux = false`, else `cache_in_state_with_aux`) -/
def wrapM (cfg : Cfg) (call : Heap → Nat → Res) (e : Entry) (sid sys : Nat) (h : Heap) : Res :=
  let key : Key := ⟨sys, e.meth⟩
  let keys := if e.withAux then key :: e.aux.map (Key.mk sys) else [key]
  let h1 := register h sid keys e.declared
  match (h1.st sid).cache key with
  | some (some v) => ⟨h1, v, []⟩
  | _ =>
    let r := bodyM cfg call e sid sys h1
    let nAux := if e.withAux then cfg.auxRet sys e.meth else 0
    let auxKeys := (e.aux.take nAux).map (Key.mk sys)
    ⟨setSt r.h sid (fun s => store cfg s key r.v auxKeys), r.v, r.tr ++ [key]⟩

/-- A call `system.m(state)`; `fuel` bounds the nesting depth (callers pass `rank + 1`). -/
def callM (tbl : Table) (cfg : Cfg) : Nat → Heap → Nat → Nat → Nat → Res
  | 0, h, _, sys, m => ⟨h, Val.bad ⟨sys, m⟩, []⟩
  | fuel + 1, h, sid, sys, m =>
    match lookup tbl (cfg.clsOf sys) m with
    | none => ⟨h, Val.bad ⟨sys, m⟩, []⟩
    | some e =>
      if e.cached then wrapM cfg (fun h c => callM tbl cfg fuel h sid sys c) e sid sys h
      else bodyM cfg (fun h c => callM tbl cfg fuel h sid sys c) e sid sys h

def callTop (tbl : Table) (cfg : Cfg) (h : Heap) (sid sys m : Nat) : Res :=
  match lookup tbl (cfg.clsOf sys) m with
  | none => ⟨h, Val.bad ⟨sys, m⟩, []⟩
  | some e => callM tbl cfg (e.rank + 1) h sid sys m

/-! ### operations on states -/

inductive Op
  | assign (sid : Nat) (x : Var)        -- `state.x = <new array>`
  | assignIP (sid : Nat) (x : Var)      -- `state.x += …` (array updated in place, then `__setattr__`)
  | copy (sid : Nat) (ro : Bool)        -- `state.copy(read_only=ro)`
  | pickle (sid : Nat)                  -- `pickle.loads(pickle.dumps(state))`
  | fresh                               -- a new `ChainState(pos=…, mom=…, dir=…)`
  | call (sid sys meth : Nat)
  deriving DecidableEq, Repr

inductive Out
  | ok
  | roError                              -- ReadOnlyStateError
  | valueError                           -- numpy: in-place update of a non-writeable array
  | badId
  | val (v : Val) (tr : List Key)
  deriving DecidableEq, Repr

/-- `__setattr__`: `for dep in self._dependencies[name]: self._cache[dep] = None` -/
def invalidate (h : Heap) (s : St) (x : Var) : Key → Option (Option Val) :=
  fun k => if h.cells s.cell x k then some none else s.cache k

/-- content of array `a` changed to version `n` (of variable `x`): every cached value that *is*
that array changes with it -/
def sweepSt (a : Nat) (x : Var) (n : Nat) (s : St) : St :=
  { s with cache := fun k => match s.cache k with
      | some (some v) => if v.aliasOf = some a then some (some { v with prov := v.prov.set x (.ver n) }) else some (some v)
      | o => o }

def remapAlias (old new : Var → Nat) (a : Nat) : Option Nat :=
  if a = old .pos then some (new .pos) else if a = old .mom then some (new .mom)
  else if a = old .dir then some (new .dir) else none

def step (tbl : Table) (cfg : Cfg) (h : Heap) : Op → Heap × Out
  | .assign sid x =>
    if sid < h.nSt then
      let s := h.st sid
      if s.readOnly then (h, .roError) else
      let h' := setSt h sid (fun s => { s with stamp := upd s.stamp x h.nextStamp, arr := upd s.arr x h.nextArr,
                                               cache := invalidate h s x })
      ({ h' with nextStamp := h.nextStamp + 1, nextArr := h.nextArr + 1 }, .ok)
    else (h, .badId)
  | .assignIP sid x =>
    if sid < h.nSt then
      let s := h.st sid
      if s.frozen then (h, .valueError) else
      let n := h.nextStamp
      -- `arr.__iadd__` first …
      let h1 : Heap := { h with st := fun i => sweepSt (s.arr x) x n (h.st i), nextStamp := n + 1 }
      let h2 := setSt h1 sid (fun s => { s with stamp := upd s.stamp x n })
      -- … then `__setattr__`, which raises for a read-only state (nothing is invalidated)
      if s.readOnly then (h2, .roError) else
      (setSt h2 sid (fun s => { s with cache := invalidate h2 s x }), .ok)
    else (h, .badId)
  | .copy sid ro =>
    if sid < h.nSt then
      let s := h.st sid
      let a := h.nextArr
      let s' : St := { s with arr := fun | .pos => a | .mom => a + 1 | .dir => a + 2, readOnly := ro, frozen := ro }
      ({ h with st := fun i => if i = h.nSt then s' else h.st i, nSt := h.nSt + 1, nextArr := a + 3 }, .ok)
    else (h, .badId)
  | .pickle sid =>
    if sid < h.nSt then
      let s := h.st sid
      let a := h.nextArr
      let newArr : Var → Nat := fun | .pos => a | .mom => a + 1 | .dir => a + 2
      let s' : St :=
        { s with arr := newArr, cell := h.nCells, frozen := s.readOnly,
                 cache := fun k => match s.cache k with
                   | some (some v) => if v.callable then none
                       else some (some { v with aliasOf := v.aliasOf.bind (remapAlias s.arr newArr) })
                   | o => o }
      ({ h with st := fun i => if i = h.nSt then s' else h.st i, nSt := h.nSt + 1, nextArr := a + 3,
                cells := fun c => if c = h.nCells then h.cells s.cell else h.cells c,
                nCells := h.nCells + 1 }, .ok)
    else (h, .badId)
  | .fresh =>
    let a := h.nextArr
    let n := h.nextStamp
    let s' : St := ⟨fun | .pos => n | .mom => n + 1 | .dir => n + 2, fun | .pos => a | .mom => a + 1 | .dir => a + 2,
                    fun _ => none, h.nCells, false, false⟩
    ({ h with st := fun i => if i = h.nSt then s' else h.st i, nSt := h.nSt + 1, nextArr := a + 3,
              nextStamp := n + 3,
              cells := fun c => if c = h.nCells then (fun _ _ => false) else h.cells c,
              nCells := h.nCells + 1 }, .ok)
  | .call sid sys m =>
    if sid < h.nSt then
      let r := callTop tbl cfg h sid sys m
      (r.h, .val r.v r.tr)
    else (h, .badId)

/-- heap before each op, the op, its outcome -/
def run (tbl : Table) (cfg : Cfg) : Heap → List Op → List (Heap × Op × Out)
  | _, [] => []
  | h, op :: ops => let r := step tbl cfg h op; (h, op, r.2) :: run tbl cfg r.1 ops

def finalHeap (tbl : Table) (cfg : Cfg) : Heap → List Op → Heap
  | h, [] => h
  | h, op :: ops => finalHeap tbl cfg (step tbl cfg h op).1 ops

/-- from-scratch value of method `m` of system `sys` on state `s` -/
def trueProv (tbl : Table) (cfg : Cfg) (s : St) (sys m : Nat) : Prov3 :=
  match lookup tbl (cfg.clsOf sys) m with
  | some e => Prov3.ofSet e.trueDeps s.stamp
  | none => Prov3.mixed

/-- An in-place update `state.x += …` is *safe* when the state is writable (or its arrays are
frozen, in which case numpy refuses the update and nothing changes) and every cached value
(in any state) that is the updated array object is an entry of this very state that the
assignment invalidates. -/
def SafeIP (h : Heap) (sid : Nat) (x : Var) : Prop :=
  (h.st sid).frozen = true ∨ (h.st sid).readOnly = false ∧
  ∀ i k v, (h.st i).cache k = some (some v) → v.aliasOf = some ((h.st sid).arr x) →
    i = sid ∧ h.cells (h.st sid).cell x k = true

def SafeOp (h : Heap) : Op → Prop
  | .assignIP sid x => sid < h.nSt → SafeIP h sid x
  | _ => True

def SafeHist (tbl : Table) (cfg : Cfg) : Heap → List Op → Prop
  | _, [] => True
  | h, op :: ops => SafeOp h op ∧ SafeHist tbl cfg (step tbl cfg h op).1 ops

/-! ### line protocol (used by Driver/C09.lean and Driver/C18.lean)

request : `hist <sys>&<sys>… | <op>;<op>;…`
  sys   : `cls/aux/callable/alias` with aux = `m:k,m:k`, callable = `m,m`, alias = `m:v,m:v` (`-` = empty)
  op    : `a sid var` | `i sid var` | `c sid ro` | `p sid` | `f` | `m sid sys meth`
response: per op `ok` | `ro` | `ve` | `bad` | `v:<stale 0/1>:<evaluated keys sys.meth,…>` joined by `;` -/
namespace Wire
open MiciVerif.Proto

def parseVar? : String → Option Var
  | "pos" => some .pos | "mom" => some .mom | "dir" => some .dir | _ => none

def parsePairs? {α} (f : String → Option α) (s : String) : Option (List (Nat × α)) :=
  if s = "-" then some [] else
  (s.splitOn ",").mapM (fun t => match t.splitOn ":" with
    | [a, b] => do let a ← a.toNat?; let b ← f b; pure (a, b)
    | _ => none)

def parseNats? (s : String) : Option (List Nat) :=
  if s = "-" then some [] else (s.splitOn ",").mapM (·.toNat?)

structure SysSpec where
  cls : Nat
  aux : List (Nat × Nat)
  callable : List Nat
  alias : List (Nat × Var)

def parseSys? (s : String) : Option SysSpec :=
  match s.splitOn "/" with
  | [c, a, cb, al] => do
      let c ← c.toNat?
      let a ← parsePairs? (·.toNat?) a
      let cb ← parseNats? cb
      let al ← parsePairs? parseVar? al
      pure ⟨c, a, cb, al⟩
  | _ => none

def mkCfg (ss : List SysSpec) : Cfg :=
  { clsOf := fun i => match ss[i]? with | some s => s.cls | none => 1000000
    auxRet := fun i m => match ss[i]? with | some s => ((s.aux.find? (·.1 == m)).map (·.2)).getD 0 | none => 0
    callableVal := fun i m => match ss[i]? with | some s => s.callable.contains m | none => false
    aliasRet := fun i m => match ss[i]? with | some s => (s.alias.find? (·.1 == m)).map (·.2) | none => none }

def parseOp? (s : String) : Option Op :=
  match s.splitOn " " with
  | ["a", sid, x] => do pure (.assign (← sid.toNat?) (← parseVar? x))
  | ["i", sid, x] => do pure (.assignIP (← sid.toNat?) (← parseVar? x))
  | ["c", sid, ro] => do pure (.copy (← sid.toNat?) (← parseBool? ro))
  | ["p", sid] => do pure (.pickle (← sid.toNat?))
  | ["f"] => some .fresh
  | ["m", sid, sys, m] => do pure (.call (← sid.toNat?) (← sys.toNat?) (← m.toNat?))
  | _ => none

def showKey (k : Key) : String := s!"{k.sys}.{k.meth}"

def showOut (tbl : Table) (cfg : Cfg) (hAfter : Heap) : Op → Out → String
  | _, .ok => "ok"
  | _, .roError => "ro"
  | _, .valueError => "ve"
  | _, .badId => "bad"
  | .call sid sys m, .val v tr =>
    let stale := decide (v.prov ≠ trueProv tbl cfg (hAfter.st sid) sys m)
    s!"v:{if stale then 1 else 0}:{",".intercalate (tr.map showKey)}"
  | _, .val _ _ => "bad"

inductive WOp
  | op (o : Op)
  | dump (sid : Nat)     -- pseudo-op: print `_dependencies` and `_cache` of a state

def parseWOp? (s : String) : Option WOp :=
  match s.splitOn " " with
  | ["d", sid] => do pure (.dump (← sid.toNat?))
  | _ => (parseOp? s).map .op

def methUniverse (tbl : Table) : List Nat :=
  (tbl.foldl (fun acc e => (e.meth :: e.aux) ++ acc) []).eraseDups

def showDump (tbl : Table) (nSys : Nat) (h : Heap) (sid : Nat) : String :=
  if sid < h.nSt then
    let s := h.st sid
    let keys := (List.range nSys).flatMap (fun i => (methUniverse tbl).map (Key.mk i))
    let deps (x : Var) := ",".intercalate ((keys.filter (h.cells s.cell x)).map showKey)
    let cache := ",".intercalate (keys.filterMap (fun k => match s.cache k with
      | none => none
      | some none => some (showKey k ++ ":N")
      | some (some _) => some (showKey k ++ ":V")))
    s!"D:{deps .pos}|{deps .mom}|{deps .dir}#{cache}#{if s.readOnly then 1 else 0}"
  else "bad"

def runShow (tbl : Table) (cfg : Cfg) (nSys : Nat) : Heap → List WOp → List String
  | _, [] => []
  | h, .dump sid :: ops => showDump tbl nSys h sid :: runShow tbl cfg nSys h ops
  | h, .op op :: ops =>
    let r := step tbl cfg h op
    showOut tbl cfg r.1 op r.2 :: runShow tbl cfg nSys r.1 ops

def stepLine (tbl : Table) (line : String) : String :=
  match line.splitOn " | " with
  | [hd, opsS] =>
    match hd.splitOn " " with
    | ["hist", sysS] =>
      match (sysS.splitOn "&").mapM parseSys?, (opsS.splitOn ";").mapM parseWOp? with
      | some ss, some ops => ";".intercalate (runShow tbl (mkCfg ss) ss.length Heap.init ops)
      | _, _ => "bad-op"
    | _ => "bad-op"
  | _ => "bad-op"

end Wire

end MiciVerif.Cache
