/-
Model of `mici.stagers` (WarmUpStager, WindowedWarmUpStager) and of the stage loop of
`MarkovChainMonteCarloMethod.sample_chains` as far as adaptation is concerned.

Core Lean only (no Mathlib) so the driver starts fast.  Mirrors `/repo/src/mici/stagers.py`
line by line; Python `int(x)` of a non-negative float is `floor`.
-/
namespace MiciVerif.Stagers

inductive Kind | fast | slow | main
  deriving DecidableEq, Repr

/-- One `ChainStage`: number of iterations, which adapters are active (`fast`: only the fast
adapters, `slow`: all adapters, `main`: none), whether trace functions are set and whether
statistics are recorded. -/
structure Stage where
  n : Nat
  kind : Kind
  traced : Bool
  stats : Bool
  deriving DecidableEq, Repr

/-- `WarmUpStager.stages`. -/
def warmUpStages (nWarm nMain : Nat) (traceWarm : Bool) : List Stage :=
  (if nWarm > 0 then [⟨nWarm, .slow, traceWarm, traceWarm⟩] else []) ++
  (if nMain > 0 then [⟨nMain, .main, true, true⟩] else [])

/-- The `while counter < n_slow_stage_iter` loop of `WindowedWarmUpStager.stages`
(lines 243-255), with explicit fuel.  `w` is `n_window_iter`. -/
def windows (mult : Rat) (total : Nat) : Nat → Nat → Nat → List Nat
  | 0, _, _ => []
  | fuel + 1, counter, w =>
    if counter < total then
      let next := counter + ((1 + mult) * (w : Rat)).floor.toNat
      let w' := if next > total then total - counter else w
      w' :: windows mult total fuel (counter + w') ((mult * (w' : Rat)).floor.toNat)
    else []

structure Config where
  initSlowWindow : Nat := 25
  initFast : Nat := 75
  finalFast : Nat := 50
  mult : Rat := 2
  deriving Repr

/-- `int(0.15 * n)` and `int(0.1 * n)` as exact floors (validated against the float
computation by the correspondence check). -/
def frac15 (n : Nat) : Nat := 15 * n / 100
def frac10 (n : Nat) : Nat := n / 10

/-- The three sizes chosen at lines 210-223, parameterised by the two fallback fractions. -/
def sizes (c : Config) (f15 f10 : Nat → Nat) (nWarm : Nat) : Nat × Nat × Nat :=
  if c.initFast + c.initSlowWindow + c.finalFast > nWarm then
    (f15 nWarm, f10 nWarm, nWarm - f15 nWarm - f10 nWarm)
  else (c.initFast, c.finalFast, c.initSlowWindow)

/-- `WindowedWarmUpStager.stages` (fuel = number of slow iterations + 1 always suffices,
see `Props.C16.windows_sum`). -/
def windowedStagesWith (c : Config) (f15 f10 : Nat → Nat) (nWarm nMain : Nat)
    (traceWarm : Bool) : List Stage :=
  let (initFast, finalFast, initSlow) := sizes c f15 f10 nWarm
  let nSlow := nWarm - initFast - finalFast
  (if nWarm > 0 then
    [⟨initFast, .fast, traceWarm, traceWarm⟩] ++
    (windows c.mult nSlow (nSlow + 1) 0 initSlow).map (fun n => ⟨n, .slow, traceWarm, traceWarm⟩) ++
    [⟨finalFast, .fast, traceWarm, traceWarm⟩]
   else []) ++
  (if nMain > 0 then [⟨nMain, .main, true, true⟩] else [])

def windowedStages (c : Config) := windowedStagesWith c frac15 frac10

def warmSum (l : List Stage) : Nat := ((l.filter (fun s => s.kind != .main)).map (·.n)).sum

/-! ### Stage loop of `sample_chains` with abstract adapters

`P` is the tuple of adaptable transition parameters (step size, metric).  An adaptive stage
with `n > 0` iterations does `initialize`, `n` × `update`, `finalize`; a main stage changes
nothing; a stage with `n = 0` is skipped (samplers.py, `if stage.n_iter == 0: continue`). -/

structure Adapters (P : Type) where
  /-- parameters after `initialize` + `n` updates + `finalize` of a stage of the given kind -/
  adapt : Kind → Nat → P → P

def runStage {P} (A : Adapters P) (p : P) (s : Stage) : P :=
  if s.n = 0 then p else
  match s.kind with
  | .main => p
  | k => A.adapt k s.n p

def runStages {P} (A : Adapters P) (p : P) (l : List Stage) : P := l.foldl (runStage A) p

/-- Parameters in force during each iteration of the run, stage by stage: the value the
stage *ends* with is what the next stage starts from; during a main stage the parameters in
force are the ones it starts with. -/
def paramsAtStageStarts {P} (A : Adapters P) (p : P) : List Stage → List P
  | [] => []
  | s :: l => p :: paramsAtStageStarts A (runStage A p s) l

end MiciVerif.Stagers
