/-
Value-level evaluator for the C10 model.

`Matrix` is a function type, and Lean's compiler eta-expands definitions of function type: an
expression such as `denote e` is then a partial application that is re-run for every entry that
is read.  The functions below return *structures* (`MatBox`, `VecBox`), so each node of an
expression is computed (and tabulated) exactly once.  Each evaluator is proved equal to the pure
model function the theorems are about (`denoteB_M`, `leftMulB_M`, `rightMulB_M`, `diagonalB_v`),
and `WF` is decided through them.
-/
import MiciVerif.Model.Matrices

namespace MiciVerif.Matrices
open Matrix

structure VecBox (n : ℕ) (K : Type) where
  v : Fin n → K

def vecForce {K : Type} {n : ℕ} (f : Fin n → K) : VecBox n K :=
  let tbl : Array K := Array.ofFn f
  ⟨fun i => if h : i.val < tbl.size then tbl[i.val] else f i⟩

@[simp] theorem vecForce_v {K : Type} {n : ℕ} (f : Fin n → K) : (vecForce f).v = f := by
  funext i; simp [vecForce]

namespace MExpr
variable {K : Type} [Field K]

def denoteB : {m n : ℕ} → MExpr K m n → MatBox m n K
  | _, _, identity _ => ⟨1⟩
  | _, _, scaledId _ _ c => ⟨c • (1 : Mat _ _ K)⟩
  | _, _, diag _ d => ⟨Matrix.diagonal d⟩
  | _, _, tri f => ⟨f.denote⟩
  | _, _, triFact _ s f => boxForce ((s.val : K) • (f.denote * f.denoteᵀ))
  | _, _, denseDef _ _ A _ => ⟨A⟩
  | _, _, lu inverse A X => ⟨if inverse then X else A⟩
  | _, _, denseSym A _ _ => ⟨A⟩
  | _, _, orth Q => ⟨Q⟩
  | _, _, scaledOrth c Q => ⟨c • Q⟩
  | _, _, eigSym _ Q ev => boxForce (Q * Matrix.diagonal ev * Qᵀ)
  | _, _, rect A => ⟨A⟩
  | _, _, blockDiag _ a b =>
      let A := denoteB a
      let B := denoteB b
      ⟨bdiag A.M B.M⟩
  | _, _, blockRow a b =>
      let A := denoteB a
      let B := denoteB b
      ⟨brow A.M B.M⟩
  | _, _, blockCol a b =>
      let A := denoteB a
      let B := denoteB b
      ⟨bcol A.M B.M⟩
  | _, _, prod _ a b =>
      let A := denoteB a
      let B := denoteB b
      boxForce (A.M * B.M)
  | _, _, lowRank _ s U V S Kin _ =>
      let dS := denoteB S
      let dU := denoteB U
      let dK := denoteB Kin
      let dV := denoteB V
      let UK := boxForce (dU.M * dK.M)
      boxForce (dS.M + (s.val : K) • (UK.M * dV.M))

theorem denoteB_M {m n : ℕ} (e : MExpr K m n) : (denoteB e).M = denote e := by
  induction e with
  | blockDiag k a b iha ihb => simp [denoteB, denote, iha, ihb]
  | blockRow a b iha ihb => simp [denoteB, denote, iha, ihb]
  | blockCol a b iha ihb => simp [denoteB, denote, iha, ihb]
  | prod pk a b iha ihb => simp [denoteB, denote, iha, ihb]
  | lowRank kind s U V S Kin C ihU ihV ihS ihK ihC =>
    simp [denoteB, denote, ihU, ihV, ihS, ihK]
  | _ => simp [denoteB, denote]

def TriF.leftMulB {n p : ℕ} (f : TriF n K) (B : MatBox n p K) : MatBox n p K :=
  boxForce (f.denote * B.M)
def TriF.rightMulB {n p : ℕ} (B : MatBox p n K) (f : TriF n K) : MatBox p n K :=
  boxForce (B.M * f.denote)

def leftMulB : {m n : ℕ} → MExpr K m n → {p : ℕ} → MatBox n p K → MatBox m p K
  | _, _, identity _, _, B => B
  | _, _, scaledId _ _ c, _, B => ⟨c • B.M⟩
  | _, _, diag _ d, _, B => ⟨Matrix.of fun i j => d i * B.M i j⟩
  | _, _, tri f, _, B => TriF.leftMulB f B
  | _, _, triFact _ s f, _, B =>
      let t := TriF.leftMulB f.T B
      let u := TriF.leftMulB f t
      ⟨(s.val : K) • u.M⟩
  | _, _, denseDef _ _ A _, _, B => boxForce (A * B.M)
  | _, _, lu inverse A X, _, B => boxForce ((if inverse then X else A) * B.M)
  | _, _, denseSym A _ _, _, B => boxForce (A * B.M)
  | _, _, orth Q, _, B => boxForce (Q * B.M)
  | _, _, scaledOrth c Q, _, B =>
      let t := boxForce (Q * B.M)
      ⟨c • t.M⟩
  | _, _, eigSym _ Q ev, _, B =>
      let t := boxForce (Qᵀ * B.M)
      let u := boxForce (Matrix.of fun i j => ev i * t.M i j)
      boxForce (Q * u.M)
  | _, _, rect A, _, B => boxForce (A * B.M)
  | _, _, blockDiag _ a b, _, B =>
      let x := leftMulB a ⟨topRows B.M⟩
      let y := leftMulB b ⟨botRows B.M⟩
      ⟨bcol x.M y.M⟩
  | _, _, blockRow a b, _, B =>
      let x := leftMulB a ⟨topRows B.M⟩
      let y := leftMulB b ⟨botRows B.M⟩
      boxForce (x.M + y.M)
  | _, _, blockCol a b, _, B =>
      let x := leftMulB a B
      let y := leftMulB b B
      ⟨bcol x.M y.M⟩
  | _, _, prod _ a b, _, B => leftMulB a (leftMulB b B)
  | _, _, lowRank _ s U V S Kin _, _, B =>
      let x := leftMulB S B
      let y := leftMulB U (leftMulB Kin (leftMulB V B))
      boxForce (x.M + (s.val : K) • y.M)

theorem leftMulB_M {m n : ℕ} (e : MExpr K m n) :
    ∀ {p : ℕ} (B : MatBox n p K), (leftMulB e B).M = leftMul e B.M := by
  induction e with
  | blockDiag k a b iha ihb => intro p B; simp [leftMulB, leftMul, iha, ihb]
  | blockRow a b iha ihb => intro p B; simp [leftMulB, leftMul, iha, ihb]
  | blockCol a b iha ihb => intro p B; simp [leftMulB, leftMul, iha, ihb]
  | prod pk a b iha ihb => intro p B; simp [leftMulB, leftMul, iha, ihb]
  | lowRank kind s U V S Kin C ihU ihV ihS ihK ihC =>
    intro p B; simp [leftMulB, leftMul, ihU, ihV, ihS, ihK]
  | _ => intro p B; simp [leftMulB, leftMul, TriF.leftMulB, TriF.leftMul]

def rightMulB : {m n : ℕ} → {p : ℕ} → MatBox p m K → MExpr K m n → MatBox p n K
  | _, _, _, B, identity _ => B
  | _, _, _, B, scaledId _ _ c => ⟨c • B.M⟩
  | _, _, _, B, diag _ d => ⟨Matrix.of fun i j => d j * B.M i j⟩
  | _, _, _, B, tri f => TriF.rightMulB B f
  | _, _, _, B, triFact _ s f =>
      let t := TriF.rightMulB B f
      let u := TriF.rightMulB t f.T
      ⟨(s.val : K) • u.M⟩
  | _, _, _, B, denseDef _ _ A _ => boxForce (B.M * A)
  | _, _, _, B, lu inverse A X => boxForce (B.M * (if inverse then X else A))
  | _, _, _, B, denseSym A _ _ => boxForce (B.M * A)
  | _, _, _, B, orth Q => boxForce (B.M * Q)
  | _, _, _, B, scaledOrth c Q =>
      let t := boxForce (B.M * Q)
      ⟨c • t.M⟩
  | _, _, _, B, eigSym _ Q ev =>
      let t := boxForce (B.M * Q)
      let u := boxForce (Matrix.of fun i j => ev j * t.M i j)
      boxForce (u.M * Qᵀ)
  | _, _, _, B, rect A => boxForce (B.M * A)
  | _, _, _, B, blockDiag _ a b =>
      let x := rightMulB ⟨leftCols B.M⟩ a
      let y := rightMulB ⟨rightCols B.M⟩ b
      ⟨brow x.M y.M⟩
  | _, _, _, B, blockRow a b =>
      let x := rightMulB B a
      let y := rightMulB B b
      ⟨brow x.M y.M⟩
  | _, _, _, B, blockCol a b =>
      let x := rightMulB ⟨leftCols B.M⟩ a
      let y := rightMulB ⟨rightCols B.M⟩ b
      boxForce (x.M + y.M)
  | _, _, _, B, prod _ a b => rightMulB (rightMulB B a) b
  | _, _, _, B, lowRank _ s U V S Kin _ =>
      let x := rightMulB B S
      let t := rightMulB B U
      let y := rightMulB (rightMulB ⟨(s.val : K) • t.M⟩ Kin) V
      boxForce (x.M + y.M)

theorem rightMulB_M {m n : ℕ} (e : MExpr K m n) :
    ∀ {p : ℕ} (B : MatBox p m K), (rightMulB B e).M = rightMul B.M e := by
  induction e with
  | blockDiag k a b iha ihb => intro p B; simp [rightMulB, rightMul, iha, ihb]
  | blockRow a b iha ihb => intro p B; simp [rightMulB, rightMul, iha, ihb]
  | blockCol a b iha ihb => intro p B; simp [rightMulB, rightMul, iha, ihb]
  | prod pk a b iha ihb => intro p B; simp [rightMulB, rightMul, iha, ihb]
  | lowRank kind s U V S Kin C ihU ihV ihS ihK ihC =>
    intro p B; simp [rightMulB, rightMul, ihU, ihV, ihS, ihK]
  | _ => intro p B; simp [rightMulB, rightMul, TriF.rightMulB, TriF.rightMul]

def diagonalB : {m n : ℕ} → MExpr K m n → VecBox m K
  | _, _, identity _ => ⟨fun _ => 1⟩
  | _, _, scaledId _ _ c => ⟨fun _ => c⟩
  | _, _, diag _ d => ⟨d⟩
  | _, _, tri f => ⟨f.diagonal⟩
  | _, _, scaledOrth c Q => ⟨fun i => c * Q i i⟩
  | _, _, blockDiag _ a b =>
      let x := diagonalB a
      let y := diagonalB b
      ⟨Fin.append x.v y.v⟩
  | _, _, lowRank _ s U V S Kin _ =>
      let dS := diagonalB S
      let R := rightMulB (denoteB U) Kin
      let Vt := denoteB (T V)
      vecForce fun i => dS.v i + (s.val : K) * ∑ j, R.M i j * Vt.M i j
  | _, _, triFact pd s f => let D := denoteB (triFact pd s f); ⟨diagOf D.M⟩
  | _, _, denseDef _ _ A _ => ⟨diagOf A⟩
  | _, _, lu inverse A X => ⟨diagOf (if inverse then X else A)⟩
  | _, _, denseSym A _ _ => ⟨diagOf A⟩
  | _, _, orth Q => ⟨diagOf Q⟩
  | _, _, eigSym pd Q ev => let D := denoteB (eigSym pd Q ev); ⟨diagOf D.M⟩
  | _, _, rect A => ⟨diagOf A⟩
  | _, _, blockRow a b => let D := denoteB (blockRow a b); ⟨diagOf D.M⟩
  | _, _, blockCol a b => let D := denoteB (blockCol a b); ⟨diagOf D.M⟩
  | _, _, prod pk a b => let D := denoteB (prod pk a b); ⟨diagOf D.M⟩

theorem diagonalB_v {m n : ℕ} (e : MExpr K m n) : (diagonalB e).v = diagonal e := by
  induction e with
  | blockDiag k a b iha ihb => simp [diagonalB, diagonal, iha, ihb]
  | lowRank kind s U V S Kin C ihU ihV ihS ihK ihC =>
    simp [diagonalB, diagonal, ihS, rightMulB_M, denoteB_M]
  | _ => simp [diagonalB, diagonal, denoteB_M]

/-! ### Decidability (the driver decides `WF` before trusting any checked data) -/

def IsInv.dec : {m n : ℕ} → (e : MExpr K m n) → Decidable (IsInv e)
  | _, _, identity _ => isTrue trivial
  | _, _, scaledId _ _ _ => isTrue trivial
  | _, _, diag _ _ => isTrue trivial
  | _, _, tri _ => isTrue trivial
  | _, _, triFact _ _ _ => isTrue trivial
  | _, _, denseDef _ _ _ _ => isTrue trivial
  | _, _, lu _ _ _ => isTrue trivial
  | _, _, denseSym _ _ _ => isTrue trivial
  | _, _, orth _ => isTrue trivial
  | _, _, scaledOrth _ _ => isTrue trivial
  | _, _, eigSym _ _ _ => isTrue trivial
  | _, _, rect _ => isFalse (fun h => h)
  | _, _, blockDiag _ a b =>
      have := IsInv.dec a; have := IsInv.dec b
      by unfold IsInv; infer_instance
  | _, _, blockRow _ _ => isFalse (fun h => h)
  | _, _, blockCol _ _ => isFalse (fun h => h)
  | _, _, prod pk a b =>
      have := IsInv.dec a; have := IsInv.dec b
      by unfold IsInv; infer_instance
  | _, _, lowRank _ _ _ _ _ _ _ => isTrue trivial

instance {m n : ℕ} (e : MExpr K m n) : Decidable (IsInv e) := IsInv.dec e

def HasDet.dec : {m n : ℕ} → (e : MExpr K m n) → Decidable (HasDet e)
  | _, _, identity _ => isTrue trivial
  | _, _, scaledId _ _ _ => isTrue trivial
  | _, _, diag _ _ => isTrue trivial
  | _, _, tri _ => isTrue trivial
  | _, _, triFact _ _ _ => isTrue trivial
  | _, _, denseDef _ _ _ _ => isTrue trivial
  | _, _, lu _ _ _ => isTrue trivial
  | _, _, denseSym _ _ _ => isTrue trivial
  | _, _, orth _ => isTrue trivial
  | _, _, scaledOrth _ _ => isTrue trivial
  | _, _, eigSym _ _ _ => isTrue trivial
  | _, _, rect _ => isFalse (fun h => h)
  | _, _, blockDiag _ a b =>
      have := HasDet.dec a; have := HasDet.dec b
      by unfold HasDet; infer_instance
  | _, _, blockRow _ _ => isFalse (fun h => h)
  | _, _, blockCol _ _ => isFalse (fun h => h)
  | _, _, prod pk a b =>
      have := HasDet.dec a; have := HasDet.dec b
      by unfold HasDet; infer_instance
  | _, _, lowRank _ _ _ _ S Kin C =>
      have := HasDet.dec S; have := HasDet.dec Kin; have := HasDet.dec C
      by unfold HasDet; infer_instance

instance {m n : ℕ} (e : MExpr K m n) : Decidable (HasDet e) := HasDet.dec e

/-- `IsSymm` decided on values. -/
def IsSymm.dec [DecidableEq K] {n : ℕ} (e : MExpr K n n) : Decidable (IsSymm e) :=
  let D := denoteB e
  decidable_of_iff ((⟨D.Mᵀ⟩ : MatBox n n K).M = D.M) (by simp [IsSymm, D, denoteB_M])

instance [DecidableEq K] {n : ℕ} (e : MExpr K n n) : Decidable (IsSymm e) := IsSymm.dec e

def WF.dec [DecidableEq K] : {m n : ℕ} → (e : MExpr K m n) → Decidable (WF e)
  | _, _, identity _ => isTrue trivial
  | _, _, scaledId _ _ _ => by unfold WF; infer_instance
  | _, _, diag _ _ => by unfold WF; infer_instance
  | _, _, tri _ => by unfold WF; infer_instance
  | _, _, triFact _ _ _ => by unfold WF; infer_instance
  | _, _, denseDef _ _ _ _ => by unfold WF; infer_instance
  | _, _, lu _ _ _ => by unfold WF; infer_instance
  | _, _, denseSym _ _ _ => by unfold WF; infer_instance
  | _, _, orth _ => by unfold WF; infer_instance
  | _, _, scaledOrth _ _ => by unfold WF; infer_instance
  | _, _, eigSym _ _ _ => by unfold WF; infer_instance
  | _, _, rect _ => isTrue trivial
  | _, _, blockDiag _ a b =>
      have := WF.dec a; have := WF.dec b
      by unfold WF; infer_instance
  | _, _, blockRow a b =>
      have := WF.dec a; have := WF.dec b
      by unfold WF; infer_instance
  | _, _, blockCol a b =>
      have := WF.dec a; have := WF.dec b
      by unfold WF; infer_instance
  | _, _, prod _ a b =>
      have := WF.dec a; have := WF.dec b
      by unfold WF; infer_instance
  | _, _, lowRank _ s U V S Kin C =>
      have := WF.dec U; have := WF.dec V; have := WF.dec S; have := WF.dec Kin; have := WF.dec C
      have : Decidable (denote C = denote (inv Kin) + (s.val : K) • (denote V * denote (inv S) * denote U)) :=
        let dC := denoteB C
        let dKi := denoteB (inv Kin)
        let dV := denoteB V
        let dSi := denoteB (inv S)
        let dU := denoteB U
        let rhs := boxForce (dKi.M + (s.val : K) • (dV.M * dSi.M * dU.M))
        decidable_of_iff (dC.M = rhs.M) (by simp [dC, dKi, dV, dSi, dU, rhs, denoteB_M])
      have : Decidable (denote V = (denote U)ᵀ) :=
        let dV := denoteB V
        let dU := denoteB U
        decidable_of_iff (dV.M = (⟨dU.Mᵀ⟩ : MatBox _ _ K).M) (by simp [dV, dU, denoteB_M])
      by unfold WF; infer_instance

instance [DecidableEq K] {m n : ℕ} (e : MExpr K m n) : Decidable (WF e) := WF.dec e

end MExpr
end MiciVerif.Matrices
