/-
Value-level evaluator for the C10 model.

`Matrix` is a function type, and Lean's compiler eta-expands definitions of function type: an
expression such as `denote e` is then a partial application that is re-run for every entry that
is read.  The functions below return *structures* (`MatBox`, `VecBox`), so each node of an
expression is computed (and tabulated) exactly once.  Each evaluator is proved equal to the pure
model function the theorems are about (`denoteB_M`, `leftMulB_M`, `rightMulB_M`, `diagonalB_v`),
and `WF` is decided through them.
-/
import MiciVerif.Model.Matrices

namespace MiciVerif.Matrices
open Matrix

structure VecBox (n : ℕ) (K : Type) where
  v : Fin n → K

def vecForce {K : Type} {n : ℕ} (f : Fin n → K) : VecBox n K :=
  let tbl : Array K := Array.ofFn f
  ⟨fun i => if h : i.val < tbl.size then tbl[i.val] else f i⟩

@[simp] theorem vecForce_v {K : Type} {n : ℕ} (f : Fin n → K) : (vecForce f).v = f := by
  funext i; simp [vecForce]

/-! Box-level primitives.  They are `@[noinline]` functions of *values*, so their arguments are
evaluated exactly once before the call (the compiler cannot move the argument computations into
the entry-wise closures). -/
section Prims
variable {K : Type} [Field K] {l m n p : ℕ}
@[noinline] def mulB (A : MatBox l m K) (B : MatBox m n K) : MatBox l n K := boxForce (A.M * B.M)
@[noinline] def addB (A B : MatBox m n K) : MatBox m n K := boxForce (A.M + B.M)
@[noinline] def smulB (c : K) (A : MatBox m n K) : MatBox m n K := boxForce (c • A.M)
@[noinline] def transposeB (A : MatBox m n K) : MatBox n m K := ⟨A.Mᵀ⟩
@[noinline] def rowScaleB (d : Fin m → K) (A : MatBox m n K) : MatBox m n K :=
  boxForce (Matrix.of fun i j => d i * A.M i j)
@[noinline] def colScaleB (d : Fin n → K) (A : MatBox m n K) : MatBox m n K :=
  boxForce (Matrix.of fun i j => d j * A.M i j)
@[noinline] def bdiagB (A : MatBox m m K) (B : MatBox n n K) : MatBox (m + n) (m + n) K := ⟨bdiag A.M B.M⟩
@[noinline] def browB (A : MatBox m n K) (B : MatBox m p K) : MatBox m (n + p) K := ⟨brow A.M B.M⟩
@[noinline] def bcolB (A : MatBox m n K) (B : MatBox p n K) : MatBox (m + p) n K := ⟨bcol A.M B.M⟩
@[noinline] def topRowsB (B : MatBox (m + n) p K) : MatBox m p K := ⟨topRows B.M⟩
@[noinline] def botRowsB (B : MatBox (m + n) p K) : MatBox n p K := ⟨botRows B.M⟩
@[noinline] def leftColsB (B : MatBox p (m + n) K) : MatBox p m K := ⟨leftCols B.M⟩
@[noinline] def rightColsB (B : MatBox p (m + n) K) : MatBox p n K := ⟨rightCols B.M⟩
@[noinline] def diagOfB (A : MatBox m n K) : VecBox m K := vecForce (diagOf A.M)
@[noinline] def appendB (x : VecBox m K) (y : VecBox n K) : VecBox (m + n) K := ⟨Fin.append x.v y.v⟩
@[noinline] def lrDiagB (c : K) (dS : VecBox m K) (R Vt : MatBox m n K) : VecBox m K :=
  vecForce fun i => dS.v i + c * ∑ j, R.M i j * Vt.M i j
end Prims

namespace MExpr
variable {K : Type} [Field K]

def denoteB : {m n : ℕ} → MExpr K m n → MatBox m n K
  | _, _, identity _ => ⟨1⟩
  | _, _, scaledId _ _ c => ⟨c • (1 : Mat _ _ K)⟩
  | _, _, diag _ d => ⟨Matrix.diagonal d⟩
  | _, _, tri f => ⟨f.denote⟩
  | _, _, triFact _ s f => smulB (s.val : K) (mulB ⟨f.denote⟩ ⟨f.denoteᵀ⟩)
  | _, _, denseDef _ _ A _ => ⟨A⟩
  | _, _, lu inverse A X => ⟨if inverse then X else A⟩
  | _, _, denseSym A _ _ => ⟨A⟩
  | _, _, orth Q => ⟨Q⟩
  | _, _, scaledOrth c Q => smulB c ⟨Q⟩
  | _, _, eigSym _ Q ev => mulB (colScaleB ev ⟨Q⟩) ⟨Qᵀ⟩
  | _, _, rect A => ⟨A⟩
  | _, _, blockDiag _ a b => bdiagB (denoteB a) (denoteB b)
  | _, _, blockRow a b => browB (denoteB a) (denoteB b)
  | _, _, blockCol a b => bcolB (denoteB a) (denoteB b)
  | _, _, prod _ a b => mulB (denoteB a) (denoteB b)
  | _, _, lowRank _ s U V S Kin _ =>
      addB (denoteB S) (smulB (s.val : K) (mulB (mulB (denoteB U) (denoteB Kin)) (denoteB V)))

theorem colScale_eq {m n : ℕ} (d : Fin n → K) (A : Mat m n K) :
    (Matrix.of fun i j => d j * A i j) = A * Matrix.diagonal d := by
  ext i j; simp [Matrix.mul_diagonal, mul_comm]

theorem rowScale_eq {m n : ℕ} (d : Fin m → K) (A : Mat m n K) :
    (Matrix.of fun i j => d i * A i j) = Matrix.diagonal d * A := by
  ext i j; simp [Matrix.diagonal_mul]

theorem denoteB_M {m n : ℕ} (e : MExpr K m n) : (denoteB e).M = denote e := by
  induction e with
  | blockDiag k a b iha ihb => simp [denoteB, denote, bdiagB, iha, ihb]
  | blockRow a b iha ihb => simp [denoteB, denote, browB, iha, ihb]
  | blockCol a b iha ihb => simp [denoteB, denote, bcolB, iha, ihb]
  | prod pk a b iha ihb => simp [denoteB, denote, mulB, iha, ihb]
  | lowRank kind s U V S Kin C ihU ihV ihS ihK ihC =>
    simp [denoteB, denote, addB, smulB, mulB, ihU, ihV, ihS, ihK]
  | _ => simp [denoteB, denote, smulB, mulB, colScaleB, colScale_eq]

def leftMulB : {m n : ℕ} → MExpr K m n → {p : ℕ} → MatBox n p K → MatBox m p K
  | _, _, identity _, _, B => B
  | _, _, scaledId _ _ c, _, B => smulB c B
  | _, _, diag _ d, _, B => rowScaleB d B
  | _, _, tri f, _, B => mulB ⟨f.denote⟩ B
  | _, _, triFact _ s f, _, B => smulB (s.val : K) (mulB ⟨f.denote⟩ (mulB ⟨f.T.denote⟩ B))
  | _, _, denseDef _ _ A _, _, B => mulB ⟨A⟩ B
  | _, _, lu inverse A X, _, B => mulB ⟨if inverse then X else A⟩ B
  | _, _, denseSym A _ _, _, B => mulB ⟨A⟩ B
  | _, _, orth Q, _, B => mulB ⟨Q⟩ B
  | _, _, scaledOrth c Q, _, B => smulB c (mulB ⟨Q⟩ B)
  | _, _, eigSym _ Q ev, _, B => mulB ⟨Q⟩ (rowScaleB ev (mulB ⟨Qᵀ⟩ B))
  | _, _, rect A, _, B => mulB ⟨A⟩ B
  | _, _, blockDiag _ a b, _, B => bcolB (leftMulB a (topRowsB B)) (leftMulB b (botRowsB B))
  | _, _, blockRow a b, _, B => addB (leftMulB a (topRowsB B)) (leftMulB b (botRowsB B))
  | _, _, blockCol a b, _, B => bcolB (leftMulB a B) (leftMulB b B)
  | _, _, prod _ a b, _, B => leftMulB a (leftMulB b B)
  | _, _, lowRank _ s U V S Kin _, _, B =>
      addB (leftMulB S B) (smulB (s.val : K) (leftMulB U (leftMulB Kin (leftMulB V B))))

theorem leftMulB_M {m n : ℕ} (e : MExpr K m n) :
    ∀ {p : ℕ} (B : MatBox n p K), (leftMulB e B).M = leftMul e B.M := by
  induction e with
  | blockDiag k a b iha ihb => intro p B; simp [leftMulB, leftMul, bcolB, topRowsB, botRowsB, iha, ihb]
  | blockRow a b iha ihb => intro p B; simp [leftMulB, leftMul, addB, topRowsB, botRowsB, iha, ihb]
  | blockCol a b iha ihb => intro p B; simp [leftMulB, leftMul, bcolB, iha, ihb]
  | prod pk a b iha ihb => intro p B; simp [leftMulB, leftMul, iha, ihb]
  | lowRank kind s U V S Kin C ihU ihV ihS ihK ihC =>
    intro p B; simp [leftMulB, leftMul, addB, smulB, ihU, ihV, ihS, ihK]
  | _ => intro p B; simp [leftMulB, leftMul, TriF.leftMul, smulB, mulB, rowScaleB]

def rightMulB : {m n : ℕ} → {p : ℕ} → MatBox p m K → MExpr K m n → MatBox p n K
  | _, _, _, B, identity _ => B
  | _, _, _, B, scaledId _ _ c => smulB c B
  | _, _, _, B, diag _ d => colScaleB d B
  | _, _, _, B, tri f => mulB B ⟨f.denote⟩
  | _, _, _, B, triFact _ s f => smulB (s.val : K) (mulB (mulB B ⟨f.denote⟩) ⟨f.T.denote⟩)
  | _, _, _, B, denseDef _ _ A _ => mulB B ⟨A⟩
  | _, _, _, B, lu inverse A X => mulB B ⟨if inverse then X else A⟩
  | _, _, _, B, denseSym A _ _ => mulB B ⟨A⟩
  | _, _, _, B, orth Q => mulB B ⟨Q⟩
  | _, _, _, B, scaledOrth c Q => smulB c (mulB B ⟨Q⟩)
  | _, _, _, B, eigSym _ Q ev => mulB (colScaleB ev (mulB B ⟨Q⟩)) ⟨Qᵀ⟩
  | _, _, _, B, rect A => mulB B ⟨A⟩
  | _, _, _, B, blockDiag _ a b => browB (rightMulB (leftColsB B) a) (rightMulB (rightColsB B) b)
  | _, _, _, B, blockRow a b => browB (rightMulB B a) (rightMulB B b)
  | _, _, _, B, blockCol a b => addB (rightMulB (leftColsB B) a) (rightMulB (rightColsB B) b)
  | _, _, _, B, prod _ a b => rightMulB (rightMulB B a) b
  | _, _, _, B, lowRank _ s U V S Kin _ =>
      addB (rightMulB B S) (rightMulB (rightMulB (smulB (s.val : K) (rightMulB B U)) Kin) V)

theorem rightMulB_M {m n : ℕ} (e : MExpr K m n) :
    ∀ {p : ℕ} (B : MatBox p m K), (rightMulB B e).M = rightMul B.M e := by
  induction e with
  | blockDiag k a b iha ihb => intro p B; simp [rightMulB, rightMul, browB, leftColsB, rightColsB, iha, ihb]
  | blockRow a b iha ihb => intro p B; simp [rightMulB, rightMul, browB, iha, ihb]
  | blockCol a b iha ihb => intro p B; simp [rightMulB, rightMul, addB, leftColsB, rightColsB, iha, ihb]
  | prod pk a b iha ihb => intro p B; simp [rightMulB, rightMul, iha, ihb]
  | lowRank kind s U V S Kin C ihU ihV ihS ihK ihC =>
    intro p B; simp [rightMulB, rightMul, addB, smulB, ihU, ihV, ihS, ihK]
  | _ => intro p B; simp [rightMulB, rightMul, TriF.rightMul, smulB, mulB, colScaleB]

def diagonalB : {m n : ℕ} → MExpr K m n → VecBox m K
  | _, _, identity _ => ⟨fun _ => 1⟩
  | _, _, scaledId _ _ c => ⟨fun _ => c⟩
  | _, _, diag _ d => ⟨d⟩
  | _, _, tri f => ⟨f.diagonal⟩
  | _, _, scaledOrth c Q => ⟨fun i => c * Q i i⟩
  | _, _, blockDiag _ a b => appendB (diagonalB a) (diagonalB b)
  | _, _, lowRank _ s U V S Kin _ =>
      lrDiagB (s.val : K) (diagonalB S) (rightMulB (denoteB U) Kin) (denoteB (T V))
  | _, _, triFact pd s f => diagOfB (denoteB (triFact pd s f))
  | _, _, denseDef _ _ A _ => ⟨diagOf A⟩
  | _, _, lu inverse A X => ⟨diagOf (if inverse then X else A)⟩
  | _, _, denseSym A _ _ => ⟨diagOf A⟩
  | _, _, orth Q => ⟨diagOf Q⟩
  | _, _, eigSym pd Q ev => diagOfB (denoteB (eigSym pd Q ev))
  | _, _, rect A => ⟨diagOf A⟩
  | _, _, blockRow a b => diagOfB (denoteB (blockRow a b))
  | _, _, blockCol a b => diagOfB (denoteB (blockCol a b))
  | _, _, prod pk a b => diagOfB (denoteB (prod pk a b))

theorem diagonalB_v {m n : ℕ} (e : MExpr K m n) : (diagonalB e).v = diagonal e := by
  induction e with
  | blockDiag k a b iha ihb => simp [diagonalB, diagonal, appendB, iha, ihb]
  | lowRank kind s U V S Kin C ihU ihV ihS ihK ihC =>
    simp [diagonalB, diagonal, lrDiagB, ihS, rightMulB_M, denoteB_M]
  | _ => simp [diagonalB, diagonal, diagOfB, denoteB_M]

/-! ### Decidability (the driver decides `WF` before trusting any checked data) -/

def IsInv.dec : {m n : ℕ} → (e : MExpr K m n) → Decidable (IsInv e)
  | _, _, identity _ => isTrue trivial
  | _, _, scaledId _ _ _ => isTrue trivial
  | _, _, diag _ _ => isTrue trivial
  | _, _, tri _ => isTrue trivial
  | _, _, triFact _ _ _ => isTrue trivial
  | _, _, denseDef _ _ _ _ => isTrue trivial
  | _, _, lu _ _ _ => isTrue trivial
  | _, _, denseSym _ _ _ => isTrue trivial
  | _, _, orth _ => isTrue trivial
  | _, _, scaledOrth _ _ => isTrue trivial
  | _, _, eigSym _ _ _ => isTrue trivial
  | _, _, rect _ => isFalse (fun h => h)
  | _, _, blockDiag _ a b =>
      have := IsInv.dec a; have := IsInv.dec b
      by unfold IsInv; infer_instance
  | _, _, blockRow _ _ => isFalse (fun h => h)
  | _, _, blockCol _ _ => isFalse (fun h => h)
  | _, _, prod pk a b =>
      have := IsInv.dec a; have := IsInv.dec b
      by unfold IsInv; infer_instance
  | _, _, lowRank _ _ _ _ _ _ _ => isTrue trivial

instance {m n : ℕ} (e : MExpr K m n) : Decidable (IsInv e) := IsInv.dec e

def HasDet.dec : {m n : ℕ} → (e : MExpr K m n) → Decidable (HasDet e)
  | _, _, identity _ => isTrue trivial
  | _, _, scaledId _ _ _ => isTrue trivial
  | _, _, diag _ _ => isTrue trivial
  | _, _, tri _ => isTrue trivial
  | _, _, triFact _ _ _ => isTrue trivial
  | _, _, denseDef _ _ _ _ => isTrue trivial
  | _, _, lu _ _ _ => isTrue trivial
  | _, _, denseSym _ _ _ => isTrue trivial
  | _, _, orth _ => isTrue trivial
  | _, _, scaledOrth _ _ => isTrue trivial
  | _, _, eigSym _ _ _ => isTrue trivial
  | _, _, rect _ => isFalse (fun h => h)
  | _, _, blockDiag _ a b =>
      have := HasDet.dec a; have := HasDet.dec b
      by unfold HasDet; infer_instance
  | _, _, blockRow _ _ => isFalse (fun h => h)
  | _, _, blockCol _ _ => isFalse (fun h => h)
  | _, _, prod pk a b =>
      have := HasDet.dec a; have := HasDet.dec b
      by unfold HasDet; infer_instance
  | _, _, lowRank _ _ _ _ S Kin C =>
      have := HasDet.dec S; have := HasDet.dec Kin; have := HasDet.dec C
      by unfold HasDet; infer_instance

instance {m n : ℕ} (e : MExpr K m n) : Decidable (HasDet e) := HasDet.dec e

/-- `IsSymm` decided on values. -/
def IsSymm.dec [DecidableEq K] {n : ℕ} (e : MExpr K n n) : Decidable (IsSymm e) :=
  decidable_of_iff ((transposeB (denoteB e)).M = (denoteB e).M) (by simp [IsSymm, transposeB, denoteB_M])

instance [DecidableEq K] {n : ℕ} (e : MExpr K n n) : Decidable (IsSymm e) := IsSymm.dec e

def WF.dec [DecidableEq K] : {m n : ℕ} → (e : MExpr K m n) → Decidable (WF e)
  | _, _, identity _ => isTrue trivial
  | _, _, scaledId _ _ _ => by unfold WF; infer_instance
  | _, _, diag _ _ => by unfold WF; infer_instance
  | _, _, tri _ => by unfold WF; infer_instance
  | _, _, triFact _ _ _ => by unfold WF; infer_instance
  | _, _, denseDef _ _ _ _ => by unfold WF; infer_instance
  | _, _, lu _ _ _ => by unfold WF; infer_instance
  | _, _, denseSym _ _ _ => by unfold WF; infer_instance
  | _, _, orth _ => by unfold WF; infer_instance
  | _, _, scaledOrth _ _ => by unfold WF; infer_instance
  | _, _, eigSym _ _ _ => by unfold WF; infer_instance
  | _, _, rect _ => isTrue trivial
  | _, _, blockDiag _ a b =>
      have := WF.dec a; have := WF.dec b
      by unfold WF; infer_instance
  | _, _, blockRow a b =>
      have := WF.dec a; have := WF.dec b
      by unfold WF; infer_instance
  | _, _, blockCol a b =>
      have := WF.dec a; have := WF.dec b
      by unfold WF; infer_instance
  | _, _, prod _ a b =>
      have := WF.dec a; have := WF.dec b
      by unfold WF; infer_instance
  | _, _, lowRank _ s U V S Kin C =>
      have := WF.dec U; have := WF.dec V; have := WF.dec S; have := WF.dec Kin; have := WF.dec C
      have : Decidable (denote C = denote (inv Kin) + (s.val : K) • (denote V * denote (inv S) * denote U)) :=
        decidable_of_iff ((denoteB C).M = (addB (denoteB (inv Kin)) (smulB (s.val : K)
            (mulB (mulB (denoteB V) (denoteB (inv S))) (denoteB U)))).M)
          (by simp [addB, smulB, mulB, denoteB_M])
      have : Decidable (denote V = (denote U)ᵀ) :=
        decidable_of_iff ((denoteB V).M = (transposeB (denoteB U)).M) (by simp [transposeB, denoteB_M])
      by unfold WF; infer_instance

instance [DecidableEq K] {m n : ℕ} (e : MExpr K m n) : Decidable (WF e) := WF.dec e

end MExpr
end MiciVerif.Matrices
