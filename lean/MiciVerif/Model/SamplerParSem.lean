/-
A reading of the WORKER / QUEUE part of the parallel mode of `mici.samplers` on the model's state
(extension of `Skel.Sem`, `Model/SamplerSkeleton.lean`, which reads the stage loop, `_sample_chain`,
`_sample_chains_sequential` and the collation block of `_sample_chains_parallel`).

* `ParSem.workerPlan?` recognises the statements of `_sample_chains_worker` (generated from the
  current source by `tools/extractors/sampler_skeleton.py`) and maps them to abstract actions;
  `ParSem.takePass` executes the actions of one pass of `while not chain_queue.empty()` in SOURCE
  ORDER on the worker's variables: the item taken from the chain queue, the result of `_sample_chain`
  run on the worker's own transition objects and on the COPY of the chain's generator that came with
  the item, the generator state read from that copy at the place where the source reads it, the
  indexed output appended, the `KeyboardInterrupt` item put on the iteration queue, `break`.
* `ParSem.parPlan?` recognises the whole body of `_sample_chains_parallel`: the loop that fills the
  chain queue, the start of `n_process` workers, the parent's loop over the iteration queue, the
  collation block (B5's `Sem.collatePlan?`), the return.
* `ParSem.poolRun`: the chain queue is a FIFO list; a schedule `σ : List Nat` names, pop by pop, the
  worker that performs the next `chain_queue.get`; a worker that has left its loop (after an
  interrupted chain) or does not exist takes nothing (the item stays for the others); with an empty
  queue every `while not chain_queue.empty()` is left.
* `ParSem.poolPass`: the stage as the parent sees it: fill, pool under `σ`, parent loop over the
  iteration-queue items, collation (`Sem.collatePass`).

`Props/C14P.lean` / `C15P.lean` prove that the readings of the bodies generated from the current
source are the model's `workerRun` / `stagePar`, for every kernel, number of workers, schedule and
interrupt point, and transport the C14 / C15 theorems to the reading.

Trusted conventions (visible in the definitions below, exercised by the C14 / C15 correspondence runs):
* `manager.Queue` is FIFO per producer and delivers every item exactly once (`Pool.queue` is a list,
  a `get` removes its head; the iteration queue is the list of the items in the order they arrived);
* `pool.starmap_async(f, [args for p in range(n_process)])` runs `f` once per argument tuple, each in a
  process with its own copy of `common_kwargs` (`Worker.params` starts from the parent's `p` and is
  never written back), `results.get()` returns the workers' return values in argument order after all
  of them have returned;
* pickling is a deep copy: the generator inside a queue item is a copy of the parent's (`Chain.rng` by
  value); what a worker does to it is invisible to the parent except through the returned state;
* the output arrays are files named by the queue item: what a chain run wrote is what the parent finds
  (`WOut.mem`, applied by `applyRun` per returned output; every chain is taken at most once
  - `poolModel_perm` - so the order of application is immaterial);
* the parent's loop ends when the item stream is exhausted (all workers have returned) unless it has
  left by `break`; progress items only feed the progress bars; the `AdaptationError` / worker-exception
  paths are recognised but not modelled (the model's kernels raise nothing but the interrupt).

Core Lean only.
-/
import MiciVerif.Model.SamplerSkeleton

namespace MiciVerif.Skel.ParSem
open MiciVerif.Sampler MiciVerif.Stagers MiciVerif.Skel

/-! ## worker -/

/-- what travels on the iteration queue -/
inductive Item where
  /-- `(chain_index, sample_index, data_dict)` put by `_ProxySequenceProgressBar` -/
  | progress
  /-- `None`: a chain ended by an `AdaptationError` -/
  | done
  /-- the `KeyboardInterrupt` returned by `_sample_chain` -/
  | interrupt
  deriving DecidableEq, Repr

/-- statements of the `else` branch of `if isinstance(exception, AdaptationError)` (also accepted at
the top level of the loop body, so that a changed position is READ rather than rejected) -/
inductive WInner where
  /-- `rng_state = chain_kwargs["rng"].bit_generator.state` -/
  | readRngState
  /-- `chain_outputs.append((chain_index, (*outputs, rng_state)))` -/
  | appendIndexed
  deriving DecidableEq, Repr

/-- statements of the branch `if isinstance(exception, KeyboardInterrupt)` of the worker -/
inductive WIntr where
  /-- `iter_queue.put(exception)` -/
  | putInterrupt
  /-- `break` -/
  | brk
  deriving DecidableEq, Repr

/-- abstract actions of one pass of `while not chain_queue.empty()` (the body of its `try`) -/
inductive WAct where
  /-- `chain_index, n_iter, chain_kwargs = chain_queue.get(block=False)` -/
  | takeChain
  /-- `with context: *outputs, exception = _sample_chain(chain_index=chain_index,
  chain_iterator=_ProxySequenceProgressBar(range(n_iter), chain_index, iter_queue), load_memmaps=True,
  **chain_kwargs, **common_kwargs)` -/
  | runChain
  | inner (a : WInner)
  /-- `if isinstance(exception, AdaptationError): iter_queue.put(None)  else: <acts>` -/
  | unlessAdaptError (acts : List WInner)
  /-- `if isinstance(exception, KeyboardInterrupt): <acts>` -/
  | ifInterrupted (acts : List WIntr)
  deriving DecidableEq, Repr

def wInner? (s : S) : Option WInner :=
  if s = .assign (.v "rng_state") (.attr (.attr (.sub (.v "chain_kwargs") (.s "rng")) "bit_generator") "state")
    then some .readRngState
  else if s = .expr (.call "chain_outputs.append"
      (E.l [.tup (E.l [.v "chain_index", .tup (E.l [.star (.v "outputs"), .v "rng_state"])])]))
    then some .appendIndexed
  else Option.none

def wInnerPlan : List S → Option (List WInner)
  | [] => some []
  | s :: l => (wInner? s).bind fun a => (wInnerPlan l).map fun as => a :: as

def wIntr? (s : S) : Option WIntr :=
  if s = .expr (.call "iter_queue.put" (E.l [.v "exception"])) then some .putInterrupt
  else if s = .brk then some .brk
  else Option.none

def wIntrPlan : List S → Option (List WIntr)
  | [] => some []
  | s :: l => (wIntr? s).bind fun a => (wIntrPlan l).map fun as => a :: as

def wAct? (s : S) : Option WAct :=
  if s = .assign (.tup (E.l [.v "chain_index", .v "n_iter", .v "chain_kwargs"]))
      (.call "chain_queue.get" (E.l [.kw "block" (.v "False")]))
    then some .takeChain
  else if s = .with_ (E.l [.v "context"])
      (S.b [.assign (.tup (E.l [.star (.v "outputs"), .v "exception"]))
        (.call "_sample_chain" (E.l [.kw "chain_index" (.v "chain_index"),
          .kw "chain_iterator" (.call "_ProxySequenceProgressBar"
            (E.l [.call "range" (E.l [.v "n_iter"]), .v "chain_index", .v "iter_queue"])),
          .kw "load_memmaps" (.v "True"), .kwstar (.v "chain_kwargs"), .kwstar (.v "common_kwargs")]))])
    then some .runChain
  else match s with
    | .ifc c t f =>
      if c = .call "isinstance" (E.l [.v "exception", .v "AdaptationError"])
          ∧ t = S.b [.expr (.call "iter_queue.put" (E.l [.none]))] then
        (wInnerPlan f.stmts).map .unlessAdaptError
      else if c = .call "isinstance" (E.l [.v "exception", .v "KeyboardInterrupt"]) ∧ f = S.b [] then
        (wIntrPlan t.stmts).map .ifInterrupted
      else Option.none
    | s => (wInner? s).map .inner

def wActPlan : List S → Option (List WAct)
  | [] => some []
  | s :: l => (wAct? s).bind fun a => (wActPlan l).map fun as => a :: as

/-- Recognise the body of `_sample_chains_worker`:
`chain_outputs = []; while not chain_queue.empty(): try: <acts> except queue.Empty: pass
except Exception as exception: iter_queue.put(exception); return chain_outputs`
and return the actions of the `try` body. -/
def workerPlan? (body : List S) : Option (List WAct) :=
  match body with
  | [a, .while_ c (.seq (.try_ tb th te tf) .skip), r] =>
    if a = .assign (.v "chain_outputs") (.lst (E.l []))
        ∧ c = .op "not" (E.l [.call "chain_queue.empty" (E.l [])])
        ∧ th = S.b [.handler (.v "queue.Empty") "" (S.b []),
                    .handler (.v "Exception") "exception"
                      (S.b [.expr (.call "iter_queue.put" (E.l [.v "exception"]))])]
        ∧ te = S.b [] ∧ tf = S.b []
        ∧ r = .ret (.v "chain_outputs") then
      wActPlan tb.stmts
    else Option.none
  | _ => Option.none

/-- a worker process as the parent can observe it -/
structure Worker (St V A P : Type) where
  /-- its copy of `common_kwargs['transitions']` -/
  params : P
  /-- `chain_outputs` (with the files / ghost log of each chain, see `WOut`) -/
  outs : List (WOut St V A)
  /-- ghost: the chain indices it has taken from the queue, in order -/
  taken : List Nat
  /-- it has left `while not chain_queue.empty()` by `break` -/
  stopped : Bool

/-- variables of one pass of the worker's loop -/
structure WVars (St V A P : Type) where
  /-- `(chain_index, chain_kwargs)`: the item taken -/
  cur : Option (Nat × Chain St V)
  /-- `(*outputs, exception)` with the state of the generator COPY, the files and the ghost log after the call -/
  run : Option (Run St V A P)
  /-- `rng_state` -/
  rngState : Option Rng
  wk : Worker St V A P
  /-- items put on the iteration queue in this pass -/
  items : List Item
  broke : Bool

def runInner {St V A P} : List WInner → WVars St V A P → Option (WVars St V A P)
  | [], v => some v
  | .readRngState :: l, v =>
    match v.cur with
    | some (_, ch) =>
      -- the state of `chain_kwargs["rng"]` NOW: the copy as it came with the item before the chain has
      -- run, where `_sample_chain` left it afterwards
      runInner l { v with rngState := some (match v.run with | some r => r.ctx.rng | Option.none => ch.rng) }
    | Option.none => Option.none
  | .appendIndexed :: l, v =>
    match v.cur, v.run, v.rngState with
    | some (c, _), some r, some g =>
      runInner l { v with wk := { v.wk with
        outs := v.wk.outs ++ [⟨⟨c, r.ctx.state, r.ctx.adapt, g⟩, r.mem, r.ctx.log, r.halted⟩] } }
    | _, _, _ => Option.none

def runIntr {St V A P} : List WIntr → WVars St V A P → WVars St V A P
  | [], v => v
  | .putInterrupt :: l, v => runIntr l { v with items := v.items ++ [.interrupt] }
  | .brk :: _, v => { v with broke := true }

/-- Execute the actions of one pass in source order; `item` is what `chain_queue.get` delivers. -/
def runWActs {St V A P} (K : Kernel St V A P) (st : Stage) (offset : Nat)
    (intr : Option (Nat × Nat × Nat)) (item : Nat × Chain St V) :
    List WAct → WVars St V A P → Option (WVars St V A P)
  | [], v => some v
  | .takeChain :: l, v =>
    runWActs K st offset intr item l
      { v with cur := some item, run := Option.none, wk := { v.wk with taken := v.wk.taken ++ [item.1] } }
  | .runChain :: l, v =>
    match v.cur with
    | some (c, ch) =>
      let r := sampleChain K st offset (chainIntr intr c) v.wk.params ch.state ch.rng ch.log ch.mem
      runWActs K st offset intr item l { v with run := some r, wk := { v.wk with params := r.ctx.params } }
    | Option.none => Option.none
  | .inner a :: l, v => (runInner [a] v).bind (runWActs K st offset intr item l)
  | .unlessAdaptError acts :: l, v =>
    -- `isinstance(exception, AdaptationError)` never holds for the model's kernels
    (runInner acts v).bind (runWActs K st offset intr item l)
  | .ifInterrupted acts :: l, v =>
    match v.run with
    | some r =>
      if r.halted then
        let v' := runIntr acts v
        if v'.broke then some v' else runWActs K st offset intr item l v'
      else runWActs K st offset intr item l v
    | Option.none => Option.none

/-- One pass of the worker's loop read from the actions: the worker afterwards and what it put on the
iteration queue. -/
def takePass {St V A P} (acts : List WAct) (K : Kernel St V A P) (st : Stage) (offset : Nat)
    (intr : Option (Nat × Nat × Nat)) (c : Nat) (ch : Chain St V) (wk : Worker St V A P) :
    Option (Worker St V A P × List Item) :=
  (runWActs K st offset intr (c, ch) acts ⟨Option.none, Option.none, Option.none, wk, [], false⟩).map fun v =>
    ({ v.wk with stopped := v.broke }, v.items)

/-- What one pass of the worker's loop is in the model (`Sampler.workerRun`, one chain): the chain is
run with the worker's parameters on the item's copy of the chain data, the output is tagged with the
chain index and carries the generator state reached by the copy, an interrupted chain is reported
on the iteration queue and ends the loop. -/
def modelTake {St V A P} (K : Kernel St V A P) (st : Stage) (offset : Nat)
    (intr : Option (Nat × Nat × Nat)) (c : Nat) (ch : Chain St V) (wk : Worker St V A P) :
    Worker St V A P × List Item :=
  let r := sampleChain K st offset (chainIntr intr c) wk.params ch.state ch.rng ch.log ch.mem
  (⟨r.ctx.params, wk.outs ++ [⟨⟨c, r.ctx.state, r.ctx.adapt, r.ctx.rng⟩, r.mem, r.ctx.log, r.halted⟩],
    wk.taken ++ [c], r.halted⟩,
   if r.halted then [.interrupt] else [])

/-! ## the pool -/

structure Pool (St V A P : Type) where
  /-- the chain queue: `(chain_index, chain_kwargs)` items not yet taken, FIFO -/
  queue : List (Nat × Chain St V)
  /-- the worker processes `0 … n_process - 1` -/
  workers : Nat → Worker St V A P
  /-- the interrupt / done items on the iteration queue, in order of arrival -/
  iterQ : List Item

/-- worker `w` performs the next `chain_queue.get` (if it exists, is still in its loop and the queue
is not empty) and runs one pass of its loop on the item -/
def poolStep {St V A P} (take : Nat → Chain St V → Worker St V A P → Option (Worker St V A P × List Item))
    (np : Nat) (pl : Pool St V A P) (w : Nat) : Option (Pool St V A P) :=
  match pl.queue with
  | [] => some pl
  | (c, ch) :: rest =>
    if w < np ∧ (pl.workers w).stopped = false then
      (take c ch (pl.workers w)).map fun r =>
        ⟨rest, fun i => if i = w then r.1 else pl.workers i, pl.iterQ ++ r.2⟩
    else some pl

def poolRun {St V A P} (take : Nat → Chain St V → Worker St V A P → Option (Worker St V A P × List Item))
    (np : Nat) : List Nat → Pool St V A P → Option (Pool St V A P)
  | [], pl => some pl
  | w :: σ, pl => (poolStep take np pl w).bind (poolRun take np σ)

/-- the same with the model's pass (total) -/
def poolModelStep {St V A P} (K : Kernel St V A P) (st : Stage) (offset : Nat)
    (intr : Option (Nat × Nat × Nat)) (np : Nat) (pl : Pool St V A P) (w : Nat) : Pool St V A P :=
  match pl.queue with
  | [] => pl
  | (c, ch) :: rest =>
    if w < np ∧ (pl.workers w).stopped = false then
      let r := modelTake K st offset intr c ch (pl.workers w)
      ⟨rest, fun i => if i = w then r.1 else pl.workers i, pl.iterQ ++ r.2⟩
    else pl

def poolModel {St V A P} (K : Kernel St V A P) (st : Stage) (offset : Nat)
    (intr : Option (Nat × Nat × Nat)) (np : Nat) (σ : List Nat) (pl : Pool St V A P) : Pool St V A P :=
  σ.foldl (poolModelStep K st offset intr np) pl

/-- the queue as the parent fills it: chain `c` with (a copy of) its data, in index order -/
def queueOf {St V} (chains : List (Chain St V)) : List (Nat × Chain St V) :=
  chains.zipIdx.map (fun ci => (ci.2, ci.1))

/-- the pool at the start: `n_process` workers each with a copy of the parent's transitions -/
def pool0 {St V A P} (p : P) (chains : List (Chain St V)) : Pool St V A P :=
  ⟨queueOf chains, fun _ => ⟨p, [], [], false⟩, []⟩

/-- **The schedule in the model's format**: per worker, the chains it took under `σ`, in order
(`Sampler.stagePar`'s `sched`). -/
def poolSched {St V A P} (K : Kernel St V A P) (st : Stage) (offset : Nat)
    (intr : Option (Nat × Nat × Nat)) (np : Nat) (σ : List Nat) (p : P) (chains : List (Chain St V)) :
    List (List Nat) :=
  (List.range np).map fun w => ((poolModel K st offset intr np σ (pool0 p chains)).workers w).taken

/-- every queued chain has been taken when `σ` ends (the workers have returned because the queue is
empty, not because all of them were interrupted / `σ` is a complete execution) -/
def poolDrained {St V A P} (K : Kernel St V A P) (st : Stage) (offset : Nat)
    (intr : Option (Nat × Nat × Nat)) (np : Nat) (σ : List Nat) (p : P) (chains : List (Chain St V)) : Bool :=
  (poolModel K st offset intr np σ (pool0 p chains)).queue.isEmpty

/-! ## parent -/

/-- statements of the loop that fills the chain queue -/
inductive QAct where
  /-- `chain_kwargs["chain_stats"] = _memmaps_to_file_paths(chain_kwargs["chain_stats"])` -/
  | statsPaths
  /-- `chain_kwargs["chain_traces"] = _memmaps_to_file_paths(chain_kwargs["chain_traces"])` -/
  | tracesPaths
  /-- `rngs.append(chain_kwargs["rng"])` -/
  | keepRng
  /-- `chain_queue.put((c, n_iter, chain_kwargs))` -/
  | putChain
  deriving DecidableEq, Repr

def qAct? (s : S) : Option QAct :=
  if s = .assign (.sub (.v "chain_kwargs") (.s "chain_stats"))
      (.call "_memmaps_to_file_paths" (E.l [.sub (.v "chain_kwargs") (.s "chain_stats")])) then some .statsPaths
  else if s = .assign (.sub (.v "chain_kwargs") (.s "chain_traces"))
      (.call "_memmaps_to_file_paths" (E.l [.sub (.v "chain_kwargs") (.s "chain_traces")])) then some .tracesPaths
  else if s = .expr (.call "rngs.append" (E.l [.sub (.v "chain_kwargs") (.s "rng")])) then some .keepRng
  else if s = .expr (.call "chain_queue.put" (E.l [.tup (E.l [.v "c", .v "n_iter", .v "chain_kwargs"])]))
    then some .putChain
  else Option.none

def qPlan : List S → Option (List QAct)
  | [] => some []
  | s :: l => (qAct? s).bind fun a => (qPlan l).map fun as => a :: as

/-- statements of the parent's branch `if isinstance(iter_queue_item, KeyboardInterrupt)` -/
inductive PIntr where
  /-- `exception = iter_queue_item` -/
  | recordException
  /-- `break` -/
  | brk
  deriving DecidableEq, Repr

def pIntr? (s : S) : Option PIntr :=
  if s = .assign (.v "exception") (.v "iter_queue_item") then some .recordException
  else if s = .brk then some .brk
  else Option.none

def pIntrPlan : List S → Option (List PIntr)
  | [] => some []
  | s :: l => (pIntr? s).bind fun a => (pIntrPlan l).map fun as => a :: as

/-- the recognised body of `_sample_chains_parallel` -/
structure ParPlan where
  /-- body of `for c, (chain_kwargs, n_iter) in enumerate(zip(per_chain_kwargs, n_iters, strict=True))` -/
  fill : List QAct
  /-- the branch taken for a `KeyboardInterrupt` item in the loop over the iteration queue -/
  onInterrupt : List PIntr
  /-- `if results is not None: …` (read by `Sem.collatePass`) -/
  collate : S
  deriving DecidableEq, Repr

/-- Recognise the loop over the iteration queue
`iter_queue_item = iter_queue.get(); if iter_queue_item is None: chains_completed += 1
elif isinstance(iter_queue_item, KeyboardInterrupt): <acts>
elif isinstance(iter_queue_item, Exception): raise RuntimeError(msg) from iter_queue_item
else: chain_index, sample_index, data_dict = iter_queue_item;
      if sample_index == n_iters[chain_index]: chains_completed += 1`
and return `<acts>`. -/
def parentLoopPlan? (body : List S) : Option (List PIntr) :=
  match body with
  | [g, .ifc cn tn (.seq (.ifc ck tk fk) .skip)] =>
    if g = .assign (.v "iter_queue_item") (.call "iter_queue.get" (E.l []))
        ∧ cn = .op "is" (E.l [.v "iter_queue_item", .none])
        ∧ tn = S.b [.aug (.v "chains_completed") "+" (.n 1)]
        ∧ ck = .call "isinstance" (E.l [.v "iter_queue_item", .v "KeyboardInterrupt"])
        ∧ fk = S.b [.ifc (.call "isinstance" (E.l [.v "iter_queue_item", .v "Exception"]))
            (S.b [.raise_ (.call "RuntimeError" (E.l [.v "msg"])) (.v "iter_queue_item")])
            (S.b [.assign (.tup (E.l [.v "chain_index", .v "sample_index", .v "data_dict"])) (.v "iter_queue_item"),
                  .ifc (.op "==" (E.l [.v "sample_index", .sub (.v "n_iters") (.v "chain_index")]))
                    (S.b [.aug (.v "chains_completed") "+" (.n 1)]) (S.b [])])] then
      pIntrPlan tk.stmts
    else Option.none
  | _ => Option.none

/-- Recognise the `try` body of `_sample_chains_parallel`: the two queues, the fill loop, the start of
the workers, the loop over the iteration queue. -/
def parTryPlan? (body : List S) : Option (List QAct × List PIntr) :=
  match body with
  | [q1, q2, .loop lt li lb, sm, .with_ ei eb] =>
    if q1 = .assign (.v "iter_queue") (.call "manager.Queue" (E.l []))
        ∧ q2 = .assign (.v "chain_queue") (.call "manager.Queue" (E.l []))
        ∧ lt = .tup (E.l [.v "c", .tup (E.l [.v "chain_kwargs", .v "n_iter"])])
        ∧ li = .call "enumerate" (E.l [.call "zip" (E.l [.v "per_chain_kwargs", .v "n_iters", .kw "strict" (.v "True")])])
        ∧ sm = .assign (.v "results") (.call "pool.starmap_async" (E.l [.v "_sample_chains_worker",
            .src "[(chain_queue, iter_queue, common_kwargs) for p in range(n_process)]"]))
        ∧ ei = E.l [.as_ (.call "ExitStack" (E.l [])) (.v "stack")] then
      match eb.stmts with
      | [d1, d2, .while_ wc wb] =>
        if d1 = .assign (.v "pbars") (.src "[stack.enter_context(it) for it in chain_iterators]")
            ∧ d2 = .assign (.v "chains_completed") (.n 0)
            ∧ wc = .op "not" (E.l [.op "and" (E.l [.call "iter_queue.empty" (E.l []),
                .op "==" (E.l [.v "chains_completed", .v "n_chain"])])]) then
          (qPlan lb.stmts).bind fun f => (parentLoopPlan? wb.stmts).map fun i => (f, i)
        else Option.none
      | _ => Option.none
    else Option.none
  | _ => Option.none

/-- Recognise the whole body of `_sample_chains_parallel`. -/
def parPlan? (body : List S) : Option ParPlan :=
  match body with
  | [a1, a2, a3, .with_ wi wb, r] =>
    if a1 = .assign (.v "n_iters") (.src "[len(it) for it in chain_iterators]")
        ∧ a2 = .assign (.v "n_chain") (.call "len" (E.l [.v "chain_iterators"]))
        ∧ a3 = .assign (.v "rngs") (.lst (E.l []))
        ∧ wi = E.l [.as_ (.call "_ignore_sigint_manager" (E.l [])) (.v "manager"),
                    .as_ (.call "_pool_context_manager" (E.l [.v "n_process"])) (.v "pool")]
        ∧ r = .ret (.tup (E.l [.star (.call "_collate_chain_outputs" (E.l [.v "chain_outputs"])), .v "exception"])) then
      match wb.stmts with
      | [b1, b2, .try_ tb th te tf, col] =>
        if b1 = .assign (.v "results") .none
            ∧ b2 = .assign (.v "exception") .none
            ∧ th = S.b [
              .handler (.tup (E.l [.v "PicklingError", .v "AttributeError"])) "e"
                (S.b [.ifc (.op "and" (E.l [.op "not" (E.l [.v "MULTIPROCESS_AVAILABLE"]),
                        .op "or" (E.l [.call "isinstance" (E.l [.v "e", .v "PicklingError"]),
                                       .op "in" (E.l [.s "pickle", .call "str" (E.l [.v "e"])])])]))
                        (S.b [.raise_ (.call "RuntimeError" (E.l [.v "msg"])) (.v "e")]) (S.b []),
                      .raise_ .none .none]),
              .handler (.v "KeyboardInterrupt") "e" (S.b [.assign (.v "exception") (.v "e")])]
            ∧ te = S.b [] ∧ tf = S.b [] then
          (parTryPlan? tb.stmts).map fun fi => ⟨fi.1, fi.2, col⟩
        else Option.none
      | _ => Option.none
    else Option.none
  | _ => Option.none

/-- The fill loop for chain `c`: which generator objects the parent keeps (`rngs`, by chain index of the
object) and what it puts on the chain queue. -/
def runQActs {St V} (c : Nat) (ch : Chain St V) :
    List QAct → List Nat × List (Nat × Chain St V) → List Nat × List (Nat × Chain St V)
  | [], x => x
  | .statsPaths :: l, x => runQActs c ch l x
  | .tracesPaths :: l, x => runQActs c ch l x
  | .keepRng :: l, x => runQActs c ch l (x.1 ++ [c], x.2)
  | .putChain :: l, x => runQActs c ch l (x.1, x.2 ++ [(c, ch)])

def fillQueue {St V} (acts : List QAct) (chains : List (Chain St V)) : List Nat × List (Nat × Chain St V) :=
  (queueOf chains).foldl (fun x cc => runQActs cc.1 cc.2 acts x) ([], [])

/-- variables of the parent's loop over the iteration queue -/
structure PVars where
  /-- `isinstance(exception, KeyboardInterrupt)` -/
  halted : Bool
  broke : Bool

def runPIntr : List PIntr → PVars → PVars
  | [], v => v
  | .recordException :: l, v => runPIntr l { v with halted := true }
  | .brk :: _, v => { v with broke := true }

/-- The loop over the iteration queue: items are taken in order of arrival until `break` or until the
stream is exhausted; only a `KeyboardInterrupt` item touches `exception`. -/
def parentLoop (acts : List PIntr) : List Item → PVars → PVars
  | [], v => v
  | it :: l, v =>
    if v.broke then v
    else match it with
      | .interrupt => parentLoop acts l (runPIntr acts v)
      | _ => parentLoop acts l v

/-- **`_sample_chains_parallel` with its workers, read from the two statement lists**, under the
schedule `σ` of `n_process = np` workers: fill the queue, run the pool, loop over the iteration queue,
collate what the workers returned (`results.get()`, in worker order). -/
def poolPass {St V A P} (worker parent : List S) (K : Kernel St V A P) (st : Stage) (offset : Nat)
    (intr : Option (Nat × Nat × Nat)) (np : Nat) (σ : List Nat) (p : P) (chains : List (Chain St V)) :
    Option (Acc St V A P) :=
  (workerPlan? worker).bind fun wacts =>
  (parPlan? parent).bind fun plan =>
    let rq := fillQueue plan.fill chains
    -- the collation addresses the kept generator objects by chain index: `rngs[i]` must be chain `i`'s
    if rq.1 = List.range chains.length then
      (poolRun (takePass wacts K st offset intr) np σ ⟨rq.2, fun _ => ⟨p, [], [], false⟩, []⟩).bind fun pl =>
        let perWorker := (List.range np).map fun w => (pl.workers w).outs
        let pv := parentLoop plan.onInterrupt pl.iterQ ⟨false, false⟩
        Sem.collatePass plan.collate p perWorker (perWorker.flatten.foldl applyRun chains) pv.halted
    else Option.none

end MiciVerif.Skel.ParSem
