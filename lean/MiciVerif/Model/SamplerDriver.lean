/-
Line-protocol front end of the sampler model (shared by Driver/C13, C14, C15).

request : run hasA da db parDraws e hasFast hasSlow nTraceFns par0 met0 [cid:x,…] nWarm nMain traceWarm
              (warm | win:a:b:c:p/q) (seq | par:restore:w0c0.w0c1/w1c0;…(one schedule per stage, last reused))
              (- | stage.chain.iter.op)
response: stopped offset par met | cid:x:na:nf:u0:ud,… | chain # chain …
          chain = rngpos ; start+count,… ; array ; array …     array = cell,cell…   cell = _ | a:b:c
-/
import MiciVerif.Model.SamplerCount
import MiciVerif.Proto

namespace MiciVerif.SamplerDriver
open MiciVerif MiciVerif.Stagers MiciVerif.Sampler MiciVerif.SamplerCount MiciVerif.Proto

def parseNats? (sep : String) (s : String) : Option (List Nat) :=
  if s.isEmpty then some [] else (s.splitOn sep).mapM (·.toNat?)

def parseInit? (s : String) : Option St :=
  match s.splitOn ":" with
  | [c, x] => do
    let c ← c.toNat?
    let x ← x.toNat?
    some ⟨c, x, 0, 0, 0, 0⟩
  | _ => none

def parseStager? (nw nm : Nat) (tw : Bool) (s : String) : Option (List Stage) :=
  match s.splitOn ":" with
  | ["warm"] => some (warmUpStages nw nm tw)
  | ["win", a, b, c, m] => do
    let a ← a.toNat?
    let b ← b.toNat?
    let c ← c.toNat?
    let m ← parseRat? m
    some (windowedStages ⟨a, b, c, m⟩ nw nm tw)
  | _ => none

def parseSched? (s : String) : Option (List (List Nat)) := (s.splitOn "/").mapM (parseNats? ".")

def modesFor (n : Nat) (restore : Bool) (scheds : List (List (List Nat))) : List Mode :=
  (List.range n).map (fun k =>
    .par restore ((scheds[k]?).getD (scheds.getLast?.getD [])))

def parseModes? (n : Nat) (s : String) : Option (List Mode) :=
  match s.splitOn ":" with
  | ["seq"] => some (List.replicate n .seq)
  | ["par", r, sch] => do
    let r ← parseBool? r
    let scheds ← (sch.splitOn ";").mapM parseSched?
    some (modesFor n r scheds)
  | _ => none

def parseIntr? (s : String) : Option (Option (Nat × Nat × Nat × Nat)) :=
  if s = "-" then some none else
  match (s.splitOn ".").mapM (·.toNat?) with
  | some [k, c, i, j] => some (some (k, c, i, j))
  | _ => none

def showV (v : List Nat) : String := ":".intercalate (v.map toString)
def showCell : Option (List Nat) → String
  | none => "_"
  | some v => showV v
def showArr (a : List (Option (List Nat))) : String := ",".intercalate (a.map showCell)
def showSt (s : St) : String := showV [s.cid, s.x, s.na, s.nf, s.u0, s.ud]
def showLog (l : List Draw) : String := ",".intercalate (l.map (fun d => s!"{d.start}+{d.count}"))
def showChain (c : Chain St (List Nat)) : String :=
  " ; ".intercalate ([toString c.rng.pos, showLog c.log] ++ c.mem.map showArr)

def showSys (s : Sys St (List Nat) Par) : String :=
  s!"{if s.stopped then 1 else 0} {s.offset} {s.params.par} {s.params.met} | " ++
  ",".intercalate (s.finalStates.map showSt) ++ " | " ++
  " # ".intercalate (s.chains.map showChain)

def step (line : String) : String :=
  match line.splitOn " " with
  | ["run", hasA, da, db, pd, e, hf, hs, nf, par0, met0, inits, nw, nm, tw, stager, modes, intr] =>
    match parseBool? hasA, da.toNat?, db.toNat?, parseBool? pd, e.toNat?, parseBool? hf,
          parseBool? hs, nf.toNat?, par0.toNat?, met0.toNat?, parseList? parseInit? inits,
          nw.toNat?, nm.toNat?, parseBool? tw, parseIntr? intr with
    | some hasA, some da, some db, some pd, some e, some hf, some hs, some nf, some par0,
      some met0, some inits, some nw, some nm, some tw, some intr =>
      match parseStager? nw nm tw stager with
      | some stages =>
        match parseModes? stages.length modes with
        | some ms =>
          let cfg : Cfg := ⟨hasA, da, db, pd, e, hf, hs, nf⟩
          showSys (sampleChains (kernel cfg) ⟨par0, met0⟩ inits nw nm tw (stages.zip ms) intr)
        | none => "bad-op"
      | none => "bad-op"
    | _, _, _, _, _, _, _, _, _, _, _, _, _, _, _ => "bad-op"
  | _ => "bad-op"

def main : IO Unit := run step

end MiciVerif.SamplerDriver
