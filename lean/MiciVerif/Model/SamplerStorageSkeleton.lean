/-
Output-storage helpers of `mici.samplers` as statement trees (builder B16; types `Skel.E` / `Skel.S`
of `Model/SamplerSkeleton.lean`).

* `Skel.StorageExpected.*`: the trees of `_get_valid_filename`, `_generate_memmap_filenames`,
  `_open_new_memmap`, `_memmaps_to_file_paths`, `_file_paths_to_memmaps`, `_zip_dict`,
  `_check_and_process_init_state`, `_init_stats`, `_init_traces`, `_construct_chain_iterators`,
  `_get_per_chain_rngs`, `HamiltonianMonteCarlo._preprocess_init_state / _default_trace_func /
  sample_chains` and the field lists of the two output tuples, as `Model/Sampler.lean`
  (`initSys`, `nTraceIter`, `Chain.arrays`, `Rng`) was written against them.  The doc comment of every
  tree names the model fact (`M:`) it justifies.  `tools/extractors/sampler_storage_skeleton.py`
  regenerates the same trees from the tree under test on every run
  (`Generated/SamplerStorageSkeleton.lean`); `Props/C13K.lean` / `C15K.lean` prove
  `generated = expected` and the named projections.
* `Skel.Storage`: readings of the allocation statements (fill value as a function of the dtype kind,
  array shapes / dtypes / file names as functions of `n_chain`, `n_iter` and the traced value,
  per-chain generator streams).

Encodings of comprehensions, f-strings, dict displays and slices: see the extractor's docstring
(`.call "<listcomp>" …`, `"<genexpr>"`, `"<dictcomp>"`, `"<fstring>"`, `"<dict>"`, `"<slice>"`).

Core Lean only.
-/
import MiciVerif.Model.SamplerSkeleton

namespace MiciVerif.Skel

namespace StorageExpected


/-- parameters of `_get_valid_filename` -/
def getValidFilenameSig : E :=
  (E.l [(.v "string")])

/-- body of `_get_valid_filename`
keeps alphanumerics and `._- `: part of the file name of a memory-mapped array (not modelled; names are exercised by the harness, distinctness per chain: `skel_memmap_file_names`). -/
def getValidFilename : S :=
  (S.b [
  .ret (.meth (.s "") "join" (E.l [(.call "<genexpr>" (E.l [(.v "c"), (.tup (E.l [(.v "c"), (.v "string"), (.op "or" (E.l [(.call "c.isalnum" (E.l [])), (.op "in" (E.l [(.v "c"), (.s "._- ")]))]))]))]))]))])

/-- parameters of `_generate_memmap_filenames` -/
def generateMemmapFilenamesSig : E :=
  (E.l [(.v "dir_path"), (.v "prefix"), (.v "key"), (.v "indices")])

/-- body of `_generate_memmap_filenames`
`dir / f"{prefix}_{index}_{key}.npy"` for every `index in indices`: ONE file per chain index, the index is part of the name (M: a chain owns its own arrays, `Sampler.Chain.arrays`; C14: no two chains share storage). -/
def generateMemmapFilenames : S :=
  (S.b [
  .assign (.v "key_str") (.call "_get_valid_filename" (E.l [(.call "str" (E.l [(.v "key")]))])),
  .assign (.v "dir_path") (.call "Path" (E.l [(.v "dir_path")])),
  .ret (.call "<listcomp>" (E.l [(.op "/" (E.l [(.v "dir_path"), (.call "<fstring>" (E.l [(.v "prefix"), (.s "_"), (.v "index"), (.s "_"), (.v "key_str"), (.s ".npy")]))])), (.tup (E.l [(.v "index"), (.v "indices")]))]))])

/-- parameters of `_open_new_memmap` -/
def openNewMemmapSig : E :=
  (E.l [(.v "file_path"), (.v "shape"), (.v "default_val"), (.v "dtype")])

/-- body of `_open_new_memmap`
`int` shape -> 1-tuple (statistics), NEW file (`mode="w+"`, never an existing one), every element `= default_val` (M: `initSys`: every cell of a new array is `none` = the fill value). -/
def openNewMemmap : S :=
  (S.b [
  -- statistics pass a bare `n_iter`
  .ifc (.call "isinstance" (E.l [(.v "shape"), (.v "int")]))
    (S.b [
      .assign (.v "shape") (.tup (E.l [(.v "shape")]))])
    (S.b []),
  -- a NEW file (`w+`: created or truncated), never the contents of an earlier run
  .assign (.v "memmap") (.call "np.lib.format.open_memmap" (E.l [(.v "file_path"), (.kw "dtype" (.v "dtype")), (.kw "mode" (.s "w+")), (.kw "shape" (.v "shape"))])),
  -- M: every cell `none`: the whole array is set to the fill value before anyone sees it
  .assign (.sub (.v "memmap") (.call "<slice>" (E.l [E.none, E.none, E.none]))) (.v "default_val"),
  .ret (.v "memmap")])

/-- parameters of `_memmaps_to_file_paths` -/
def memmapsToFilePathsSig : E :=
  (E.l [(.v "pytree")])

/-- body of `_memmaps_to_file_paths`
parent -> worker: every memmap leaf replaced by its path, dict / list / tuple structure kept, other leaves returned unchanged (M: `stagePar`: a worker writes into the SAME arrays the parent reads back). -/
def memmapsToFilePaths : S :=
  (S.b [
  .ifc (.call "isinstance" (E.l [(.v "pytree"), (.v "np.memmap")]))
    (S.b [
      .ret (.call "Path" (E.l [(.v "pytree.filename")]))])
    (S.b []),
  .ifc (.call "isinstance" (E.l [(.v "pytree"), (.v "dict")]))
    (S.b [
      .ret (.call "<dictcomp>" (E.l [(.tup (E.l [(.v "k"), (.call "_memmaps_to_file_paths" (E.l [(.v "v")]))])), (.tup (E.l [(.tup (E.l [(.v "k"), (.v "v")])), (.call "pytree.items" (E.l []))]))]))])
    (S.b []),
  .ifc (.call "isinstance" (E.l [(.v "pytree"), (.v "list")]))
    (S.b [
      .ret (.call "<listcomp>" (E.l [(.call "_memmaps_to_file_paths" (E.l [(.v "v")])), (.tup (E.l [(.v "v"), (.v "pytree")]))]))])
    (S.b []),
  .ifc (.call "isinstance" (E.l [(.v "pytree"), (.v "tuple")]))
    (S.b [
      .ret (.call "tuple" (E.l [(.call "<genexpr>" (E.l [(.call "_memmaps_to_file_paths" (E.l [(.v "v")])), (.tup (E.l [(.v "v"), (.v "pytree")]))]))]))])
    (S.b []),
  .ret (.v "pytree")])

/-- parameters of `_file_paths_to_memmaps` -/
def filePathsToMemmapsSig : E :=
  (E.l [(.v "pytree")])

/-- body of `_file_paths_to_memmaps`
worker side: every `Path` leaf re-opened (`open_memmap(path)`, default mode `r+`: existing file, read/write, contents kept), same structure cases in the same order as `_memmaps_to_file_paths`. -/
def filePathsToMemmaps : S :=
  (S.b [
  .ifc (.call "isinstance" (E.l [(.v "pytree"), (.v "Path")]))
    (S.b [
      .ret (.call "np.lib.format.open_memmap" (E.l [(.v "pytree")]))])
    (S.b []),
  .ifc (.call "isinstance" (E.l [(.v "pytree"), (.v "dict")]))
    (S.b [
      .ret (.call "<dictcomp>" (E.l [(.tup (E.l [(.v "k"), (.call "_file_paths_to_memmaps" (E.l [(.v "v")]))])), (.tup (E.l [(.tup (E.l [(.v "k"), (.v "v")])), (.call "pytree.items" (E.l []))]))]))])
    (S.b []),
  .ifc (.call "isinstance" (E.l [(.v "pytree"), (.v "list")]))
    (S.b [
      .ret (.call "<listcomp>" (E.l [(.call "_file_paths_to_memmaps" (E.l [(.v "v")])), (.tup (E.l [(.v "v"), (.v "pytree")]))]))])
    (S.b []),
  .ifc (.call "isinstance" (E.l [(.v "pytree"), (.v "tuple")]))
    (S.b [
      .ret (.call "tuple" (E.l [(.call "<genexpr>" (E.l [(.call "_file_paths_to_memmaps" (E.l [(.v "v")])), (.tup (E.l [(.v "v"), (.v "pytree")]))]))]))])
    (S.b []),
  .ret (.v "pytree")])

/-- parameters of `_zip_dict` -/
def zipDictSig : E :=
  (E.l [(.kwstar (.v "kwargs"))])

/-- body of `_zip_dict`
dict of per-chain lists -> per-chain dicts, `strict=True` on both zips: every key has exactly one array per chain (M: `initSys`: one array list per chain). -/
def zipDict : S :=
  (S.b [
  .ret (.call "<genexpr>" (E.l [(.call "dict" (E.l [(.call "zip" (E.l [(.call "kwargs.keys" (E.l [])), (.v "val_set"), (.kw "strict" (.v "True"))]))])), (.tup (E.l [(.v "val_set"), (.call "zip" (E.l [(.star (.call "kwargs.values" (E.l []))), (.kw "strict" (.v "True"))]))]))]))])

/-- parameters of `_check_and_process_init_state` -/
def checkAndProcessInitStateSig : E :=
  (E.l [(.v "state"), (.v "transitions")])

/-- body of `_check_and_process_init_state`
every state variable of every transition must be present (ValueError), the state must be a `ChainState` or a dict (TypeError), dicts are converted (M: `inits : List S` are valid states; C13/C15 quantify over valid initial states only). -/
def checkAndProcessInitState : S :=
  (S.b [
  .loop (.tup (E.l [(.v "trans_key"), (.v "transition")])) (.call "transitions.items" (E.l []))
    (S.b [
      .loop (.v "var_key") (.v "transition.state_variables")
        (S.b [
          .ifc (.op "not in" (E.l [(.v "var_key"), (.v "state")]))
            (S.b [
              .raise_ (.call "ValueError" (E.l [(.v "msg")])) E.none])
            (S.b [])])]),
  .ifc (.op "not" (E.l [(.call "isinstance" (E.l [(.v "state"), (.op "|" (E.l [(.v "ChainState"), (.v "dict")]))]))]))
    (S.b [
      .raise_ (.call "TypeError" (E.l [(.v "msg")])) E.none])
    (S.b []),
  .ret (.ite (.call "isinstance" (E.l [(.v "state"), (.v "dict")])) (.call "ChainState" (E.l [(.kwstar (.v "state"))])) (.v "state"))])

/-- parameters of `_init_stats` -/
def initStatsSig : E :=
  (E.l [(.v "transitions"), (.v "n_chain"), (.v "n_iter"), (.s "*"), (.v "use_memmap"), (.v "memmap_path")])

/-- body of `_init_stats`
per transition with declared `statistic_types`, per key `(dtype, val)`: arrays of the DECLARED dtype pre-filled with the DECLARED value, length `n_iter`, one per chain; memmap files `stats_{chain}_{trans_key}_{key}.npy` (M: `initSys`: `K.trans.length` arrays per chain, `List.replicate nTrace none`; `Generated/StatTypes.lean` `StatDecl.kind` / `.fill` are the declared pairs). -/
def initStats : S :=
  (S.b [
  .assign (.v "stats") (.call "<dict>" (E.l [])),
  -- M: `K.trans`: one block of arrays per transition, in the order of the `transitions` dict
  .loop (.tup (E.l [(.v "trans_key"), (.v "transition")])) (.call "transitions.items" (E.l []))
    (S.b [
      -- transitions that declare no statistics get no entry (Generated/StatTypes: `declaresNone`)
      .ifc (.op "is not" (E.l [(.v "transition.statistic_types"), E.none]))
        (S.b [
          .assign (.sub (.v "stats") (.v "trans_key")) (.call "<dict>" (E.l [])),
          -- per declared key its DECLARED (dtype, fill) pair (Generated/StatTypes: `StatDecl.kind`, `.fill`)
          .loop (.tup (E.l [(.v "key"), (.tup (E.l [(.v "dtype"), (.v "val")]))])) (.call "transition.statistic_types.items" (E.l []))
            (S.b [
              .ifc (.v "use_memmap")
                (S.b [
                  -- memmap: one NEW file `stats_{chain}_{trans_key}_{key}.npy` per chain, length n_iter (an `int`
                  -- shape, made a 1-tuple by `_open_new_memmap`), declared fill, declared dtype (`Storage.statsPlan`)
                  .assign (.sub (.sub (.v "stats") (.v "trans_key")) (.v "key")) (.call "<listcomp>" (E.l [(.call "_open_new_memmap" (E.l [(.v "filename"), (.v "n_iter"), (.v "val"), (.v "dtype")])), (.tup (E.l [(.v "filename"), (.call "_generate_memmap_filenames" (E.l [(.v "memmap_path"), (.s "stats"), (.call "<fstring>" (E.l [(.v "trans_key"), (.s "_"), (.v "key")])), (.call "range" (E.l [(.v "n_chain")]))]))]))]))])
                (S.b [
                  -- memory: (n_chain, n_iter) block split per chain; M: `List.replicate nTrace none`
                  .assign (.sub (.sub (.v "stats") (.v "trans_key")) (.v "key")) (.call "list" (E.l [(.call "np.full" (E.l [(.tup (E.l [(.v "n_chain"), (.v "n_iter")])), (.v "val"), (.v "dtype")]))]))])])])
        (S.b [])]),
  .ret (.v "stats")])

/-- parameters of `_init_traces` -/
def initTracesSig : E :=
  (E.l [(.v "trace_funcs"), (.v "init_states"), (.v "n_iter"), (.s "*"), (.v "use_memmap"), (.v "memmap_path")])

/-- body of `_init_traces`
each trace function evaluated ONCE, on `init_states[0]`; per key: dtype of the value, shape `(n_iter, *value.shape)`, fill NaN for every inexact dtype else 0, one array per chain; memmap files `trace_{chain}_{key}.npy` (M: `initSys`: `K.traces.length` arrays per chain, `List.replicate nTrace none`; `none` = NaN is what C15 `rows never reached read the fill value` relies on). -/
def initTraces : S :=
  (S.b [
  .assign (.v "traces") (.call "<dict>" (E.l [])),
  -- M: initSys: one array list per chain, `inits.zipIdx.map`; n_chain is the number of initial states
  .assign (.v "n_chain") (.call "len" (E.l [(.v "init_states")])),
  -- M: `K.traces`: one block of arrays per trace function …
  .loop (.v "trace_func") (.v "trace_funcs")
    (S.b [
      -- … evaluated ONCE, on the FIRST initial state, only to learn keys / dtype / shape (the value is not stored;
      -- C15: an interrupt raised by this call is outside the property's quantifier)
      .loop (.tup (E.l [(.v "key"), (.v "val")])) (.meth (.call "trace_func" (E.l [(.sub (.v "init_states") (.n 0))])) "items" (E.l []))
        (S.b [
          -- Python scalars become 0-d arrays so that `.dtype` / `.shape` exist
          .assign (.v "array_val") (.ite (.call "np.isscalar" (E.l [(.v "val")])) (.call "np.array" (E.l [(.v "val")])) (.v "val")),
          -- M: a cell that was never written is `none`; C15: it must be recognisable => NaN for EVERY inexact dtype
          -- (`Storage.fillRule`, C15K.skel_traces_filled_with_nan_for_every_inexact_dtype), 0 where NaN does not exist
          .assign (.v "init") (.ite (.call "np.issubdtype" (E.l [(.v "array_val.dtype"), (.v "np.inexact")])) (.v "np.nan") (.n 0)),
          .ifc (.v "use_memmap")
            (S.b [
              -- memmap: one NEW file per chain index `range(n_chain)`, shape (n_iter, *value.shape), fill `init`,
              -- dtype of the value (`Storage.tracesPlan`, M: `List.replicate nTrace none` per chain)
              .assign (.sub (.v "traces") (.v "key")) (.call "<listcomp>" (E.l [(.call "_open_new_memmap" (E.l [(.v "filename"), (.tup (E.l [(.v "n_iter"), (.star (.v "array_val.shape"))])), (.v "init"), (.v "array_val.dtype")])), (.tup (E.l [(.v "filename"), (.call "_generate_memmap_filenames" (E.l [(.v "memmap_path"), (.s "trace"), (.v "key"), (.call "range" (E.l [(.v "n_chain")]))]))]))]))])
            (S.b [
              -- memory: ONE (n_chain, n_iter, *value.shape) block split along the first axis by `list(…)`:
              -- the same n_chain arrays of shape (n_iter, *value.shape), same fill, same dtype
              -- (C13K.skel_memmap_and_memory_same_fill)
              .assign (.sub (.v "traces") (.v "key")) (.call "list" (E.l [(.call "np.full" (E.l [(.tup (E.l [(.v "n_chain"), (.v "n_iter"), (.star (.v "array_val.shape"))])), (.v "init"), (.v "array_val.dtype")]))]))])])]),
  .ret (.v "traces")])

/-- parameters of `_construct_chain_iterators` -/
def constructChainIteratorsSig : E :=
  (E.l [(.v "n_iter"), (.v "chain_iterator_class"), (.v "n_chain"), (.kw "position_offset" (.n 0))])

/-- body of `_construct_chain_iterators`
one iterator per chain over `range(n_iter)`, position `c + offset` of `n_chain + offset` (M: the chain iterator of a stage has `stage.n_iter` elements after `chain_it.sequence = range(stage.n_iter)`, see `Skel.Sem`). -/
def constructChainIterators : S :=
  (S.b [
  .ret (.call "<listcomp>" (E.l [(.call "chain_iterator_class" (E.l [(.call "range" (E.l [(.v "n_iter")])), (.kw "description" (.call "<fstring>" (E.l [(.s "Chain "), (.op "+" (E.l [(.v "c"), (.n 1)])), (.s "/"), (.v "n_chain")]))), (.kw "position" (.tup (E.l [(.op "+" (E.l [(.v "c"), (.v "position_offset")])), (.op "+" (E.l [(.v "n_chain"), (.v "position_offset")]))])))])), (.tup (E.l [(.v "c"), (.call "range" (E.l [(.v "n_chain")]))]))]))])

/-- parameters of `_get_per_chain_rngs` -/
def getPerChainRngsSig : E :=
  (E.l [(.v "base_rng"), (.v "n_chain")])

/-- body of `_get_per_chain_rngs`
ONE base bit generator (`bit_generator` else `_bit_generator`); `jumped(i)` for `i in range(n_chain)` when available, else `n_chain` children spawned from the ONE seed sequence, else ValueError (M: `initSys`: chain `i` gets `Rng.mk i 0`, pairwise distinct streams). -/
def getPerChainRngs : S :=
  (S.b [
  -- ONE base bit generator: of `base_rng` (= `self.rng`, C13K.skel_single_base_generator)
  .ifc (.call "hasattr" (E.l [(.v "base_rng"), (.s "bit_generator")]))
    (S.b [
      .assign (.v "bit_generator") (.v "base_rng.bit_generator")])
    (S.b [
      .ifc (.call "hasattr" (E.l [(.v "base_rng"), (.s "_bit_generator")]))
        (S.b [
          .assign (.v "bit_generator") (.v "base_rng._bit_generator")])
        (S.b [
          .assign (.v "bit_generator") E.none])]),
  -- M: initSys: chain i gets `Rng.mk i 0`: stream `jumped(i)` of the base generator, i in range(n_chain) …
  .ifc (.op "and" (E.l [(.op "is not" (E.l [(.v "bit_generator"), E.none])), (.call "hasattr" (E.l [(.v "bit_generator"), (.s "jumped")]))]))
    (S.b [
      .ret (.call "<listcomp>" (E.l [(.call "default_rng" (E.l [(.call "bit_generator.jumped" (E.l [(.v "i")]))])), (.tup (E.l [(.v "i"), (.call "range" (E.l [(.v "n_chain")]))]))]))])
    (S.b []),
  -- … or, without `jumped`, the i-th of n_chain children spawned from the ONE seed sequence
  .ifc (.op "and" (E.l [(.op "is not" (E.l [(.v "bit_generator"), E.none])), (.call "hasattr" (E.l [(.v "bit_generator"), (.s "_seed_seq")]))]))
    (S.b [
      .assign (.v "seed_sequence") (.v "bit_generator._seed_seq"),
      .ret (.call "<listcomp>" (E.l [(.call "default_rng" (E.l [(.v "seed")])), (.tup (E.l [(.v "seed"), (.call "seed_sequence.spawn" (E.l [(.v "n_chain")]))]))]))])
    (S.b []),
  -- anything else is refused (no silent sharing of one stream between chains)
  .raise_ (.call "ValueError" (E.l [(.v "msg")])) E.none])

/-- parameters of `HamiltonianMonteCarlo._preprocess_init_state` -/
def hmcPreprocessInitStateSig : E :=
  (E.l [(.v "self"), (.v "init_state")])

/-- body of `HamiltonianMonteCarlo._preprocess_init_state`
array -> `ChainState(pos, mom=None, dir=1)`; missing momentum sampled with the sampler's own generator BEFORE the per-chain generators are derived (M: outside `Sampler`; C13 harness compares with a re-execution). -/
def hmcPreprocessInitState : S :=
  (S.b [
  .ifc (.call "isinstance" (E.l [(.v "init_state"), (.v "np.ndarray")]))
    (S.b [
      .assign (.v "init_state") (.call "ChainState" (E.l [(.kw "pos" (.v "init_state")), (.kw "mom" E.none), (.kw "dir" (.n 1))]))])
    (S.b [
      .ifc (.op "or" (E.l [(.op "not" (E.l [(.call "isinstance" (E.l [(.v "init_state"), (.v "ChainState")]))])), (.op "not in" (E.l [(.s "mom"), (.v "init_state")]))]))
        (S.b [
          .raise_ (.call "TypeError" (E.l [(.v "msg")])) E.none])
        (S.b [])]),
  .ifc (.op "is" (E.l [(.v "init_state.mom"), E.none]))
    (S.b [
      .assign (.v "init_state.mom") (.call "self.system.sample_momentum" (E.l [(.v "init_state"), (.v "self.rng")]))])
    (S.b []),
  .ret (.v "init_state")])

/-- parameters of `HamiltonianMonteCarlo._default_trace_func` -/
def hmcDefaultTraceFuncSig : E :=
  (E.l [(.v "self"), (.v "state")])

/-- body of `HamiltonianMonteCarlo._default_trace_func`
default trace: `pos` and `hamiltonian` (M: `K.traces`; float64 values). -/
def hmcDefaultTraceFunc : S :=
  (S.b [
  .ret (.call "<dict>" (E.l [(.tup (E.l [(.s "pos"), (.v "state.pos")])), (.tup (E.l [(.s "hamiltonian"), (.call "self.system.h" (E.l [(.v "state")]))]))]))])

/-- parameters of `HamiltonianMonteCarlo.sample_chains` -/
def hmcSampleChainsSig : E :=
  (E.l [(.v "self"), (.v "n_warm_up_iter"), (.v "n_main_iter"), (.v "init_states"), (.kwstar (.v "kwargs"))])

/-- body of `HamiltonianMonteCarlo.sample_chains`
defaults, wrapping of adapters / monitor_stats under `integration_transition`, call of the base method, `statistics` = the `integration_transition` sub-dictionary (M: key structure of the returned outputs). -/
def hmcSampleChains : S :=
  (S.b [
  .assign (.v "init_states") (.call "<listcomp>" (E.l [(.call "self._preprocess_init_state" (E.l [(.v "i")])), (.tup (E.l [(.v "i"), (.v "init_states")]))])),
  .ifc (.op "not in" (E.l [(.s "adapters"), (.v "kwargs")]))
    (S.b [
      .assign (.sub (.v "kwargs") (.s "adapters")) (.lst (E.l [(.call "DualAveragingStepSizeAdapter" (E.l []))]))])
    (S.b []),
  .ifc (.op "not in" (E.l [(.s "trace_funcs"), (.v "kwargs")]))
    (S.b [
      .assign (.sub (.v "kwargs") (.s "trace_funcs")) (.lst (E.l [(.v "self._default_trace_func")]))])
    (S.b []),
  .ifc (.op "in" (E.l [(.s "monitor_stats"), (.v "kwargs")]))
    (S.b [
      .ifc (.op "is not" (E.l [(.sub (.v "kwargs") (.s "monitor_stats")), E.none]))
        (S.b [
          .assign (.sub (.v "kwargs") (.s "monitor_stats")) (.call "<dict>" (E.l [(.tup (E.l [(.s "integration_transition"), (.sub (.v "kwargs") (.s "monitor_stats"))]))]))])
        (S.b [])])
    (S.b [
      .assign (.sub (.v "kwargs") (.s "monitor_stats")) (.call "<dict>" (E.l [(.tup (E.l [(.s "integration_transition"), (.lst (E.l [(.s "accept_stat")]))]))]))]),
  .ifc (.op "and" (E.l [(.op "in" (E.l [(.s "adapters"), (.v "kwargs")])), (.op "is not" (E.l [(.sub (.v "kwargs") (.s "adapters")), E.none]))]))
    (S.b [
      .assign (.sub (.v "kwargs") (.s "adapters")) (.call "<dict>" (E.l [(.tup (E.l [(.s "integration_transition"), (.sub (.v "kwargs") (.s "adapters"))]))]))])
    (S.b []),
  .assign (.tup (E.l [(.v "final_states"), (.v "traces"), (.v "stats")])) (.meth (.call "super" (E.l [])) "sample_chains" (E.l [(.v "n_warm_up_iter"), (.v "n_main_iter"), (.v "init_states"), (.kwstar (.v "kwargs"))])),
  .assign (.v "stats") (.call "stats.get" (E.l [(.s "integration_transition"), (.call "<dict>" (E.l []))])),
  .ret (.call "HMCSampleChainsOutputs" (E.l [(.v "final_states"), (.v "traces"), (.v "stats")]))])

/-- base class and fields of `MCMCSampleChainsOutputs` -/
def mcmcOutputsFields : List String :=
  ["<NamedTuple>", "final_states", "traces", "statistics"]

/-- base class and fields of `HMCSampleChainsOutputs` -/
def hmcOutputsFields : List String :=
  ["<NamedTuple>", "final_states", "traces", "statistics"]

/-- statements the extractor dropped: (function, allow-list entry, first line of the source) -/
def dropped : List (String × String × String) := [
  ("_check_and_process_init_state", "message text", "msg = f'init_state does contain have {var_key} value required by {trans_key} transition.'"),
  ("_check_and_process_init_state", "message text", "msg = 'init_state should be a dictionary or ChainState.'"),
  ("_get_per_chain_rngs", "message text", "msg = f'Unsupported random number generator type {type(base_rng)}.'"),
  ("_preprocess_init_state", "message text", "msg = 'init_state should be an array or `ChainState` with `mom` attribute.'")]

end StorageExpected

/-! ## Readings of the generated trees as storage facts

`Skel.Storage`: small symbolic readings of the allocation statements.  A reading recognises one exact
statement shape (anything else is `none`), returns a finite *plan* (compared by the kernel with the
expected plan) and the plan is given a meaning as a function of the run-time quantities
(`n_chain`, `n_iter`, shape and dtype kind of the traced value); the theorems of `Props/C13K.lean` /
`C15K.lean` about the meaning hold for all values of those quantities. -/
namespace Storage

/-- NumPy dtype kinds a traced value / a statistic can have. -/
inductive Kind where
  | bool | int8 | int32 | int64 | uint8 | uint64
  | float16 | float32 | float64 | longdouble
  | complex64 | complex128 | clongdouble
  | str_ | bytes_ | object_ | datetime64
  deriving DecidableEq, Repr

def Kind.all : List Kind :=
  [.bool, .int8, .int32, .int64, .uint8, .uint64, .float16, .float32, .float64, .longdouble,
   .complex64, .complex128, .clongdouble, .str_, .bytes_, .object_, .datetime64]

def Kind.floating : Kind → Bool
  | .float16 | .float32 | .float64 | .longdouble => true
  | _ => false
def Kind.complexfloating : Kind → Bool
  | .complex64 | .complex128 | .clongdouble => true
  | _ => false
/-- `np.issubdtype(k, np.inexact)`: exactly the kinds that can hold NaN -/
def Kind.inexact (k : Kind) : Bool := k.floating || k.complexfloating
def Kind.integer : Kind → Bool
  | .int8 | .int32 | .int64 | .uint8 | .uint64 => true
  | _ => false

/-- NumPy's abstract / concrete scalar classes as predicates on kinds (second argument of
`np.issubdtype`); an unlisted name is not understood. -/
def classMember : String → Option (Kind → Bool)
  | "np.inexact" => some Kind.inexact
  | "np.floating" => some Kind.floating
  | "np.complexfloating" => some Kind.complexfloating
  | "np.integer" => some Kind.integer
  | "np.number" => some fun k => k.inexact || k.integer
  | "np.generic" => some fun _ => true
  | "np.float64" | "np.double" | "float" => some (· == .float64)
  | "np.float32" | "np.single" => some (· == .float32)
  | "np.float16" | "np.half" => some (· == .float16)
  | "np.complex128" | "complex" => some (· == .complex128)
  | _ => Option.none

/-- what an array is pre-filled with -/
inductive Fill where
  | nan | zero
  /-- the fill value declared next to the dtype in `statistic_types` -/
  | declared
  | other (e : E)
  deriving DecidableEq, Repr

/-- which dtype an array is created with -/
inductive DT where
  /-- dtype of the value the trace function returned for the initial state -/
  | ofValue
  /-- the dtype declared in `statistic_types` -/
  | declared
  | other (e : E)
  deriving DecidableEq, Repr

/-- one axis (or splice of axes) of a shape tuple -/
inductive Dim where
  | nChain | nIter
  /-- `*array_val.shape` -/
  | valShape
  | other (e : E)
  deriving DecidableEq, Repr

def dimOf : E → Dim
  | .v "n_chain" => .nChain
  | .v "n_iter" => .nIter
  | .star (.v "array_val.shape") => .valShape
  | e => .other e

/-- a shape argument: a tuple display, or a bare `n_iter` (`_open_new_memmap` turns an `int` into a
1-tuple, see `openNewMemmap_int_shape`) -/
def dimsOf : E → List Dim
  | .tup items => items.items.map dimOf
  | e => [dimOf e]

def constFill : E → Fill
  | .v "np.nan" => .nan
  | .n 0 => .zero
  | e => .other e

/-- `init = A if np.issubdtype(array_val.dtype, C) else B` read as a function of the dtype kind. -/
def fillRule (body : List S) : Option (Kind → Fill) :=
  match (body.filterMap (fun s : S => match s with
      | .assign (.v "init") e => some e
      | _ => Option.none) : List E) with
  | [E.ite (.call "np.issubdtype" args) a b] =>
    match args.items with
    | [.v "array_val.dtype", .v c] => (classMember c).map fun m k => if m k then constFill a else constFill b
    | _ => Option.none
  | _ => Option.none

/-- Symbolic plan of one `if use_memmap: X[...] = [ _open_new_memmap(filename, shape, fill, dtype)
for filename in _generate_memmap_filenames(dir, prefix, key, indices) ] else: X[...] = list(np.full(shape',
fill', dtype'))`. -/
structure AllocPlan where
  target : E
  mapShape : List Dim
  mapFill : E
  mapDtype : E
  dir : E
  pre : E
  key : E
  indices : E
  memShape : List Dim
  memFill : E
  memDtype : E
  deriving DecidableEq, Repr

def allocPlan : S → Option AllocPlan
  | .ifc (.v "use_memmap")
      (.seq (.assign tgt (.call "<listcomp>" comp)) .skip)
      (.seq (.assign tgt' (.call "list" full)) .skip) =>
    match comp.items, full.items with
    | [.call "_open_new_memmap" oargs, .tup gen], [.call "np.full" fargs] =>
      match oargs.items, gen.items, fargs.items with
      | [.v "filename", sh, fl, dt], [.v "filename", .call "_generate_memmap_filenames" gargs], [sh', fl', dt'] =>
        match gargs.items with
        | [d, p, k, ix] =>
          if tgt = tgt' then
            some { target := tgt, mapShape := dimsOf sh, mapFill := fl, mapDtype := dt, dir := d, pre := p,
                   key := k, indices := ix, memShape := dimsOf sh', memFill := fl', memDtype := dt' }
          else Option.none
        | _ => Option.none
      | _, _, _ => Option.none
    | _, _ => Option.none
  | _ => Option.none

/-- the (unique) allocation statement of a function body, searched in all nested blocks -/
def findAlloc (s : S) : Option AllocPlan :=
  match s.all.filterMap allocPlan with
  | [p] => some p
  | _ => Option.none

/-- run-time quantities an allocation depends on -/
structure Env where
  nChain : Nat
  nIter : Nat
  valShape : List Nat
  kind : Kind

/-- description of one created array -/
structure Arr where
  shape : List Nat
  dtype : DT
  fill : Fill
  /-- memory-mapped file: (prefix, chain index, key expression); `none` = in memory -/
  file : Option (E × Nat × E)
  deriving DecidableEq, Repr

def evalDims (env : Env) : List Dim → Option (List Nat)
  | [] => some []
  | .nChain :: r => (evalDims env r).map (env.nChain :: ·)
  | .nIter :: r => (evalDims env r).map (env.nIter :: ·)
  | .valShape :: r => (evalDims env r).map (env.valShape ++ ·)
  | .other _ :: _ => Option.none

def evalDT : E → DT
  | .v "array_val.dtype" => .ofValue
  | .v "dtype" => .declared
  | e => .other e

/-- fill argument: the local `init` (given by the fill rule of the same body), the declared `val` -/
def evalFill (rule : Option (Kind → Fill)) (env : Env) : E → Fill
  | .v "init" => match rule with
    | some f => f env.kind
    | Option.none => .other (.v "init")
  | .v "val" => .declared
  | e => .other e

/-- `range(n_chain)` -/
def evalIndices (env : Env) : E → Option (List Nat)
  | .call "range" (.cons (.v "n_chain") .nil) => some (List.range env.nChain)
  | _ => Option.none

/-- arrays created by the in-memory branch: `list(np.full(shape, fill, dtype))` splits the first axis -/
def AllocPlan.memArrays (p : AllocPlan) (rule : Option (Kind → Fill)) (env : Env) : Option (List Arr) :=
  match evalDims env p.memShape with
  | some (n :: rest) => some (List.replicate n ⟨rest, evalDT p.memDtype, evalFill rule env p.memFill, Option.none⟩)
  | _ => Option.none

/-- arrays created by the memory-mapped branch: one file per element of `indices` -/
def AllocPlan.mapArrays (p : AllocPlan) (rule : Option (Kind → Fill)) (env : Env) : Option (List Arr) :=
  match evalDims env p.mapShape, evalIndices env p.indices with
  | some sh, some ix => some (ix.map fun i => ⟨sh, evalDT p.mapDtype, evalFill rule env p.mapFill, some (p.pre, i, p.key)⟩)
  | _, _ => Option.none

/-- the same arrays without the file names -/
def forgetFiles (xs : List Arr) : List Arr := xs.map fun a => { a with file := Option.none }

/-- expected plan of `_init_traces` -/
def tracesPlan : AllocPlan :=
  { target := .sub (.v "traces") (.v "key")
    mapShape := [.nIter, .valShape], mapFill := .v "init", mapDtype := .v "array_val.dtype"
    dir := .v "memmap_path", pre := .s "trace", key := .v "key", indices := .call "range" (E.l [.v "n_chain"])
    memShape := [.nChain, .nIter, .valShape], memFill := .v "init", memDtype := .v "array_val.dtype" }

/-- expected plan of `_init_stats` -/
def statsPlan : AllocPlan :=
  { target := .sub (.sub (.v "stats") (.v "trans_key")) (.v "key")
    mapShape := [.nIter], mapFill := .v "val", mapDtype := .v "dtype"
    dir := .v "memmap_path", pre := .s "stats"
    key := .call "<fstring>" (E.l [.v "trans_key", .s "_", .v "key"])
    indices := .call "range" (E.l [.v "n_chain"])
    memShape := [.nChain, .nIter], memFill := .v "val", memDtype := .v "dtype" }

/-- file-name template of `_generate_memmap_filenames`: the parts of the f-string joined to the
directory, and the comprehension variable / iterable -/
def fileNameTemplate (s : S) : Option (List E × E × E) :=
  match s.stmts.getLast? with
  | some (.ret (.call "<listcomp>" comp)) =>
    match comp.items with
    | [.op "/" parts, .tup gen] =>
      match parts.items, gen.items with
      | [.v "dir_path", .call "<fstring>" fs], [var, it] => some (fs.items, var, it)
      | _, _ => Option.none
    | _ => Option.none
  | _ => Option.none

/-- a file name as the list of its varying parts -/
def fileName (pre : String) (index : Nat) (key : String) : String :=
  pre ++ "_" ++ toString index ++ "_" ++ key ++ ".npy"

/-- per-chain generator derivation of `_get_per_chain_rngs`: the two comprehension returns -/
inductive RngPlan where
  /-- `[default_rng(bit_generator.jumped(i)) for i in range(n_chain)]` -/
  | jumped (arg var iter : E)
  /-- `[default_rng(seed) for seed in seed_sequence.spawn(n_chain)]` -/
  | spawn (arg var iter : E)
  deriving DecidableEq, Repr

def rngPlans (s : S) : List RngPlan :=
  s.all.filterMap fun
    | .ret (.call "<listcomp>" comp) =>
      match comp.items with
      | [.call "default_rng" (.cons (.call "bit_generator.jumped" (.cons a .nil)) .nil), .tup gen] =>
        match gen.items with
        | [v, it] => some (.jumped a v it)
        | _ => Option.none
      | [.call "default_rng" (.cons a .nil), .tup gen] =>
        match gen.items with
        | [v, it] => some (.spawn a v it)
        | _ => Option.none
      | _ => Option.none
    | _ => Option.none

/-- stream identifiers of the per-chain generators: `jumped(i)` of the ONE base bit generator for
`i in range(n_chain)`; `Sampler.initSys` numbers the streams in the same way. -/
def RngPlan.streams (nChain : Nat) : RngPlan → Option (List Nat)
  | .jumped (.v "i") (.v "i") (.call "range" (.cons (.v "n_chain") .nil)) => some (List.range nChain)
  /- children `0 … n_chain-1` of the ONE seed sequence of the base bit generator -/
  | .spawn (.v "seed") (.v "seed") (.call "seed_sequence.spawn" (.cons (.v "n_chain") .nil)) =>
      some (List.range nChain)
  | _ => Option.none

end Storage

end MiciVerif.Skel
