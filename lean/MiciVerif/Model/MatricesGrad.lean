/-
C11 — model of the differentiable matrix classes of `mici/matrices.py`.

Every definition is generic over a commutative ring `R` (executed at `R = ℚ` and at
`R = DualNumber ℚ` by `Driver/C11.lean`, instantiated at `DualNumber K` in the theorems).

Conventions
* A class is modelled by its *defining formula* `Mcls θ : Matrix n n R` as a function of
  the parameter `θ` that is the first argument of the class's `__init__`
  (scalar, 1-D array, 2-D array, tuple of blocks).
* The gradient definitions mirror the Python bodies of `grad_log_abs_det` and
  `grad_quadratic_form_inv` term by term.  Where the code divides by a scalar or uses
  `self.inv`, `self.factor.inv` the model takes the inverse as *checked data*
  (`ci` with `c * ci = 1`, `X` with `M * X = 1`, `Y` with `F * Y = 1`): `a / b` is `a * bi`.
* `⟨·,·⟩` in the parameter's own structure: product for scalars, `innerVec` for 1-D arrays,
  `innerMat` (sum over ALL entries) for 2-D arrays, sum over the components for tuples.
-/
import Mathlib.Data.Matrix.Block
import Mathlib.Data.Matrix.Mul
import Mathlib.Algebra.BigOperators.Group.Finset.Basic
import Mathlib.Algebra.Field.Defs
import Mathlib.Algebra.Order.Group.Unbundled.Abs

namespace MiciVerif.MatricesGrad
open Matrix

variable {R : Type*} [CommRing R]
variable {n m : Type*}

/-! ### inner products and outer product -/

/-- `⟨g, δ⟩` for 1-D array parameters. -/
def innerVec [Fintype n] (g d : n → R) : R := ∑ i, g i * d i

/-- `⟨G, Δ⟩` for 2-D array parameters: sum over **all** entries. -/
def innerMat [Fintype n] [Fintype m] (G D : Matrix n m R) : R := ∑ i, ∑ j, G i j * D i j

/-- `np.outer(u, w)`. -/
def outer (u : n → R) (w : m → R) : Matrix n m R := Matrix.of fun i j => u i * w j

/-! ### ScaledIdentityMatrix / PositiveScaledIdentityMatrix (parameter: scalar `c`) -/

/-- `scalar * np.identity(size)` -/
def scaledId (n : Type*) [DecidableEq n] (c : R) : Matrix n n R := c • (1 : Matrix n n R)

/-- `grad_log_abs_det = self.shape[0] / self._scalar` (`ci` is the checked `1 / scalar`). -/
def scaledIdGradLogDet (n : Type*) [Fintype n] (ci : R) : R := (Fintype.card n : R) * ci

/-- `grad_quadratic_form_inv(v) = -np.sum(v**2) / self._scalar**2` -/
def scaledIdGradQuad [Fintype n] (ci : R) (v : n → R) : R := -(∑ i, v i ^ 2) * ci ^ 2

/-! ### DiagonalMatrix / PositiveDiagonalMatrix (parameter: 1-D array `d`) -/

/-- `np.diag(diagonal)` -/
def diagMat [DecidableEq n] (d : n → R) : Matrix n n R := Matrix.diagonal d

/-- `grad_log_abs_det = 1.0 / self.diagonal` (`di` is the checked entrywise `1 / d`). -/
def diagGradLogDet (di : n → R) : n → R := di

/-- `grad_quadratic_form_inv(v) = -((self.inv @ v) ** 2)`, `self.inv = DiagonalMatrix(1/d)`. -/
def diagGradQuad (di v : n → R) : n → R := fun i => -((di i * v i) ^ 2)

/-! ### TriangularFactored(Positive)DefiniteMatrix (parameter: 2-D array, stored triangle) -/

/-- `_make_array_triangular(array, lower)` = `np.tril` / `np.triu`. -/
def tri [LinearOrder n] (lower : Bool) (A : Matrix n n R) : Matrix n n R :=
  Matrix.of fun i j => if (if lower then j ≤ i else i ≤ j) then A i j else 0

/-- `sign * factor @ factor.T` with `factor = TriangularMatrix(array, lower)`. -/
def triFactored [Fintype n] [LinearOrder n] (lower : Bool) (s : R) (A : Matrix n n R) :
    Matrix n n R :=
  s • (tri lower A * (tri lower A)ᵀ)

/-- `self.inv = TriangularFactoredDefiniteMatrix(factor.inv.T, sign)`, i.e.
`sign * factor.inv.T @ factor.inv`; `Y` is the checked inverse of the factor. -/
def triFactoredInv [Fintype n] (s : R) (Y : Matrix n n R) : Matrix n n R := s • (Yᵀ * Y)

/-- `grad_log_abs_det = np.diag(2 / self.factor.diagonal)` (`fdi i` checked `1 / F i i`). -/
def triFactoredGradLogDet [DecidableEq n] (fdi : n → R) : Matrix n n R :=
  Matrix.diagonal fun i => 2 * fdi i

/-- `grad_quadratic_form_inv(v) =
   _make_array_triangular(-2 * np.outer(self.inv @ v, self.factor.inv @ v), lower)` -/
def triFactoredGradQuad [Fintype n] [LinearOrder n] (lower : Bool) (s : R) (Y : Matrix n n R)
    (v : n → R) : Matrix n n R :=
  tri lower ((-2 : R) • outer (triFactoredInv s Y *ᵥ v) (Y *ᵥ v))

/-- The formula before fix ad3d7b3 (`reverts/C11-trifactored-gradq-sign.diff`):
`-2 * self.sign * np.outer(...)`.  Only used to show that it contradicts the theorem. -/
def triFactoredGradQuadReverted [Fintype n] [LinearOrder n] (lower : Bool) (s : R)
    (Y : Matrix n n R) (v : n → R) : Matrix n n R :=
  tri lower ((-2 * s : R) • outer (triFactoredInv s Y *ᵥ v) (Y *ᵥ v))

/-! ### DenseDefiniteMatrix / DensePositiveDefiniteMatrix (parameter: full 2-D array) -/

/-- `grad_log_abs_det = self.inv.array` -/
def denseGradLogDet (X : Matrix n n R) : Matrix n n R := X

/-- `grad_quadratic_form_inv(v) = -np.outer(self.inv @ v, self.inv @ v)` -/
def denseGradQuad [Fintype n] (X : Matrix n n R) (v : n → R) : Matrix n n R :=
  -(outer (X *ᵥ v) (X *ᵥ v))

/-! ### DensePositiveDefiniteProductMatrix (parameter: rectangular 2-D array `Rm`) -/

/-- `rect_matrix @ pos_def_matrix @ rect_matrix.T` -/
def prodMat [Fintype m] (Rm : Matrix n m R) (P : Matrix m m R) : Matrix n n R := Rm * P * Rmᵀ

/-- `grad_log_abs_det = 2 * (self.inv @ (rect_matrix.array @ pos_def_matrix))` -/
def prodGradLogDet [Fintype n] [Fintype m] (X : Matrix n n R) (Rm : Matrix n m R)
    (P : Matrix m m R) : Matrix n m R :=
  (2 : R) • (X * (Rm * P))

/-- `grad_quadratic_form_inv(v) =
   -2 * np.outer(self.inv @ v, pos_def_matrix @ (rect_matrix.T @ (self.inv @ v)))` -/
def prodGradQuad [Fintype n] [Fintype m] (X : Matrix n n R) (Rm : Matrix n m R)
    (P : Matrix m m R) (v : n → R) : Matrix n m R :=
  (-2 : R) • outer (X *ᵥ v) (P *ᵥ (Rmᵀ *ᵥ (X *ᵥ v)))

/-! ### PositiveDefiniteLowRankUpdateMatrix (parameter: factor matrix `U`) -/

/-- `pos_def_matrix + sign * factor_matrix @ inner_pos_def_matrix @ factor_matrix.T` -/
def lowRank [Fintype m] (s : R) (P : Matrix n n R) (U : Matrix n m R) (K : Matrix m m R) :
    Matrix n n R :=
  P + s • (U * K * Uᵀ)

/-- `grad_log_abs_det = 2 * sign * (self.inv @ (factor_matrix.array @ inner_pos_def_matrix))` -/
def lowRankGradLogDet [Fintype n] [Fintype m] (s : R) (X : Matrix n n R) (U : Matrix n m R)
    (K : Matrix m m R) : Matrix n m R :=
  (2 * s : R) • (X * (U * K))

/-- `grad_quadratic_form_inv(v) = -2 * sign *
   np.outer(self.inv @ v, inner_pos_def_matrix @ (factor_matrix.T @ (self.inv @ v)))` -/
def lowRankGradQuad [Fintype n] [Fintype m] (s : R) (X : Matrix n n R) (U : Matrix n m R)
    (K : Matrix m m R) (v : n → R) : Matrix n m R :=
  (-2 * s : R) • outer (X *ᵥ v) (K *ᵥ (Uᵀ *ᵥ (X *ᵥ v)))

/-- The formulas before fix e64bd82 (`reverts/C10-lowrank-downdate-sign.diff`): no `sign`. -/
def lowRankGradLogDetReverted [Fintype n] [Fintype m] (X : Matrix n n R) (U : Matrix n m R)
    (K : Matrix m m R) : Matrix n m R :=
  (2 : R) • (X * (U * K))

/-! ### PositiveDefiniteBlockDiagonalMatrix (parameter: tuple of blocks; binary case) -/

/-- `scipy.linalg.block_diag(A, B)` -/
def blockDiag2 (A : Matrix n n R) (B : Matrix m m R) : Matrix (n ⊕ m) (n ⊕ m) R :=
  Matrix.fromBlocks A 0 0 B

/-! ### SoftAbsRegularizedPositiveDefiniteMatrix for a *polynomial* spectral function

The spectral function is a polynomial given by its coefficient list `p = [a₀, a₁, …]`
(`f x = Σ aₖ xᵏ`, Horner form).  `tanh` is not algebraic: the real soft-abs is covered by
the harness only. -/

/-- `f x` -/
def polyEval : List R → R → R
  | [], _ => 0
  | a :: p, x => a + x * polyEval p x

/-- `f' x` -/
def polyDeriv : List R → R → R
  | [], _ => 0
  | _ :: p, x => polyEval p x + x * polyDeriv p x

/-- divided difference `(f x - f y) / (x - y)` as a polynomial in `x, y`
(`= Σₖ aₖ Σ_{i+j=k-1} xⁱ yʲ`); equals `f' x` at `y = x`. -/
def polyDD : List R → R → R → R
  | [], _, _ => 0
  | _ :: p, x, y => polyEval p y + x * polyDD p x y

/-- `f(H) = Σ aₖ Hᵏ` for a square matrix `H`. -/
def polyMat [Fintype n] [DecidableEq n] : List R → Matrix n n R → Matrix n n R
  | [], _ => 0
  | a :: p, H => a • (1 : Matrix n n R) + H * polyMat p H

/-- Fréchet derivative `D f(H)[δ] = Σₖ aₖ Σ_{i+j=k-1} Hⁱ δ Hʲ`. -/
def polyMatD [Fintype n] [DecidableEq n] : List R → Matrix n n R → Matrix n n R → Matrix n n R
  | [], _, _ => 0
  | _ :: p, H, δ => δ * polyMat p H + H * polyMatD p H δ

/-- `eigvec @ diag(eigval) @ eigvec.T` -/
def specMat [Fintype n] [DecidableEq n] (Q : Matrix n n R) (lam : n → R) : Matrix n n R :=
  Q * Matrix.diagonal lam * Qᵀ

/-- `grad_log_abs_det = eigvec @ diag(grad_softabs(unreg_eigval) / eigval) @ eigvec.T`
(`fli a` is the checked `1 / f(λ a)`, `dfl a = f'(λ a)`). -/
def softabsGradLogDet [Fintype n] [DecidableEq n] (Q : Matrix n n R) (dfl fli : n → R) :
    Matrix n n R :=
  specMat Q fun a => dfl a * fli a

/-- `grad_quadratic_form_inv(v) = -(eigvec @ (np.outer(e, e) * J) @ eigvec.T)` with
`e = (eigvec.T @ v) / eigval` and `J` the divided-difference matrix. -/
def softabsGradQuad [Fintype n] (Q : Matrix n n R) (fli : n → R) (J : Matrix n n R)
    (v : n → R) : Matrix n n R :=
  -(Q * (Matrix.of fun a b =>
      ((Qᵀ *ᵥ v) a * fli a) * ((Qᵀ *ᵥ v) b * fli b) * J a b) * Qᵀ)

/-- The code's `j_mtx` over an ordered field: for pairs of unregularised eigenvalues the code
treats as coincident, `|λa-λb| ≤ tol·max(|λa+λb|, 1)` (all diagonal terms **and** repeated
eigenvalues; `tol = sqrt(eps)` in floating point, `tol = 0` in exact arithmetic), the derivative
at the midpoint `grad_softabs((λa+λb)/2)`, the divided difference elsewhere. -/
def softabsJ {K : Type*} [Field K] [LinearOrder K] (tol : K) (f df : K → K) (lam : n → K) :
    Matrix n n K :=
  Matrix.of fun a b =>
    if |lam a - lam b| ≤ tol * max |lam a + lam b| 1 then df ((lam a + lam b) / 2)
    else (f (lam a) - f (lam b)) / (lam a - lam b)

end MiciVerif.MatricesGrad
