/-
Model of the fixed-point solvers of `mici.solvers` (`solve_fixed_point_direct`,
`solve_fixed_point_steffensen`) with fault injection, mirroring the code line by line.

The iterate type `α`, the user function `func` (indexed by its call number so that a fault can
be scripted at any call), the norm of a difference and — for Steffensen — the update formula
are parameters.  `XR` (rationals extended by ±inf and NaN with IEEE comparison semantics) is
the executable instance used by the driver.  Core Lean only.
-/
namespace MiciVerif.Solvers

/-- what a user-supplied function can raise -/
inductive Fault | valueError | linAlgError | foreign
  deriving DecidableEq, Repr

/-- result of a solver call -/
inductive Out (α : Type) where
  | ok (x : α)          -- returned normally
  | convErr             -- raised ConvergenceError
  | foreignErr          -- some other exception propagated
  deriving Repr

/-- value of `norm(x - x0)` as a float: finite, +inf or NaN -/
inductive XNorm | fin (q : Rat) | inf | nan
  deriving DecidableEq, Repr

/-- `error > divergence_tol or np.isnan(error)` -/
def XNorm.diverged (e : XNorm) (dtol : Rat) : Bool :=
  match e with
  | .fin q => decide (dtol < q)
  | .inf => true
  | .nan => true

/-- `error < convergence_tol` -/
def XNorm.converged (e : XNorm) (ctol : Rat) : Bool :=
  match e with
  | .fin q => decide (q < ctol)
  | _ => false

/-- `except (ValueError, LinAlgError) as e: raise ConvergenceError(...) from e` -/
def handle {α : Type} (f : Fault) : Out α :=
  match f with
  | .foreign => .foreignErr
  | _ => .convErr

section
variable {α : Type}

/-- `solve_fixed_point_direct`; `i` = iteration index = index of the `func` call. -/
def direct (func : Nat → α → Except Fault α) (normDiff : α → α → Except Fault XNorm)
    (ctol dtol : Rat) : (fuel : Nat) → (i : Nat) → α → Out α
  | 0, _, _ => .convErr                                   -- loop exhausted: raise after the loop
  | fuel + 1, i, x0 =>
    match func i x0 with
    | .error f => handle f
    | .ok x =>
      match normDiff x x0 with
      | .error f => handle f
      | .ok e =>
        if e.diverged dtol then .convErr
        else if e.converged ctol then .ok x
        else direct func normDiff ctol dtol fuel (i + 1) x

/-- `solve_fixed_point_steffensen`; the two `func` calls of iteration `i` have indices `2i`,
`2i+1`; `upd x0 x1 x2 = x0 - (x1 - x0)**2 / denom` with the zero-denominator replacement. -/
def steffensen (func : Nat → α → Except Fault α) (upd : α → α → α → Except Fault α)
    (normDiff : α → α → Except Fault XNorm) (ctol dtol : Rat) : (fuel : Nat) → (i : Nat) → α → Out α
  | 0, _, _ => .convErr
  | fuel + 1, i, x0 =>
    match func (2 * i) x0 with
    | .error f => handle f
    | .ok x1 =>
      match func (2 * i + 1) x1 with
      | .error f => handle f
      | .ok x2 =>
        match upd x0 x1 x2 with
        | .error f => handle f
        | .ok x =>
          match normDiff x x0 with
          | .error f => handle f
          | .ok e =>
            if e.diverged dtol then .convErr
            else if e.converged ctol then .ok x
            else steffensen func upd normDiff ctol dtol fuel (i + 1) x
end

/-! ### executable scalar instance -/

inductive XR | fin (q : Rat) | pinf | ninf | nan
  deriving DecidableEq, Repr

namespace XR
def neg : XR → XR
  | fin q => fin (-q) | pinf => ninf | ninf => pinf | nan => nan
def add : XR → XR → XR
  | nan, _ => nan | _, nan => nan
  | fin a, fin b => fin (a + b)
  | pinf, ninf => nan | ninf, pinf => nan
  | pinf, _ => pinf | _, pinf => pinf
  | ninf, _ => ninf | _, ninf => ninf
def sub (a b : XR) : XR := add a (neg b)
def smul (c : Rat) : XR → XR
  | fin q => fin (c * q)
  | nan => nan
  | pinf => if c = 0 then nan else if c > 0 then pinf else ninf
  | ninf => if c = 0 then nan else if c > 0 then ninf else pinf
def absNorm : XR → XNorm
  | fin q => .fin (if q < 0 then -q else q)
  | pinf => .inf | ninf => .inf | nan => .nan
end XR

end MiciVerif.Solvers
