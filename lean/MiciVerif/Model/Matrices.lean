/-
Model of `mici.matrices` (C10): one constructor of `MExpr` per matrix class, holding the
constructor parameters and the *checked* factors (inverses / triangular solves / LU solves /
eigen-data are data; their defining equations are collected in `WF`), the dense meaning
`denote`, and the structured operations written the way the classes write them
(`T`, `inv`, `smul`, `leftMul`, `rightMul`, `diagonal`, `sdet`, `cls`).

Conventions
* `Mat m n K = Matrix (Fin m) (Fin n) K`; sizes are runtime values in the driver and universally
  quantified in the theorems.
* `scipy.linalg.solve_triangular(A, b)` / `lu_solve` / `cho_solve` are modelled as multiplication
  by the checked inverse `X` (`A * X = 1` is part of `WF`).  LAPACK itself is in the trusted base.
* a scalar multiple is `smul sg r e` and stands for `scalar = sg * r²` (`r = |scalar| ** 0.5` is what
  the factored classes need; over ℚ the harness only sends scalars that are ± squares).
* `log_abs_det` is modelled by the determinant it is the log-abs of (`sdet`): sums of logs are
  products of determinants; the sign is lost by `abs`, so the theorem is `sdet² = det²`.
* `force` tabulates a matrix (so the interpreter evaluates every node once); `force M = M`.
-/
import Mathlib.Data.Matrix.Block
import Mathlib.Data.Matrix.ColumnRowPartitioned
import Mathlib.LinearAlgebra.Matrix.Determinant.Basic
import Mathlib.Logic.Equiv.Fin.Basic

namespace MiciVerif.Matrices
open Matrix

abbrev Mat (m n : ℕ) (K : Type) := Matrix (Fin m) (Fin n) K

/-- A matrix as a *value*: a structure, so that computing it really runs (Lean's compiler
eta-expands definitions of function type such as `Matrix`, which would otherwise re-evaluate the
whole expression at every entry access). -/
structure MatBox (m n : ℕ) (K : Type) where
  M : Mat m n K

/-- Tabulate a matrix into arrays (each entry computed exactly once) and return it as a value. -/
@[noinline] def boxForce {K : Type} {m n : ℕ} (M : Mat m n K) : MatBox m n K :=
  let tbl : Array (Array K) := Array.ofFn fun i : Fin m => Array.ofFn fun j : Fin n => M i j
  ⟨Matrix.of fun i j =>
    if h : i.val < tbl.size then
      let row := tbl[i.val]
      if h2 : j.val < row.size then row[j.val] else M i j
    else M i j⟩

@[simp] theorem boxForce_M {K : Type} {m n : ℕ} (M : Mat m n K) : (boxForce M).M = M := by
  ext i j
  simp [boxForce]

/-- Tabulated copy of a matrix (evaluation sharing); semantically the identity. -/
@[macro_inline] def force {K : Type} {m n : ℕ} (M : Mat m n K) : Mat m n K := (boxForce M).M

@[simp] theorem force_eq {K : Type} {m n : ℕ} (M : Mat m n K) : force M = M := boxForce_M M

/-- Decide equality of two matrix values entrywise. -/
@[noinline] def decEqBox {K : Type} [DecidableEq K] {m n : ℕ} (A B : MatBox m n K) : Decidable (A.M = B.M) :=
  inferInstance

/-- `sign ∈ {+1, -1}`. -/
inductive Sgn | pos | neg
  deriving DecidableEq, Repr

namespace Sgn
def val {K : Type} [One K] [Neg K] : Sgn → K
  | pos => 1
  | neg => -1
def mul : Sgn → Sgn → Sgn
  | pos, s => s
  | neg, pos => neg
  | neg, neg => pos
def flip : Sgn → Sgn
  | pos => neg
  | neg => pos
def isPos : Sgn → Bool
  | pos => true
  | neg => false
end Sgn

section Blocks
variable {K : Type}

/-- `scipy.linalg.block_diag(A, B)`. -/
def bdiag [Zero K] {m n : ℕ} (A : Mat m m K) (B : Mat n n K) : Mat (m + n) (m + n) K :=
  Matrix.reindex finSumFinEquiv finSumFinEquiv (Matrix.fromBlocks A 0 0 B)

/-- `np.concatenate([A, B], axis=1)`. -/
def brow {m n p : ℕ} (A : Mat m n K) (B : Mat m p K) : Mat m (n + p) K :=
  Matrix.reindex (Equiv.refl _) finSumFinEquiv (Matrix.fromCols A B)

/-- `np.concatenate([A, B], axis=0)`. -/
def bcol {m n p : ℕ} (A : Mat m n K) (B : Mat p n K) : Mat (m + p) n K :=
  Matrix.reindex finSumFinEquiv (Equiv.refl _) (Matrix.fromRows A B)

/-- `np.split(B, [m], axis=0)`. -/
def topRows {m n p : ℕ} (B : Mat (m + n) p K) : Mat m p K := B.submatrix (Fin.castAdd n) id
def botRows {m n p : ℕ} (B : Mat (m + n) p K) : Mat n p K := B.submatrix (Fin.natAdd m) id
/-- `np.split(B, [m], axis=-1)`. -/
def leftCols {m n p : ℕ} (B : Mat p (m + n) K) : Mat p m K := B.submatrix id (Fin.castAdd n)
def rightCols {m n p : ℕ} (B : Mat p (m + n) K) : Mat p n K := B.submatrix id (Fin.natAdd m)

/-- Diagonal of a possibly non-square array (`array.diagonal()`), padded with zeros. -/
def diagOf [Zero K] {m n : ℕ} (M : Mat m n K) : Fin m → K :=
  fun i => if h : i.val < n then M i ⟨i.val, h⟩ else 0

/-- Determinant of a matrix whose shape is only known to be square at run time. -/
def detOf [CommRing K] {m n : ℕ} (M : Mat m n K) : K :=
  if h : m = n then Matrix.det (M.submatrix id (Fin.cast h)) else 0

/-- Lower / upper triangularity (`np.tril(A) == A` / `np.triu(A) == A`). -/
def IsTri [Zero K] {n : ℕ} (lower : Bool) (A : Mat n n K) : Prop :=
  if lower then ∀ i j : Fin n, i < j → A i j = 0 else ∀ i j : Fin n, j < i → A i j = 0

instance [Zero K] [DecidableEq K] {n : ℕ} (lower : Bool) (A : Mat n n K) : Decidable (IsTri lower A) := by
  haveI : ∀ i j : Fin n, Decidable (i < j → A i j = 0) := fun i j => inferInstance
  haveI : ∀ i j : Fin n, Decidable (j < i → A i j = 0) := fun i j => inferInstance
  unfold IsTri; split <;> infer_instance

end Blocks

/-- A `TriangularMatrix` (`inverse = false`, `array = A`) or an `InverseTriangularMatrix`
(`inverse = true`, `inverse_array = A`); `X` is the checked inverse of `A`
(what `solve_triangular(A, ·)` multiplies by). -/
structure TriF (n : ℕ) (K : Type) where
  inverse : Bool
  lower : Bool
  A : Mat n n K
  X : Mat n n K

namespace TriF
variable {K : Type} [Field K] {n : ℕ}

def denote (f : TriF n K) : Mat n n K := if f.inverse then f.X else f.A
/-- `_construct_transpose`: transposed array, `lower` flipped. -/
def T (f : TriF n K) : TriF n K := ⟨f.inverse, !f.lower, f.Aᵀ, f.Xᵀ⟩
/-- `_construct_inv`: same array, other class. -/
def inv (f : TriF n K) : TriF n K := ⟨!f.inverse, f.lower, f.A, f.X⟩
/-- `_scalar_multiply`: `array * c` for `TriangularMatrix`, `inverse_array / c` for the inverse. -/
def smul (c : K) (f : TriF n K) : TriF n K :=
  if f.inverse then ⟨true, f.lower, c⁻¹ • f.A, c • f.X⟩ else ⟨false, f.lower, c • f.A, c⁻¹ • f.X⟩
/-- `array @ other` or `solve_triangular(inverse_array, other)`. -/
def leftMul {p : ℕ} (f : TriF n K) (B : Mat n p K) : Mat n p K := force (f.denote * B)
/-- `other @ array` or `solve_triangular(inverse_array, other.T, trans=1).T`. -/
def rightMul {p : ℕ} (B : Mat p n K) (f : TriF n K) : Mat p n K := force (B * f.denote)
/-- `diagonal`: `array.diagonal()` or `1 / inverse_array.diagonal()`. -/
def diagonal (f : TriF n K) : Fin n → K :=
  if f.inverse then fun i => (f.A i i)⁻¹ else fun i => f.A i i
/-- `log_abs_det`: `log|diag|.sum()` or minus that of the inverse. -/
def sdet (f : TriF n K) : K :=
  if f.inverse then (∏ i, f.A i i)⁻¹ else ∏ i, f.A i i
def WF (f : TriF n K) : Prop := f.A * f.X = 1 ∧ IsTri f.lower f.A
instance [DecidableEq K] (f : TriF n K) : Decidable f.WF := by unfold WF; infer_instance
end TriF

inductive BDKind | square | symmetric | posdef
  deriving DecidableEq, Repr
inductive LRKind | square | symmetric | posdef
  deriving DecidableEq, Repr
/-- `MatrixProduct`, `SquareMatrixProduct`, `InvertibleMatrixProduct`. -/
inductive PKind | plain | square | invertible
  deriving DecidableEq, Repr

/-- Matrix objects.  Index = shape. -/
inductive MExpr (K : Type) : ℕ → ℕ → Type
  /-- `IdentityMatrix(n)` -/
  | identity (n : ℕ) : MExpr K n n
  /-- `ScaledIdentityMatrix(c, n)` / `PositiveScaledIdentityMatrix` (`pos`) -/
  | scaledId (n : ℕ) (pos : Bool) (c : K) : MExpr K n n
  /-- `DiagonalMatrix(d)` / `PositiveDiagonalMatrix` (`pos`) -/
  | diag {n : ℕ} (pos : Bool) (d : Fin n → K) : MExpr K n n
  /-- `TriangularMatrix` / `InverseTriangularMatrix` -/
  | tri {n : ℕ} (f : TriF n K) : MExpr K n n
  /-- `TriangularFactoredDefiniteMatrix(factor, sign)` / `…PositiveDefiniteMatrix` (`pd`) -/
  | triFact {n : ℕ} (pd : Bool) (s : Sgn) (f : TriF n K) : MExpr K n n
  /-- `DenseDefiniteMatrix(array, factor, is_posdef)` / `DensePositiveDefiniteMatrix` (`pd`);
  the (possibly lazily computed) factor is checked data: `A = s • F Fᵀ`. -/
  | denseDef {n : ℕ} (pd : Bool) (s : Sgn) (A : Mat n n K) (f : TriF n K) : MExpr K n n
  /-- `DenseSquareMatrix(A)` (`inverse = false`) / `InverseLUFactoredSquareMatrix(inv_array = A)`;
  the LU factorisation is abstracted to the checked inverse `X`. -/
  | lu {n : ℕ} (inverse : Bool) (A X : Mat n n K) : MExpr K n n
  /-- `DenseSymmetricMatrix(A, eigvec = Q, eigval = ev)` with checked eigen-data. -/
  | denseSym {n : ℕ} (A Q : Mat n n K) (ev : Fin n → K) : MExpr K n n
  /-- `OrthogonalMatrix(Q)` -/
  | orth {n : ℕ} (Q : Mat n n K) : MExpr K n n
  /-- `ScaledOrthogonalMatrix(c, Q)` -/
  | scaledOrth {n : ℕ} (c : K) (Q : Mat n n K) : MExpr K n n
  /-- `EigendecomposedSymmetricMatrix(Q, ev)` / `EigendecomposedPositiveDefiniteMatrix` (`pd`) -/
  | eigSym {n : ℕ} (pd : Bool) (Q : Mat n n K) (ev : Fin n → K) : MExpr K n n
  /-- `DenseRectangularMatrix(A)` -/
  | rect {m n : ℕ} (A : Mat m n K) : MExpr K m n
  /-- `SquareBlockDiagonalMatrix` / `Symmetric…` / `PositiveDefinite…` (binary; n-ary by nesting) -/
  | blockDiag {m n : ℕ} (k : BDKind) (a : MExpr K m m) (b : MExpr K n n) : MExpr K (m + n) (m + n)
  /-- `BlockRowMatrix` -/
  | blockRow {m n p : ℕ} (a : MExpr K m n) (b : MExpr K m p) : MExpr K m (n + p)
  /-- `BlockColumnMatrix` -/
  | blockCol {m n p : ℕ} (a : MExpr K m n) (b : MExpr K p n) : MExpr K (m + p) n
  /-- `MatrixProduct((a, b))` and its two subclasses (binary; n-ary by nesting) -/
  | prod {l m n : ℕ} (pk : PKind) (a : MExpr K l m) (b : MExpr K m n) : MExpr K l n
  /-- `SquareLowRankUpdateMatrix(U, V, S, Kin, C, sign)` and the symmetric / positive-definite
  subclasses (`V` is then `U.T`); `C` is the capacitance matrix object. -/
  | lowRank {n k : ℕ} (kind : LRKind) (s : Sgn) (U : MExpr K n k) (V : MExpr K k n)
      (S : MExpr K n n) (Kin : MExpr K k k) (C : MExpr K k k) : MExpr K n n

namespace MExpr
variable {K : Type} [Field K]

/-- Dense meaning (`.array`). -/
def denote : {m n : ℕ} → MExpr K m n → Mat m n K
  | _, _, identity _ => 1
  | _, _, scaledId _ _ c => c • (1 : Mat _ _ K)
  | _, _, diag _ d => Matrix.diagonal d
  | _, _, tri f => f.denote
  | _, _, triFact _ s f => force ((s.val : K) • (f.denote * f.denoteᵀ))
  | _, _, denseDef _ _ A _ => A
  | _, _, lu inverse A X => if inverse then X else A
  | _, _, denseSym A _ _ => A
  | _, _, orth Q => Q
  | _, _, scaledOrth c Q => c • Q
  | _, _, eigSym _ Q ev => force (Q * Matrix.diagonal ev * Qᵀ)
  | _, _, rect A => A
  | _, _, blockDiag _ a b => bdiag (denote a) (denote b)
  | _, _, blockRow a b => brow (denote a) (denote b)
  | _, _, blockCol a b => bcol (denote a) (denote b)
  | _, _, prod _ a b => force (denote a * denote b)
  | _, _, lowRank _ s U V S Kin _ =>
      force (denote S + (s.val : K) • (denote U * denote Kin * denote V))

/-- `.T` (`_construct_transpose`). -/
def T : {m n : ℕ} → MExpr K m n → MExpr K n m
  | _, _, identity n => identity n
  | _, _, scaledId n p c => scaledId n p c
  | _, _, diag p d => diag p d
  | _, _, tri f => tri f.T
  | _, _, triFact pd s f => triFact pd s f
  | _, _, denseDef pd s A f => denseDef pd s A f
  | _, _, lu inverse A X => lu inverse Aᵀ Xᵀ
  | _, _, denseSym A Q ev => denseSym A Q ev
  | _, _, orth Q => orth Qᵀ
  | _, _, scaledOrth c Q => scaledOrth c Qᵀ
  | _, _, eigSym pd Q ev => eigSym pd Q ev
  | _, _, rect A => rect Aᵀ
  | _, _, blockDiag k a b =>
      match k with
      | .square => blockDiag .square (T a) (T b)
      | .symmetric => blockDiag .symmetric a b
      | .posdef => blockDiag .posdef a b
  | _, _, blockRow a b => blockCol (T a) (T b)
  | _, _, blockCol a b => blockRow (T a) (T b)
  | _, _, prod pk a b => prod pk (T b) (T a)
  | _, _, lowRank kind s U V S Kin C =>
      match kind with
      | .square => lowRank .square s (T V) (T U) (T S) (T Kin) (T C)
      | .symmetric => lowRank .symmetric s U V S Kin C
      | .posdef => lowRank .posdef s U V S Kin C

/-- Right factor of the inverse of a low-rank update: `V @ S⁻¹` for the square class,
`(S⁻¹ @ U).T = (U.T, S⁻¹)` for the symmetric classes. -/
def lrInvRight {n k : ℕ} (kind : LRKind) (V TU : MExpr K k n) (Si : MExpr K n n) : MExpr K k n :=
  match kind with
  | .square => prod .plain V Si
  | .symmetric => prod .plain TU Si
  | .posdef => prod .plain TU Si

/-- Class of a scalar multiple of a block-diagonal matrix. -/
def bdSmulKind (sg : Sgn) : BDKind → BDKind
  | .square => .square
  | .symmetric => .symmetric
  | .posdef => if sg.isPos then .posdef else .symmetric

/-- Class of a scalar multiple of a low-rank update. -/
def lrSmulKind (sg : Sgn) : LRKind → LRKind
  | .square => .square
  | .symmetric => .symmetric
  | .posdef => if sg.isPos then .posdef else .symmetric

/-- `.inv` (`_construct_inv`).  Total: on objects that are not `InvertibleMatrix` the result is
meaningless (but well-typed); see `IsInv`. -/
def inv : {m n : ℕ} → MExpr K m n → MExpr K n m
  | _, _, identity n => identity n
  | _, _, scaledId n p c => scaledId n p c⁻¹
  | _, _, diag p d => diag p (fun i => (d i)⁻¹)
  | _, _, tri f => tri f.inv
  | _, _, triFact pd s f => triFact pd s f.inv.T
  | _, _, denseDef pd s _ f =>
      denseDef pd s (force ((s.val : K) • (f.inv.T.denote * f.inv.T.denoteᵀ))) f.inv.T
  | _, _, lu inverse A X => lu (!inverse) A X
  | _, _, denseSym _ Q ev => eigSym false Q (fun i => (ev i)⁻¹)
  | _, _, orth Q => orth Qᵀ
  | _, _, scaledOrth c Q => scaledOrth c⁻¹ Qᵀ
  | _, _, eigSym pd Q ev => eigSym pd Q (fun i => (ev i)⁻¹)
  | _, _, rect A => rect Aᵀ
  | _, _, blockDiag k a b => blockDiag k (inv a) (inv b)
  | _, _, blockRow a b => blockCol (inv a) (inv b)
  | _, _, blockCol a b => blockRow (inv a) (inv b)
  | _, _, prod pk a b => prod pk (inv b) (inv a)
  | _, _, lowRank kind s U V S Kin C =>
      -- symmetric kinds: right factor `(S⁻¹ @ U).T = (U.T, S⁻¹.T)` and `S⁻¹.T is S⁻¹`
      lowRank kind s.flip (prod .plain (inv S) U) (lrInvRight kind V (T U) (inv S))
        (inv S) (inv C) (inv Kin)

/-- The scalar `sg * r²`. -/
def scal (sg : Sgn) (r : K) : K := (sg.val : K) * (r * r)

/-- `_scalar_multiply(sg * r²)` (also `/` and unary `-`). -/
def smul (sg : Sgn) (r : K) : {m n : ℕ} → MExpr K m n → MExpr K m n
  | _, _, identity n => scaledId n sg.isPos (scal sg r)
  | _, _, scaledId n p c => scaledId n (p && sg.isPos) (scal sg r * c)
  | _, _, diag p d => diag (p && sg.isPos) (fun i => d i * scal sg r)
  | _, _, tri f => tri (f.smul (scal sg r))
  | _, _, triFact pd s f => triFact (pd && sg.isPos) (s.mul sg) (f.smul r)
  | _, _, denseDef _ s A f => denseDef (s.mul sg).isPos (s.mul sg) (scal sg r • A) (f.smul r)
  | _, _, lu inverse A X =>
      if inverse then lu true ((scal sg r)⁻¹ • A) (scal sg r • X)
      else lu false (scal sg r • A) ((scal sg r)⁻¹ • X)
  | _, _, denseSym A Q ev => denseSym (scal sg r • A) Q (fun i => ev i * scal sg r)
  | _, _, orth Q => scaledOrth (scal sg r) Q
  | _, _, scaledOrth c Q => scaledOrth (scal sg r * c) Q
  | _, _, eigSym pd Q ev => eigSym (pd && sg.isPos) Q (fun i => ev i * scal sg r)
  | _, _, rect A => rect (scal sg r • A)
  | _, _, blockDiag k a b =>
      blockDiag (bdSmulKind sg k) (smul sg r a) (smul sg r b)
  | _, _, blockRow a b => blockRow (smul sg r a) (smul sg r b)
  | _, _, blockCol a b => blockCol (smul sg r a) (smul sg r b)
  | _, _, prod pk a b => prod pk (scaledId _ false (scal sg r)) (prod pk a b)
  | _, _, lowRank kind s U V S Kin C =>
      lowRank (lrSmulKind sg kind) s U V (smul sg r S) (smul sg r Kin) (smul sg r⁻¹ C)

/-- `_left_matrix_multiply(B)` (`self @ B` for an array `B`; vectors are one-column matrices). -/
def leftMul : {m n : ℕ} → MExpr K m n → {p : ℕ} → Mat n p K → Mat m p K
  | _, _, identity _, _, B => B
  | _, _, scaledId _ _ c, _, B => c • B
  | _, _, diag _ d, _, B => Matrix.of fun i j => d i * B i j
  | _, _, tri f, _, B => f.leftMul B
  | _, _, triFact _ s f, _, B => (s.val : K) • f.leftMul (f.T.leftMul B)
  | _, _, denseDef _ _ A _, _, B => force (A * B)
  | _, _, lu inverse A X, _, B => force ((if inverse then X else A) * B)
  | _, _, denseSym A _ _, _, B => force (A * B)
  | _, _, orth Q, _, B => force (Q * B)
  | _, _, scaledOrth c Q, _, B => c • force (Q * B)
  | _, _, eigSym _ Q ev, _, B =>
      force (Q * force (Matrix.of fun i j => ev i * (force (Qᵀ * B)) i j))
  | _, _, rect A, _, B => force (A * B)
  | _, _, blockDiag _ a b, _, B => bcol (leftMul a (topRows B)) (leftMul b (botRows B))
  | _, _, blockRow a b, _, B => force (leftMul a (topRows B) + leftMul b (botRows B))
  | _, _, blockCol a b, _, B => bcol (leftMul a B) (leftMul b B)
  | _, _, prod _ a b, _, B => leftMul a (leftMul b B)
  | _, _, lowRank _ s U V S Kin _, _, B =>
      force (leftMul S B + (s.val : K) • leftMul U (leftMul Kin (leftMul V B)))

/-- `_right_matrix_multiply(B)` (`B @ self`). -/
def rightMul : {m n : ℕ} → {p : ℕ} → Mat p m K → MExpr K m n → Mat p n K
  | _, _, _, B, identity _ => B
  | _, _, _, B, scaledId _ _ c => c • B
  | _, _, _, B, diag _ d => Matrix.of fun i j => d j * B i j
  | _, _, _, B, tri f => f.rightMul B
  | _, _, _, B, triFact _ s f => (s.val : K) • f.T.rightMul (f.rightMul B)
  | _, _, _, B, denseDef _ _ A _ => force (B * A)
  | _, _, _, B, lu inverse A X => force (B * (if inverse then X else A))
  | _, _, _, B, denseSym A _ _ => force (B * A)
  | _, _, _, B, orth Q => force (B * Q)
  | _, _, _, B, scaledOrth c Q => c • force (B * Q)
  | _, _, _, B, eigSym _ Q ev =>
      force (force (Matrix.of fun i j => ev j * (force (B * Q)) i j) * Qᵀ)
  | _, _, _, B, rect A => force (B * A)
  | _, _, _, B, blockDiag _ a b => brow (rightMul (leftCols B) a) (rightMul (rightCols B) b)
  | _, _, _, B, blockRow a b => brow (rightMul B a) (rightMul B b)
  | _, _, _, B, blockCol a b => force (rightMul (leftCols B) a + rightMul (rightCols B) b)
  | _, _, _, B, prod _ a b => rightMul (rightMul B a) b
  | _, _, _, B, lowRank _ s U V S Kin _ =>
      force (rightMul B S + rightMul (rightMul ((s.val : K) • rightMul B U) Kin) V)

/-- `.diagonal`. -/
def diagonal : {m n : ℕ} → MExpr K m n → (Fin m → K)
  | _, _, identity _ => fun _ => 1
  | _, _, scaledId _ _ c => fun _ => c
  | _, _, diag _ d => d
  | _, _, tri f => f.diagonal
  | _, _, scaledOrth c Q => fun i => c * Q i i
  | _, _, blockDiag _ a b => Fin.append (diagonal a) (diagonal b)
  | _, _, lowRank _ s U V S Kin _ =>
      let dS := diagonal S
      let R := rightMul (denote U) Kin
      let Vt := denote (T V)
      fun i => dS i + (s.val : K) * ∑ j, R i j * Vt i j
  | _, _, triFact pd s f => diagOf (denote (triFact pd s f))
  | _, _, denseDef _ _ A _ => diagOf A
  | _, _, lu inverse A X => diagOf (if inverse then X else A)
  | _, _, denseSym A _ _ => diagOf A
  | _, _, orth Q => diagOf Q
  | _, _, eigSym pd Q ev => diagOf (denote (eigSym pd Q ev))
  | _, _, rect A => diagOf A
  | _, _, blockRow a b => diagOf (denote (blockRow a b))
  | _, _, blockCol a b => diagOf (denote (blockCol a b))
  | _, _, prod pk a b => diagOf (denote (prod pk a b))

/-- The determinant that `log_abs_det` is the log-abs of, composed the way the classes compose it. -/
def sdet : {m n : ℕ} → MExpr K m n → K
  | _, _, identity _ => 1
  | n, _, scaledId _ _ c => c ^ n
  | _, _, diag _ d => ∏ i, d i
  | _, _, tri f => f.sdet
  | _, _, triFact _ _ f => f.sdet ^ 2
  | _, _, denseDef _ _ _ f => f.sdet ^ 2
  | _, _, lu inverse A _ => if inverse then (Matrix.det A)⁻¹ else Matrix.det A
  | _, _, denseSym _ _ ev => ∏ i, ev i
  | _, _, orth _ => 1
  | n, _, scaledOrth c _ => c ^ n
  | _, _, eigSym _ _ ev => ∏ i, ev i
  | _, _, rect _ => 0
  | _, _, blockDiag _ a b => sdet a * sdet b
  | _, _, blockRow _ _ => 0
  | _, _, blockCol _ _ => 0
  | _, _, prod _ a b => sdet a * sdet b
  | _, _, lowRank _ _ _ _ S Kin C => sdet S * sdet Kin * sdet C

/-- `isinstance(·, InvertibleMatrix)`. -/
def isInvClass : {m n : ℕ} → MExpr K m n → Bool
  | _, _, identity _ => true
  | _, _, scaledId _ _ _ => true
  | _, _, diag _ _ => true
  | _, _, tri _ => true
  | _, _, triFact _ _ _ => true
  | _, _, denseDef _ _ _ _ => true
  | _, _, lu _ _ _ => true
  | _, _, denseSym _ _ _ => true
  | _, _, orth _ => true
  | _, _, scaledOrth _ _ => true
  | _, _, eigSym _ _ _ => true
  | _, _, rect _ => false
  | _, _, blockDiag _ _ _ => true
  | _, _, blockRow _ _ => false
  | _, _, blockCol _ _ => false
  | _, _, prod pk _ _ => pk == .invertible
  | _, _, lowRank _ _ _ _ _ _ _ => true

/-- `_choose_matrix_product_class`. -/
def chooseProd {l m n : ℕ} (a : MExpr K l m) (b : MExpr K m n) : PKind :=
  if l = m ∧ m = n then
    if a.isInvClass && b.isInvClass then .invertible else .square
  else .plain

/-- `a @ b` for two `Matrix` objects. -/
def matmul {l m n : ℕ} (a : MExpr K l m) (b : MExpr K m n) : MExpr K l n :=
  prod (chooseProd a b) a b

/-- Name of the Python class of the object. -/
def cls : {m n : ℕ} → MExpr K m n → String
  | _, _, identity _ => "IdentityMatrix"
  | _, _, scaledId _ p _ => if p then "PositiveScaledIdentityMatrix" else "ScaledIdentityMatrix"
  | _, _, diag p _ => if p then "PositiveDiagonalMatrix" else "DiagonalMatrix"
  | _, _, tri f => if f.inverse then "InverseTriangularMatrix" else "TriangularMatrix"
  | _, _, triFact pd _ _ =>
      if pd then "TriangularFactoredPositiveDefiniteMatrix" else "TriangularFactoredDefiniteMatrix"
  | _, _, denseDef pd _ _ _ => if pd then "DensePositiveDefiniteMatrix" else "DenseDefiniteMatrix"
  | _, _, lu inverse _ _ => if inverse then "InverseLUFactoredSquareMatrix" else "DenseSquareMatrix"
  | _, _, denseSym _ _ _ => "DenseSymmetricMatrix"
  | _, _, orth _ => "OrthogonalMatrix"
  | _, _, scaledOrth _ _ => "ScaledOrthogonalMatrix"
  | _, _, eigSym pd _ _ =>
      if pd then "EigendecomposedPositiveDefiniteMatrix" else "EigendecomposedSymmetricMatrix"
  | _, _, rect _ => "DenseRectangularMatrix"
  | _, _, blockDiag k _ _ =>
      match k with
      | .square => "SquareBlockDiagonalMatrix"
      | .symmetric => "SymmetricBlockDiagonalMatrix"
      | .posdef => "PositiveDefiniteBlockDiagonalMatrix"
  | _, _, blockRow _ _ => "BlockRowMatrix"
  | _, _, blockCol _ _ => "BlockColumnMatrix"
  | _, _, prod pk _ _ =>
      match pk with
      | .plain => "MatrixProduct"
      | .square => "SquareMatrixProduct"
      | .invertible => "InvertibleMatrixProduct"
  | _, _, lowRank kind _ _ _ _ _ _ =>
      match kind with
      | .square => "SquareLowRankUpdateMatrix"
      | .symmetric => "SymmetricLowRankUpdateMatrix"
      | .posdef => "PositiveDefiniteLowRankUpdateMatrix"

/-- The object is an `InvertibleMatrix` whose `.inv` is meaningful. -/
def IsInv : {m n : ℕ} → MExpr K m n → Prop
  | _, _, identity _ => True
  | _, _, scaledId _ _ _ => True
  | _, _, diag _ _ => True
  | _, _, tri _ => True
  | _, _, triFact _ _ _ => True
  | _, _, denseDef _ _ _ _ => True
  | _, _, lu _ _ _ => True
  | _, _, denseSym _ _ _ => True
  | _, _, orth _ => True
  | _, _, scaledOrth _ _ => True
  | _, _, eigSym _ _ _ => True
  | _, _, rect _ => False
  | _, _, blockDiag _ a b => IsInv a ∧ IsInv b
  | _, _, blockRow _ _ => False
  | _, _, blockCol _ _ => False
  | _, _, prod pk a b => pk = .invertible ∧ IsInv a ∧ IsInv b
  | _, _, lowRank _ _ _ _ _ _ _ => True

/-- The object has a `log_abs_det`. -/
def HasDet : {m n : ℕ} → MExpr K m n → Prop
  | _, _, identity _ => True
  | _, _, scaledId _ _ _ => True
  | _, _, diag _ _ => True
  | _, _, tri _ => True
  | _, _, triFact _ _ _ => True
  | _, _, denseDef _ _ _ _ => True
  | _, _, lu _ _ _ => True
  | _, _, denseSym _ _ _ => True
  | _, _, orth _ => True
  | _, _, scaledOrth _ _ => True
  | _, _, eigSym _ _ _ => True
  | _, _, rect _ => False
  | _, _, blockDiag _ a b => HasDet a ∧ HasDet b
  | _, _, blockRow _ _ => False
  | _, _, blockCol _ _ => False
  | _, _, prod pk a b => pk ≠ .plain ∧ HasDet a ∧ HasDet b
  | _, _, lowRank _ _ _ _ S Kin C => HasDet S ∧ HasDet Kin ∧ HasDet C

/-- `(denote e)ᵀ = denote e` for a square object. -/
def IsSymm {n : ℕ} (e : MExpr K n n) : Prop := (denote e)ᵀ = denote e

/-- Well-formedness: constructor preconditions and the defining equations of all checked data. -/
def WF : {m n : ℕ} → MExpr K m n → Prop
  | _, _, identity _ => True
  | _, _, scaledId _ _ c => c ≠ 0
  | _, _, diag _ d => ∀ i, d i ≠ 0
  | _, _, tri f => f.WF
  | _, _, triFact _ _ f => f.WF
  | _, _, denseDef _ s A f => f.WF ∧ A = (s.val : K) • (f.denote * f.denoteᵀ)
  | _, _, lu _ A X => A * X = 1
  | _, _, denseSym A Q ev => Q * Qᵀ = 1 ∧ A = Q * Matrix.diagonal ev * Qᵀ ∧ ∀ i, ev i ≠ 0
  | _, _, orth Q => Q * Qᵀ = 1
  | _, _, scaledOrth c Q => c ≠ 0 ∧ Q * Qᵀ = 1
  | _, _, eigSym _ Q ev => Q * Qᵀ = 1 ∧ ∀ i, ev i ≠ 0
  | _, _, rect _ => True
  | _, _, blockDiag k a b => WF a ∧ WF b ∧ (k ≠ .square → IsSymm a ∧ IsSymm b)
  | _, _, blockRow a b => WF a ∧ WF b
  | _, _, blockCol a b => WF a ∧ WF b
  | l, n, @prod _ _ m _ pk a b => WF a ∧ WF b ∧ (pk ≠ .plain → l = m ∧ m = n)
  | _, _, lowRank kind s U V S Kin C =>
      WF U ∧ WF V ∧ WF S ∧ WF Kin ∧ WF C ∧ IsInv S ∧ IsInv Kin ∧ IsInv C ∧
      denote C = denote (inv Kin) + (s.val : K) • (denote V * denote (inv S) * denote U) ∧
      (kind ≠ .square → denote V = (denote U)ᵀ ∧ IsSymm S ∧ IsSymm Kin)

end MExpr
end MiciVerif.Matrices
