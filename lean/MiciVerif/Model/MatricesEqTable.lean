/-
C19 — table types for the generated equality / hash / constructor table of `mici.matrices`
(`Generated/MatrixEq.lean`, written by tools/extractors/matrix_eq.py), the hand-written list of the
stored parameters each class's dense array mathematically depends on (`denoteParams`), the decidable
soundness predicate, and the abstract object model the generic theorems are stated in.

Core Lean only (no Mathlib).
-/

namespace MiciVerif.MatricesEq

/-- One class of `mici.matrices`, as read off the source by the translator. -/
structure ClassEntry where
  /-- class name -/
  name : String
  /-- some abstract method is not overridden along the MRO (cannot be instantiated) -/
  abstract : Bool
  /-- C3 linearisation restricted to the classes of the module -/
  mro : List String
  /-- class whose `_compute_hash` is the effective one -/
  hashFrom : String
  /-- class whose `_check_equality` is the effective one -/
  eqFrom : String
  /-- effective `__eq__`/`__hash__`/`__getstate__` are `Matrix`'s and have the expected shape (the
  memoised hash is dropped from the pickled state); no other copy / pickle hooks -/
  dunderOk : Bool
  /-- array hashes are functions of the array VALUES (as `np.array_equal` is): the effective
  `_compute_hash` does not call `hash_array`, or `mici.utils.hash_array` has the expected shape
  (integer / floating / bool arrays are cast to float64 before their bytes are hashed) -/
  hashByValue : Bool
  /-- attribute names read from `self` by the effective `_compute_hash` -/
  hashFields : List String
  /-- attribute names `X` such that the effective `_check_equality` compares `self.X` with `other.Y` -/
  eqFields : List String
  /-- `X = Y` in every such comparison -/
  eqSameName : Bool
  /-- fail-closed: a syntactic shape was not understood -/
  unknown : Bool
  unknownWhy : String
  /-- attributes stored by the `__init__` chain whose last store is not the constant `None` -/
  params : List String
  /-- attributes whose last store in the `__init__` chain is `None` (lazy caches) -/
  caches : List String
  /-- params stored through `Matrix.__init__`'s kwargs loop, which sets arrays read-only -/
  frozen : List String
  /-- attributes made read-only by an explicit `….flags.writeable = False` statement next to the
  statement that fills / stores them (lazy caches `_array`, `_eigval`, `_lu_and_piv`; constructor
  arrays stored outside the kwargs loop) -/
  frozenExplicit : List String
  /-- property name → stored attribute (`@property def x(self): … return self._x`) -/
  aliases : List (String × String)
  /-- hand-written same-object aliases (low-rank update constructors), syntactically anchored -/
  handAliases : List (String × String)
deriving Repr, DecidableEq

/-- One alias-resolution step. -/
def step (al : List (String × String)) (f : String) : String :=
  match al.lookup f with
  | some g => g
  | none => f

/-- Stored attribute a name read by `_check_equality` / `_compute_hash` refers to
(three alias steps: `pos_def_matrix → symmetric_matrix → square_matrix` needs two). -/
def ClassEntry.canon (e : ClassEntry) (f : String) : String :=
  let al := e.aliases ++ e.handAliases
  step al (step al (step al f))

def ClassEntry.canonEq (e : ClassEntry) : List String := e.eqFields.map e.canon
def ClassEntry.canonHash (e : ClassEntry) : List String := e.hashFields.map e.canon

/-- HAND-WRITTEN.  Every class of `mici.matrices` with its abstractness, in source order.  A class
added to (or removed from) the module without an entry here breaks `table_complete`. -/
def expectedClasses : List (String × Bool) := [
  ("Matrix", true), ("ExplicitArrayMatrix", true), ("ImplicitArrayMatrix", true),
  ("MatrixProduct", false), ("SquareMatrix", true), ("SquareMatrixProduct", false),
  ("InvertibleMatrix", true), ("InvertibleMatrixProduct", false), ("SymmetricMatrix", true),
  ("PositiveDefiniteMatrix", true), ("IdentityMatrix", false), ("DifferentiableMatrix", true),
  ("ScaledIdentityMatrix", false), ("PositiveScaledIdentityMatrix", false),
  ("DiagonalMatrix", false), ("PositiveDiagonalMatrix", false), ("TriangularMatrix", false),
  ("InverseTriangularMatrix", false), ("_BaseTriangularFactoredDefiniteMatrix", true),
  ("TriangularFactoredDefiniteMatrix", false), ("TriangularFactoredPositiveDefiniteMatrix", false),
  ("DenseDefiniteMatrix", false), ("DensePositiveDefiniteMatrix", false),
  ("DensePositiveDefiniteProductMatrix", false), ("DenseSquareMatrix", false),
  ("InverseLUFactoredSquareMatrix", false), ("DenseSymmetricMatrix", false),
  ("OrthogonalMatrix", false), ("ScaledOrthogonalMatrix", false),
  ("EigendecomposedSymmetricMatrix", false), ("EigendecomposedPositiveDefiniteMatrix", false),
  ("SoftAbsRegularizedPositiveDefiniteMatrix", false), ("BlockMatrix", true),
  ("SquareBlockDiagonalMatrix", false), ("SymmetricBlockDiagonalMatrix", false),
  ("PositiveDefiniteBlockDiagonalMatrix", false), ("DenseRectangularMatrix", false),
  ("BlockRowMatrix", false), ("BlockColumnMatrix", false), ("SquareLowRankUpdateMatrix", false),
  ("SymmetricLowRankUpdateMatrix", false), ("PositiveDefiniteLowRankUpdateMatrix", false)]

/-- HAND-WRITTEN.  The stored parameters (canonical attribute names) the dense array of an instance
mathematically depends on.  Optional *precomputed* factors / caches are functions of these and are
not listed (`_factor` of the dense definite classes, `_lu_and_piv`/`_lu_transposed`,
`_inv_lu_and_piv`/`_inv_lu_transposed`, `_eigvec`/`_eigval` of `DenseSymmetricMatrix`,
`_capacitance_matrix`, `diag_eigval`, `_sizes`, `_splits`, `is_differentiable`, `_rect_matrix` /
`_pos_def_matrix` of the product class whose array is formed at construction, `unreg_eigval` /
`_softabs_coeff` which enter the array only through `_eigval`); `_sign` of the dense definite
classes is a statement about `_array`, not an input of it; `_lower` of `TriangularMatrix` does not
enter its (explicit) array but `_lower` of `InverseTriangularMatrix` selects which triangle of
`_inverse_array` is solved against; `right_factor_matrix` of the symmetric low-rank classes is
`factor_matrix.T`.  `_shape` is listed only where no array-valued parameter determines it. -/
def denoteParams : String → Option (List String)
  | "MatrixProduct" | "SquareMatrixProduct" | "InvertibleMatrixProduct" => some ["_matrices"]
  | "IdentityMatrix" => some ["_shape"]
  | "ScaledIdentityMatrix" | "PositiveScaledIdentityMatrix" => some ["_shape", "_scalar"]
  | "DiagonalMatrix" | "PositiveDiagonalMatrix" => some ["_diagonal"]
  | "TriangularMatrix" => some ["_array"]
  | "InverseTriangularMatrix" => some ["_inverse_array", "_lower"]
  | "TriangularFactoredDefiniteMatrix" | "TriangularFactoredPositiveDefiniteMatrix" =>
      some ["_factor", "_sign"]
  | "DenseDefiniteMatrix" | "DensePositiveDefiniteMatrix" | "DensePositiveDefiniteProductMatrix"
  | "DenseSquareMatrix" | "DenseSymmetricMatrix" | "OrthogonalMatrix" | "DenseRectangularMatrix" =>
      some ["_array"]
  | "InverseLUFactoredSquareMatrix" => some ["_inv_array"]
  | "ScaledOrthogonalMatrix" => some ["_scalar", "_orth_array"]
  | "EigendecomposedSymmetricMatrix" | "EigendecomposedPositiveDefiniteMatrix"
  | "SoftAbsRegularizedPositiveDefiniteMatrix" => some ["_eigvec", "_eigval"]
  | "SquareBlockDiagonalMatrix" | "SymmetricBlockDiagonalMatrix"
  | "PositiveDefiniteBlockDiagonalMatrix" | "BlockRowMatrix" | "BlockColumnMatrix" =>
      some ["_blocks"]
  | "SquareLowRankUpdateMatrix" =>
      some ["left_factor_matrix", "right_factor_matrix", "square_matrix", "inner_square_matrix", "_sign"]
  | "SymmetricLowRankUpdateMatrix" | "PositiveDefiniteLowRankUpdateMatrix" =>
      some ["left_factor_matrix", "square_matrix", "inner_square_matrix", "_sign"]
  | _ => none

/-- HAND-WRITTEN.  Array-valued parameters that reach `Matrix.__init__` through its kwargs and are
therefore set read-only at construction (the mechanism named by the property). -/
def frozenExpected : String → List String
  | "TriangularMatrix" | "DenseDefiniteMatrix" | "DensePositiveDefiniteMatrix"
  | "DensePositiveDefiniteProductMatrix" | "DenseSquareMatrix" | "DenseSymmetricMatrix"
  | "OrthogonalMatrix" | "DenseRectangularMatrix" => ["_array"]
  | "DiagonalMatrix" | "PositiveDiagonalMatrix" => ["_diagonal"]
  | "InverseTriangularMatrix" => ["_inverse_array"]
  | "ScaledOrthogonalMatrix" => ["_orth_array"]
  | _ => []

def subset (a b : List String) : Bool := a.all fun x => b.contains x

/-- HAND-WRITTEN.  Arrays that are cached lazily or stored outside the kwargs loop and must be made
read-only by an explicit statement: the memoised dense array of every implicit class, the eigenvalues
computed by `SymmetricMatrix._compute_eigendecomposition`, the computed LU factors of
`DenseSquareMatrix`, the constructor arrays of `InverseLUFactoredSquareMatrix`, the eigenvalue
parameter of the eigendecomposed classes and `unreg_eigval` of the SoftAbs class. -/
def frozenExplicitExpected (e : ClassEntry) : List String :=
  (if e.mro.contains "ImplicitArrayMatrix" then ["_array"] else []) ++
  (if e.mro.contains "SymmetricMatrix" then ["_eigval"] else []) ++
  (if e.name == "DenseSquareMatrix" then ["_lu_and_piv"] else []) ++
  (if e.name == "InverseLUFactoredSquareMatrix" then ["_inv_array", "_inv_lu_and_piv"] else []) ++
  (if e.name == "SoftAbsRegularizedPositiveDefiniteMatrix" then ["unreg_eigval"] else [])

def denoteOf (e : ClassEntry) : List String := (denoteParams e.name).getD []

/-- `_check_equality` / `_compute_hash` / `__eq__` / `__hash__` were understood, and array hashes
are by value (the premise `Respects r h` of `eq_imp_hash_eq` for `r` = equality of values). -/
def understood (e : ClassEntry) : Bool := !e.unknown && e.eqSameName && e.dunderOk && e.hashByValue
/-- equality compares every parameter the dense array depends on -/
def coversDenote (e : ClassEntry) : Bool :=
  (denoteParams e.name).isSome && subset (denoteOf e) e.canonEq
/-- the hash reads only attributes that equality compares -/
def hashWithinEq (e : ClassEntry) : Bool := subset e.canonHash e.canonEq
/-- what equality compares, and what the array depends on, are parameters stored at construction
(not lazily filled caches) -/
def eqOnParams (e : ClassEntry) : Bool :=
  subset e.canonEq e.params && subset (denoteOf e) e.params &&
    e.canonEq.all (fun x => !e.caches.contains x)
def frozenOk (e : ClassEntry) : Bool := subset (frozenExpected e.name) e.frozen
def frozenExplicitOk (e : ClassEntry) : Bool := subset (frozenExplicitExpected e) e.frozenExplicit

/-- The decidable soundness predicate of one entry (abstract classes cannot be instantiated). -/
def soundEntry (e : ClassEntry) : Bool :=
  e.abstract || (understood e && coversDenote e && hashWithinEq e && eqOnParams e)

def Sound (t : List ClassEntry) : Bool := t.all soundEntry

def complete (t : List ClassEntry) : Bool :=
  decide (t.map (fun e => (e.name, e.abstract)) = expectedClasses)

/-! ### Abstract object model

An instance is a finite map from stored attribute names to values (`String → V`; only the finitely
many names of the entry are ever read).  Values are compared by an arbitrary relation `r` (array
contents / recursive `==` of nested matrices / `==` of scalars); `__eq__` on two instances of the
class of entry `e` compares the fields `e.eqFields`; `__hash__` is an arbitrary function `h` of the
list of values of `e.hashFields`; the dense array is an arbitrary function `d` of the values of the
`denoteParams`.  `h` and `d` are only assumed to respect `r`. -/

section Model
variable {V : Type}

/-- value read by the attribute access `obj.f` -/
def ClassEntry.read (e : ClassEntry) (o : String → V) (f : String) : V := o (e.canon f)

/-- `a._check_equality(b)` (both of the class of `e`). -/
def eqObj (e : ClassEntry) (r : V → V → Prop) (a b : String → V) : Prop :=
  ∀ f ∈ e.eqFields, r (e.read a f) (e.read b f)

/-- `a._compute_hash()`. -/
def hashObj {H : Type} (e : ClassEntry) (h : List V → H) (a : String → V) : H :=
  h (e.hashFields.map (e.read a))

/-- dense array of `a`. -/
def denoteObj {D : Type} (e : ClassEntry) (d : List V → D) (a : String → V) : D :=
  d ((denoteOf e).map a)

/-- Two lists of the same length whose elements are pairwise `r`-related. -/
inductive AllRel (r : V → V → Prop) : List V → List V → Prop
  | nil : AllRel r [] []
  | cons {a b : V} {l l' : List V} : r a b → AllRel r l l' → AllRel r (a :: l) (b :: l')

/-- `f` gives the same result on lists that are element-wise `r`-related. -/
def Respects {X : Type} (r : V → V → Prop) (f : List V → X) : Prop :=
  ∀ l l', AllRel r l l' → f l = f l'

end Model

end MiciVerif.MatricesEq
