/-
Model of `mici/integrators.py` (explicit part) and of the component flows of `mici/systems.py`.

Everything is over an arbitrary field `K` (executed at `K = ℚ` by `Driver/C02.lean`).
Mutable `ChainState` objects become values: a phase-space point is a pair `(q, p) : V × V`,
a flow `flow(state, dt)` that updates `state` in place becomes a function `K → V × V → V × V`.

Code anchors (/repo/src/mici; line numbers as of repo commit 4c732fb, the method names are authoritative):
* `stride2`, `slice2`, `deriveCoeffs`, `flowsList`, `mkSymComp` — `SymmetricCompositionIntegrator.__init__`
  (integrators.py:270-283)
* `symComp`       — `SymmetricCompositionIntegrator._step` (integrators.py:285-287)
* `leapfrog`      — `LeapfrogIntegrator._step` (integrators.py:181-184)
* `State`, `step` — `Integrator.step` (integrators.py:68-91): `state.copy()` then
                    `_step(state, state.dir * step_size)`; a `ValueError` / `LinAlgError` raised inside
                    `_step` is re-raised as `IntegratorError` (over an exact field none arises)
* `kick`          — `System.h1_flow` (systems.py:143-152)
* `drift`         — `EuclideanMetricSystem.h2_flow` (systems.py:362-363)
* `harmonic`      — `GaussianEuclideanMetricSystem.h2_flow` (systems.py:468-478)
* `driftDmom`, `harmonicDmom` — `dh2_flow_dmom` (systems.py:798-803, 1175-1188)
-/
import Mathlib.Algebra.Field.Defs
import Mathlib.Algebra.Module.Defs
import Mathlib.Algebra.BigOperators.Group.List.Basic
import Mathlib.Data.Matrix.Mul
import Mathlib.Data.Matrix.Diagonal

namespace MiciVerif.Integrators

/-! ### Composition coefficients -/

/-- Python `l[0::2]`. -/
def stride2 {α : Type*} : List α → List α
  | [] => []
  | [a] => [a]
  | a :: _ :: t => a :: stride2 t

/-- Python `l[k::2]`. -/
def slice2 {α : Type*} (k : Nat) (l : List α) : List α := stride2 (l.drop k)

/-- `SymmetricCompositionIntegrator.__init__`, lines 272-280:
```
n = len(free); coefficients = list(free)
coefficients.append(0.5 - sum(free[n % 2 :: 2]))
coefficients.append(1 - 2 * sum(free[(n + 1) % 2 :: 2]))
self.coefficients = coefficients + coefficients[-2::-1]
``` -/
def deriveCoeffs {K : Type*} [Field K] (free : List K) : List K :=
  let n := free.length
  let c₁ := free ++ [1 / 2 - (slice2 (n % 2) free).sum]
  let c₂ := c₁ ++ [1 - 2 * (slice2 ((n + 1) % 2) free).sum]
  c₂ ++ c₂.dropLast.reverse

/-- `[flow_a, flow_b] * (n + 1) + [flow_a]` (line 283). -/
def flowsList {F : Type*} (a b : F) (n : Nat) : List F :=
  (List.replicate (n + 1) [a, b]).flatten ++ [a]

/-- `_step`: `for coefficient, flow in zip(coefficients, flows, strict=True): flow(state, coefficient * time_step)`. -/
def symComp {K X : Type*} [Mul K] (coeffs : List K) (flows : List (K → X → X)) (t : K) (x : X) : X :=
  (coeffs.zip flows).foldl (fun x cf => cf.2 (cf.1 * t) x) x

/-- The data a `SymmetricCompositionIntegrator` holds after `__init__`. -/
structure SymCompIntegrator (K X : Type*) where
  coeffs : List K
  flows : List (K → X → X)

/-- `SymmetricCompositionIntegrator.__init__` (lines 270-283). -/
def mkSymComp {K X : Type*} [Field K] (h1Flow h2Flow : K → X → X) (free : List K)
    (initialH1 : Bool) : SymCompIntegrator K X :=
  let flowA := if initialH1 then h1Flow else h2Flow
  let flowB := if initialH1 then h2Flow else h1Flow
  ⟨deriveCoeffs free, flowsList flowA flowB free.length⟩

def SymCompIntegrator.stepT {K X : Type*} [Mul K] (I : SymCompIntegrator K X) (t : K) (x : X) : X :=
  symComp I.coeffs I.flows t x

/-- `LeapfrogIntegrator._step`. -/
def leapfrog {K X : Type*} [Field K] (h1Flow h2Flow : K → X → X) (t : K) (x : X) : X :=
  h1Flow (1 / 2 * t) (h2Flow t (h1Flow (1 / 2 * t) x))

/-- Total weight given to the flows tagged `tag` (tags: `true` = flow A, `false` = flow B). -/
def weight {K : Type*} [AddMonoid K] (tag : Bool) (coeffs : List K) (tags : List Bool) : K :=
  (((coeffs.zip tags).filter (fun ct => ct.2 == tag)).map Prod.fst).sum

/-! ### `Integrator.step`: direction flag, stepping a copy -/

/-- `ChainState(pos, mom, dir)`; `x` is the phase-space point, `dir = ±1`. -/
structure State (X K : Type*) where
  x : X
  dir : K

/-- `Integrator.step`: the input is copied, `_step(copy, dir * step_size)`, the copy is returned
(the direction flag is not changed by a step). -/
def step {K X : Type*} [Mul K] (stepT : K → X → X) (ε : K) (s : State X K) : State X K :=
  ⟨stepT (s.dir * ε) s.x, s.dir⟩

/-- `state.dir *= -1`. -/
def flipDir {K X : Type*} [Neg K] (s : State X K) : State X K := ⟨s.x, -s.dir⟩

/-- `n` consecutive calls of `integrator.step`. -/
def steps {K X : Type*} [Mul K] (stepT : K → X → X) (ε : K) (n : Nat) (s : State X K) : State X K :=
  (step stepT ε)^[n] s

/-! ### Component flows -/

section Flows
variable {K V : Type*} [Field K] [AddCommGroup V] [Module K V]

/-- `h1_flow`: `state.mom -= dt * dh1_dpos(state)`; `g` is `dh1_dpos` as a function of the position. -/
def kick (g : V → V) (t : K) (x : V × V) : V × V := (x.1, x.2 - t • g x.1)

/-- Euclidean `h2_flow`: `state.pos += dt * (metric.inv @ state.mom)`; `N` is `metric.inv @ ·`. -/
def drift (N : V → V) (t : K) (x : V × V) : V × V := (x.1 + t • N x.2, x.2)

/-- Euclidean `dh2_flow_dmom(dt) = (dt * metric.inv, Identity)` as linear maps on a momentum
perturbation `δ`. -/
def driftDmom (N : V → V) (t : K) (δ : V) : V × V := (t • N δ, δ)

end Flows

section Harmonic
variable {K : Type*} [Field K] {n : Nat}

/-- Values of `cos(omega * dt)`, `sin(omega * dt)` per eigen-mode. -/
structure Trig (n : Nat) (K : Type*) where
  c : Fin n → K
  s : Fin n → K

/-- Gaussian-split `h2_flow` (systems.py:468-478). `Q = metric.eigvec`, `ω = 1/sqrt(metric.eigval)`,
`trig dt = (cos(ω dt), sin(ω dt))`. -/
def harmonic (Q : Matrix (Fin n) (Fin n) K) (ω : Fin n → K) (trig : K → Trig n K) (t : K)
    (x : (Fin n → K) × (Fin n → K)) : (Fin n → K) × (Fin n → K) :=
  let T := trig t
  let eq := Q.transpose.mulVec x.1
  let ep := Q.transpose.mulVec x.2
  (Q.mulVec (T.c * eq + (T.s * ω) * ep), Q.mulVec (T.c * ep - (T.s / ω) * eq))

/-- `EigendecomposedSymmetricMatrix(eigvec, eigval) @ v = eigvec @ (eigval * (eigvec.T @ v))`. -/
def eigMulVec (Q : Matrix (Fin n) (Fin n) K) (d : Fin n → K) (v : Fin n → K) : Fin n → K :=
  Q.mulVec (d * Q.transpose.mulVec v)

/-- Gaussian-split `dh2_flow_dmom(dt)`:
`(Eigendecomposed(eigvec, sin(ω dt) ω), Eigendecomposed(eigvec, cos(ω dt)))` applied to `δ`. -/
def harmonicDmom (Q : Matrix (Fin n) (Fin n) K) (ω : Fin n → K) (trig : K → Trig n K) (t : K)
    (δ : Fin n → K) : (Fin n → K) × (Fin n → K) :=
  (eigMulVec Q ((trig t).s * ω) δ, eigMulVec Q (trig t).c δ)

/-- Gaussian-split `h2(q, p) = q·q/2 + p·M⁻¹p/2` with `M⁻¹ = Q diag(ω²) Qᵀ`. -/
def gaussH2 (Q : Matrix (Fin n) (Fin n) K) (ω : Fin n → K) (x : (Fin n → K) × (Fin n → K)) : K :=
  1 / 2 * dotProduct x.1 x.1 + 1 / 2 * dotProduct x.2 (eigMulVec Q (ω * ω) x.2)

/-- Euclidean `h2(p) = p·M⁻¹p/2`. -/
def euclidH2 (N : Matrix (Fin n) (Fin n) K) (x : (Fin n → K) × (Fin n → K)) : K :=
  1 / 2 * dotProduct x.2 (N.mulVec x.2)

end Harmonic

/-! ### Evaluation helper: materialise a vector (identity function, see `force_eq`)

When executed, iterated flows on `Fin n → K` would build towers of closures that are re-evaluated on
every component access.  `force` stores the components in an array.  The naive definition
`let a := Array.ofFn v; fun i => a[i]` does not work: the compiler eta-expands it to arity 2 and
rebuilds the array on each access.  Hence a `@[noinline]` boxing function returning a two-field
structure and a `@[macro_inline]` projection. -/

structure VBox (β : Type*) where
  val : β
  tag : Nat

@[noinline] def forceBox {n : Nat} {α : Type*} (v : Fin n → α) : VBox (Fin n → α) :=
  let a := Array.ofFn v
  ⟨fun i => a[i.1]'(by simp [a]), a.size⟩

/-- Materialise a vector. Provably the identity. -/
@[macro_inline] def force {n : Nat} {α : Type*} (v : Fin n → α) : Fin n → α := (forceBox v).val

theorem force_eq {n : Nat} {α : Type*} (v : Fin n → α) : force v = v := by
  funext i; simp [force, forceBox]

@[noinline] def force2Box {n : Nat} {α : Type*} (x : (Fin n → α) × (Fin n → α)) :
    VBox ((Fin n → α) × (Fin n → α)) :=
  let a := Array.ofFn x.1
  let b := Array.ofFn x.2
  ⟨(fun i => a[i.1]'(by simp [a]), fun i => b[i.1]'(by simp [b])), a.size⟩

/-- Materialise a phase-space point. Provably the identity. -/
@[macro_inline] def force2 {n : Nat} {α : Type*} (x : (Fin n → α) × (Fin n → α)) :
    (Fin n → α) × (Fin n → α) := (force2Box x).val

theorem force2_eq {n : Nat} {α : Type*} (x : (Fin n → α) × (Fin n → α)) : force2 x = x := by
  obtain ⟨q, p⟩ := x
  refine Prod.ext ?_ ?_ <;> funext i <;> simp [force2, force2Box]

end MiciVerif.Integrators
