/-
A reading of the STATISTICS of the dynamic integration transitions (builder B12; extends builder B8's
readings `Skel.BSem` / `Skel.DSem` of `Model/TransitionSkeleton.lean`, which read the state part of
`DynamicIntegrationTransition._build_tree` / `.sample` and leave the statistics out).

The same statement plans (`BSem.buildPlan`, `DSem.passPlan`, recognised from the statement trees that
`tools/extractors/transition_skeleton.py` regenerates from transitions.py on every run) are executed here IN
SOURCE ORDER on the mutable dictionary `stats` that `sample` creates and hands down through every
`_build_tree` call:

* `SSem.St`: `stats["n_step"]`, `stats["sum_metrop_accept_prob"]`, the three error flags `diverging`,
  `convergence_error`, `non_reversible_step`, and one ghost field `counted` — the (absolute) offsets of the
  leaves at which `stats["n_step"] += 1` was executed, in execution order;
* `SSem.procChain` / `SSem.runProc`: the body of `_process_integrator_error` (an `if isinstance … elif … elif`
  chain setting one flag) read on the class of the error (`SSem.ErrKind`);
* `SSem.runLeaf` / `SSem.runHand`: the `try` body and the `except IntegratorError` handler of the `depth == 0`
  block: the first raising statement transfers control to the handler (which processes the error with the
  class of what was raised), the statements after it are not executed;
* `SSem.runRec` / `SSem.buildRead`: the recursive part — the SAME `stats` object is threaded through the inner
  call, then (unless it terminated) through the outer call;
* `SSem.runPass` / `SSem.runLoop`: the loop of `sample` — one `_build_tree` call per pass on the shared `stats`,
  `break` when it terminated or when the merged tree satisfies the criterion, the loop variable `depth`;
* `SSem.samplePlan` / `SSem.samplePass`: the whole body of `sample` — the dictionary display initialising
  `stats`, the loop, `stats.pop("sum_metrop_accept_prob")`, the division by `stats["n_step"]` guarded by
  `> 0`, `accept_stat` zeroed when `any` of the three flags is set, `stats["tree_depth"] = depth`.

Conventions that are TRUSTED (visible in the definitions, validated by the rng-path correspondence of
harness/c01.py on every run):
  (1) `0.0 if np.isnan(h_diff) else np.exp(min(0, h_diff))` with `h_diff = aux_vars["h_init"] - h` of the leaf
      at absolute offset `k` is the parameter `a k` of the reading; the theorems instantiate
      `a k = ratio (t.weightAt k) (t.weightAt start)`, i.e. `min(1, exp(h_init − h_k))` read as
      `Transitions.ratio w_leaf w_start` for the multinomial weights `w = exp(−h)`;
  (2) `integrator.step` raises (an `IntegratorError` of class `stepErr`, a parameter) iff the entering step has
      `entryOk = false`; `_check_divergence` raises `HamiltonianDivergenceError` iff the leaf has `ok = false`
      (both `_check_divergence` bodies raise exactly that class: projection `skel_check_divergence_raises_divergence`
      of `Props/C01T.lean`); no other statement of the `try` body raises;
  (3) `isinstance(exception, C)` for the classes of errors.py: `HamiltonianDivergenceError`,
      `NonReversibleStepError`, `ConvergenceError` are pairwise unrelated subclasses of `IntegratorError`
      (`ErrKind.isInstance`);
  (4) the exact text of the dictionary display of `stats` reads as: counters 0, flags False (`statsInitText`);
      the exact text of the generator inside `any(…)` reads as the disjunction of the three flags (`anyFlagsText`);
  (5) `_termination_criterion(tree, neg, pos)` of a merged tree is the flag `τ` of the block (as in `BSem`/`DSem`);
      `stats["reject_prob"]` is not modelled.
-/
import MiciVerif.Model.TransitionSkeleton

namespace MiciVerif.Skel.SSem
open MiciVerif.Transitions MiciVerif.Transitions.TTree

/-! ### the error flags and `_process_integrator_error` -/

/-- class of the `IntegratorError` caught by the handler of `_build_tree` -/
inductive ErrKind where
  /-- `HamiltonianDivergenceError` (raised by `_check_divergence`) -/
  | divergence
  /-- `NonReversibleStepError` -/
  | nonReversible
  /-- `ConvergenceError` -/
  | convergence
  /-- a plain `IntegratorError` (`Integrator.step` converting a `ValueError` / `LinAlgError`) -/
  | plain
  deriving DecidableEq, Repr

def ErrKind.className : ErrKind → String
  | .divergence => "HamiltonianDivergenceError"
  | .nonReversible => "NonReversibleStepError"
  | .convergence => "ConvergenceError"
  | .plain => "IntegratorError"

/-- `isinstance(exception, cls)`: the class itself or one of the common bases `IntegratorError`, `Error`,
`RuntimeError`, `Exception` (convention (3)) -/
def ErrKind.isInstance (k : ErrKind) (cls : String) : Bool :=
  cls = k.className || cls = "IntegratorError" || cls = "Error" || cls = "RuntimeError" || cls = "Exception"

/-- one of the three classes `_process_integrator_error` has a flag for -/
def ErrKind.flagged : ErrKind → Bool
  | .plain => false
  | _ => true

/-- `stats["diverging"]`, `stats["convergence_error"]`, `stats["non_reversible_step"]` -/
structure Flags where
  diverging : Bool := false
  convergenceError : Bool := false
  nonReversibleStep : Bool := false
  deriving DecidableEq, Repr

/-- `any(stats[key] for key in ["diverging", "convergence_error", "non_reversible_step"])` -/
def Flags.any (f : Flags) : Bool := f.diverging || f.convergenceError || f.nonReversibleStep

/-- `stats[key] = True` for one of the three flag keys; any other key is rejected -/
def Flags.set (f : Flags) (key : String) : Option Flags :=
  if key = "diverging" then some { f with diverging := true }
  else if key = "convergence_error" then some { f with convergenceError := true }
  else if key = "non_reversible_step" then some { f with nonReversibleStep := true }
  else Option.none

/-- Recognise the body of `_process_integrator_error`: a chain `if isinstance(exception, C1): stats[k1] = True
elif isinstance(exception, C2): stats[k2] = True …` (no final `else`); the result lists `(Ci, ki)` in order. -/
def procChain : S → Option (List (String × String))
  | .skip => some []
  | .seq (.ifc (.call fn (.cons (.v ex) (.cons (.v cls) .nil)))
        (.seq (.assign (.sub (.v st) (.s key)) (.v tr)) .skip) f) .skip =>
    if fn = "isinstance" ∧ ex = "exception" ∧ st = "stats" ∧ tr = "True" then
      (procChain f).map fun l => (cls, key) :: l
    else Option.none
  | _ => Option.none

/-- Execute the chain on an error of class `k`: the first matching `isinstance` sets its flag. -/
def runProc : List (String × String) → ErrKind → Flags → Option Flags
  | [], _, f => some f
  | (cls, key) :: l, k, f => if k.isInstance cls then f.set key else runProc l k f

/-! ### the dictionary `stats` -/

variable {K : Type} [Field K] [LinearOrder K]

/-- the part of the dictionary `stats` that the dynamic transitions accumulate -/
structure St (K : Type) where
  /-- `stats["n_step"]` -/
  nStep : Nat
  /-- `stats["sum_metrop_accept_prob"]` -/
  sumAcc : K
  flags : Flags
  /-- ghost: absolute offsets of the leaves at which `stats["n_step"] += 1` was executed, in order -/
  counted : List Nat

/-! ### the `depth == 0` block of `_build_tree` -/

/-- local variables of the `depth == 0` block, as far as the statistics need them -/
structure LVars (K : Type) where
  stepped : Bool := false
  hKnown : Bool := false
  hFixed : Bool := false
  hDiff : Bool := false
  /-- `metrop_accept_prob` -/
  metrop : Option K := Option.none
  terminate : Option Bool := Option.none

/-- the handler `except IntegratorError as e:` on an error of class `kind` -/
def runHand (proc : ErrKind → Flags → Option Flags) (kind : ErrKind) :
    List BSem.HandAct → LVars K → St K → Option (LVars K × St K)
  | [], v, s => some (v, s)
  | .processError :: l, v, s =>
    (proc kind s.flags).bind fun f => runHand proc kind l v { s with flags := f }
  | .terminateNoTree :: l, v, s => runHand proc kind l { v with terminate := some true } s

/-- The `try` body on the leaf at absolute offset `off` whose Metropolis acceptance probability relative to
the start state is `acc` (convention (1)); `none`: a use before assignment (rejected). -/
def runLeaf (proc : ErrKind → Flags → Option Flags) (stepErr : ErrKind) (acc : K) (off : Nat) (ok entryOk : Bool)
    (hand : List BSem.HandAct) : List BSem.LeafAct → LVars K → St K → Option (LVars K × St K)
  | [], v, s => some (v, s)
  | .step :: l, v, s =>
    if entryOk then runLeaf proc stepErr acc off ok entryOk hand l { v with stepped := true } s
    else runHand proc stepErr hand v s
  | .energy :: l, v, s =>
    if v.stepped then runLeaf proc stepErr acc off ok entryOk hand l { v with hKnown := true } s else Option.none
  | .nanToInf :: l, v, s =>
    if v.hKnown then runLeaf proc stepErr acc off ok entryOk hand l { v with hFixed := true } s else Option.none
  | .newLeaf :: l, v, s => if v.hFixed then runLeaf proc stepErr acc off ok entryOk hand l v s else Option.none
  | .proposeSelf :: l, v, s => if v.stepped then runLeaf proc stepErr acc off ok entryOk hand l v s else Option.none
  | .hDiff :: l, v, s =>
    if v.hFixed then runLeaf proc stepErr acc off ok entryOk hand l { v with hDiff := true } s else Option.none
  | .acceptProb :: l, v, s =>
    if v.hDiff then runLeaf proc stepErr acc off ok entryOk hand l { v with metrop := some acc } s else Option.none
  | .sumAccept :: l, v, s =>
    match v.metrop with
    | some m => runLeaf proc stepErr acc off ok entryOk hand l v { s with sumAcc := s.sumAcc + m }
    | Option.none => Option.none
  | .countStep :: l, v, s =>
    runLeaf proc stepErr acc off ok entryOk hand l v { s with nStep := s.nStep + 1, counted := s.counted ++ [off] }
  | .clearTerminate :: l, v, s => runLeaf proc stepErr acc off ok entryOk hand l { v with terminate := some false } s
  | .checkDivergence :: l, v, s =>
    if v.hFixed then
      (if ok then runLeaf proc stepErr acc off ok entryOk hand l v s else runHand proc .divergence hand v s)
    else Option.none

/-! ### the recursive part of `_build_tree` -/

structure RVars where
  terminate : Option Bool := Option.none
  innerDone : Bool := false
  atFarEdge : Bool := false
  outerDone : Bool := false

/-- The recursive part on a node; `callL b s` / `callR b s`: the reading of the recursive call on the left /
right child entered by a step with success flag `b`, started with the dictionary in state `s` — the result is
`(terminate, stats afterwards)`.  Built forwards (`fwd`) the inner child is the left one. -/
def runRec (e τ fwd entryOk : Bool) (callL callR : Bool → St K → Option (Bool × St K)) :
    List BSem.RecAct → RVars → St K → Option (Bool × St K)
  | [], _, _ => Option.none
  | .buildInner :: l, v, s =>
    ((if fwd then callL else callR) entryOk s).bind fun r =>
      runRec e τ fwd entryOk callL callR l { v with terminate := some r.1, innerDone := true } r.2
  | .returnIfTerminated :: l, v, s =>
    match v.terminate with
    | some true => some (true, s)
    | some false => runRec e τ fwd entryOk callL callR l v s
    | Option.none => Option.none
  | .moveToFarEdge :: l, v, s =>
    if v.innerDone then runRec e τ fwd entryOk callL callR l { v with atFarEdge := true } s else Option.none
  | .buildOuter :: l, v, s =>
    if v.atFarEdge then
      ((if fwd then callR else callL) e s).bind fun r =>
        runRec e τ fwd entryOk callL callR l { v with terminate := some r.1, outerDone := true } r.2
    else Option.none
  -- the five statements below do not touch `stats` (their state part is read by `BSem.runRec`)
  | .orderNeg :: l, v, s => runRec e τ fwd entryOk callL callR l v s
  | .orderPos :: l, v, s => runRec e τ fwd entryOk callL callR l v s
  | .merge :: l, v, s => runRec e τ fwd entryOk callL callR l v s
  | .outerProb :: l, v, s => runRec e τ fwd entryOk callL callR l v s
  | .pickProposal :: l, v, s => runRec e τ fwd entryOk callL callR l v s
  | .criterion :: l, v, s =>
    if v.innerDone && v.outerDone then runRec e τ fwd entryOk callL callR l { v with terminate := some τ } s
    else Option.none
  | .returnAll :: _, v, s => v.terminate.map fun t => (t, s)

/-- `_build_tree(depth, state, stats, rng, aux_vars)` read from its plan on the sub-tree `t` whose left end is at
absolute offset `off`, built forwards iff `fwd`, entered by a step with success flag `entryOk`, the shared
dictionary being in state `s` at the call: `(terminate, stats at the return)`.  `a k`: convention (1). -/
def buildRead (p : BSem.Plan) (proc : ErrKind → Flags → Option Flags) (stepErr : ErrKind) (a : Nat → K)
    (fwd : Bool) : TTree K → Nat → Bool → St K → Option (Bool × St K)
  | .leaf _ ok, off, entryOk, s =>
    (runLeaf proc stepErr (a off) off ok entryOk p.hand p.leaf {} s).bind fun x => x.1.terminate.map fun t => (t, x.2)
  | .node l r e τ, off, entryOk, s =>
    runRec e τ fwd entryOk (buildRead p proc stepErr a fwd l off) (buildRead p proc stepErr a fwd r (off + l.size))
      p.recp {} s

/-- `_build_tree` read from the statement lists of its body and of the body of `_process_integrator_error` -/
def buildPass (buildBody : List S) (procBody : S) (stepErr : ErrKind) (a : Nat → K) (fwd : Bool) (t : TTree K)
    (off : Nat) (entryOk : Bool) (s : St K) : Option (Bool × St K) :=
  (BSem.buildPlan buildBody).bind fun bp => (procChain procBody).bind fun pc =>
    buildRead bp (runProc pc) stepErr a fwd t off entryOk s

/-- how a call ended, as the caller and the dictionary show it: not terminated; terminated with a flag
newly set … or without -/
def endOf (terminate : Bool) (before after : Flags) : BuildEnd :=
  if !terminate then .ok else if before = after then .crit else .err

/-! ### the loop of `sample` -/

/-- One pass of the loop body on the shared dictionary: `sibCall s` is the reading of the `_build_tree` call of
this pass, `τ` the criterion flag of the merged tree.  Result: (the loop was left by `break`, stats). -/
def runPass (sibCall : St K → Option (Bool × St K)) (τ : Bool) :
    List DSem.PassAct → Option Bool → St K → Option (Bool × St K)
  | [], _, s => some (false, s)
  | .build :: l, _, s => (sibCall s).bind fun r => runPass sibCall τ l (some r.1) r.2
  | .breakIfTerminated :: l, t, s =>
    match t with
    | some true => some (true, s)
    | some false => runPass sibCall τ l t s
    | Option.none => Option.none
  | .breakIfCriterion :: l, t, s => if τ then some (true, s) else runPass sibCall τ l t s
  -- the other statements do not touch the accumulated statistics (`reject_prob` is not modelled)
  | _ :: l, t, s => runPass sibCall τ l t s

/-- state of the loop: the dictionary, whether the loop is still running (no `break` yet), the number of
passes started (the loop variable `depth` is `iters - 1` once a pass has started, unbound before) -/
structure LoopSt (K : Type) where
  st : St K
  going : Bool
  iters : Nat

/-- The whole loop for the direction draws that make `t` (left end at absolute offset `off`) the maximal
trajectory tree, from the leaf at offset `start` of `t`: one pass per level, none after a `break`. -/
def runLoop (plan : List DSem.PassAct) (bp : BSem.Plan) (proc : ErrKind → Flags → Option Flags) (stepErr : ErrKind)
    (a : Nat → K) : TTree K → Nat → Nat → St K → Option (LoopSt K)
  | .leaf _ _, _, _, s => some ⟨s, true, 0⟩
  | .node l r e τ, start, off, s =>
    if start < l.size then
      (runLoop plan bp proc stepErr a l start off s).bind fun p =>
        if !p.going then some p else
          (runPass (buildRead bp proc stepErr a true r (off + l.size) e) τ plan Option.none p.st).map fun x =>
            ⟨x.2, !x.1, p.iters + 1⟩
    else
      (runLoop plan bp proc stepErr a r (start - l.size) (off + l.size) s).bind fun p =>
        if !p.going then some p else
          (runPass (buildRead bp proc stepErr a false l off e) τ plan Option.none p.st).map fun x =>
            ⟨x.2, !x.1, p.iters + 1⟩

/-! ### the whole body of `sample` -/

/-- statements before the loop -/
inductive InitAct where
  /-- `stats = {"n_step": 0, "sum_metrop_accept_prob": 0.0, …, "diverging": False, …}` -/
  | initStats
  /-- `aux_vars = self._init_aux_vars(state, rng)` -/
  | initAux
  /-- `tree = self._new_leave(state, aux_vars["h_init"], aux_vars)` -/
  | initTree
  /-- `next_state = state` -/
  | initNext
  deriving DecidableEq, Repr

/-- statements after the loop -/
inductive FinAct where
  /-- `sum_accept_prob = stats.pop("sum_metrop_accept_prob")` -/
  | popSum
  /-- `if stats["n_step"] > 0: stats["av_metrop_accept_prob"] = sum_accept_prob / stats["n_step"]`
  `else: stats["av_metrop_accept_prob"] = 0.0` -/
  | average
  /-- `if any(<the three flags>): stats["accept_stat"] = 0.0 else: stats["accept_stat"] = stats["av_metrop_accept_prob"]` -/
  | acceptStat
  /-- `stats["tree_depth"] = depth` -/
  | treeDepth
  /-- `return next_state, stats` -/
  | returnAll
  deriving DecidableEq, Repr

/-- convention (4) -/
def statsInitText : String :=
  "{'n_step': 0, 'sum_metrop_accept_prob': 0.0, 'reject_prob': 1.0, 'diverging': False, 'convergence_error': False, 'non_reversible_step': False, 'step_size': self.integrator.step_size}"

/-- convention (4) -/
def anyFlagsText : String :=
  "(stats[key] for key in ['diverging', 'convergence_error', 'non_reversible_step'])"

def initAct? (s : S) : Option InitAct :=
  if s = .assign (.v "stats") (.src statsInitText) then some .initStats
  else if s = .assign (.v "aux_vars") (.call "self._init_aux_vars" (E.l [.v "state", .v "rng"])) then some .initAux
  else if s = .assign (.v "tree")
      (.call "self._new_leave" (E.l [.v "state", .sub (.v "aux_vars") (.s "h_init"), .v "aux_vars"])) then some .initTree
  else if s = .assign (.v "next_state") (.v "state") then some .initNext
  else Option.none

def statsKey (k : String) : E := .sub (.v "stats") (.s k)

def finAct? (s : S) : Option FinAct :=
  if s = .assign (.v "sum_accept_prob") (.call "stats.pop" (E.l [.s "sum_metrop_accept_prob"])) then some .popSum
  else if s = .ifc (.op ">" (E.l [statsKey "n_step", .n 0]))
      (S.b [.assign (statsKey "av_metrop_accept_prob") (.op "/" (E.l [.v "sum_accept_prob", statsKey "n_step"]))])
      (S.b [.assign (statsKey "av_metrop_accept_prob") (.src "0.0")]) then some .average
  else if s = .ifc (.call "any" (E.l [.src anyFlagsText]))
      (S.b [.assign (statsKey "accept_stat") (.src "0.0")])
      (S.b [.assign (statsKey "accept_stat") (statsKey "av_metrop_accept_prob")]) then some .acceptStat
  else if s = .assign (statsKey "tree_depth") (.v "depth") then some .treeDepth
  else if s = .ret (.tup (E.l [.v "next_state", .v "stats"])) then some .returnAll
  else Option.none

/-- the plan of the body of `sample`: statements before the loop, the loop body, statements after it -/
structure SamplePlan where
  init : List InitAct
  pass : List DSem.PassAct
  fin : List FinAct
  deriving DecidableEq, Repr

/-- Recognise `<init statements>; for depth in range(self.max_tree_depth): <pass>; <final statements>`. -/
def samplePlan : List S → Option SamplePlan
  | [] => Option.none
  | .loop tgt iter body :: rest =>
    if tgt = .v "depth" ∧ iter = .call "range" (E.l [.v "self.max_tree_depth"]) then
      (DSem.passPlan body.stmts).bind fun pp => (BSem.planOf finAct? rest).map fun fp => ⟨[], pp, fp⟩
    else Option.none
  | s :: rest => (initAct? s).bind fun a => (samplePlan rest).map fun p => { p with init := a :: p.init }

/-- the statements before the loop: `stats` exists only after its display has been executed -/
def runInit : List InitAct → Option (St K) → Option (St K)
  | [], s => s
  | .initStats :: l, _ => runInit l (some ⟨0, 0, {}, []⟩)
  | _ :: l, s => runInit l s

/-- what `sample` reports -/
structure Out (K : Type) where
  /-- `stats["n_step"]` -/
  nStep : Nat
  /-- `stats["av_metrop_accept_prob"]` -/
  avAccept : K
  /-- `stats["accept_stat"]` -/
  acceptStat : K
  /-- `stats["tree_depth"]` -/
  treeDepth : Nat
  flags : Flags
  /-- ghost: the leaves counted in `n_step`, in order -/
  counted : List Nat

structure FVars (K : Type) where
  popped : Option K := Option.none
  av : Option K := Option.none
  acceptStat : Option K := Option.none
  treeDepth : Option Nat := Option.none

/-- the statements after the loop; `none`: a use before assignment (e.g. `depth` when no pass was started) -/
def runFin (p : LoopSt K) : List FinAct → FVars K → Option (Out K)
  | [], _ => Option.none
  | .popSum :: l, v => runFin p l { v with popped := some p.st.sumAcc }
  | .average :: l, v =>
    match v.popped with
    | some σ => runFin p l { v with av := some (if p.st.nStep > 0 then σ / (p.st.nStep : K) else 0) }
    | Option.none => Option.none
  | .acceptStat :: l, v =>
    match v.av with
    | some m => runFin p l { v with acceptStat := some (if p.st.flags.any then 0 else m) }
    | Option.none => Option.none
  | .treeDepth :: l, v => if p.iters = 0 then Option.none else runFin p l { v with treeDepth := some (p.iters - 1) }
  | .returnAll :: _, v =>
    match v.av, v.acceptStat, v.treeDepth with
    | some m, some x, some d => some ⟨p.st.nStep, m, x, d, p.st.flags, p.st.counted⟩
    | _, _, _ => Option.none

/-- The statistics returned by `sample`, read from the statement lists of the bodies of `sample`, `_build_tree`
and `_process_integrator_error`, for the direction draws that make `t` the maximal trajectory tree and the start
leaf at offset `start`; `stepErr`: class of the error a failing integrator step raises; `a`: convention (1). -/
def samplePass (body buildBody : List S) (procBody : S) (stepErr : ErrKind) (a : Nat → K) (t : TTree K) (start : Nat) :
    Option (Out K) :=
  (samplePlan body).bind fun sp => (BSem.buildPlan buildBody).bind fun bp => (procChain procBody).bind fun pc =>
    (runInit sp.init Option.none).bind fun s0 =>
      (runLoop sp.pass bp (runProc pc) stepErr a t start 0 s0).bind fun p => runFin p sp.fin {}

end MiciVerif.Skel.SSem
