/-
Model of the log-space arithmetic of `mici.utils` (`/repo/src/mici/utils.py` lines 46-200):
`log1p_exp`, `log1m_exp`, `log_sum_exp`, `log_diff_exp` and `LogRepFloat`.

Core Lean only.  The definitions are polymorphic in a record `Prims F` of the primitives the
Python code calls (`math.exp/log/log1p/expm1`, float arithmetic and IEEE comparisons, the
constants `0.0`, `-inf`, `nan`, `LOG_2`) so that the *same* definitions are

* given their real-number semantics (`F = XReal`, `Lemmas/LogRepReal.lean`) for the theorems of
  `Props/C20.lean`, and
* executed on IEEE doubles with a call trace (`F = PyFloat`, `Driver/C20.lean`) for the
  correspondence with the real code.

A Python exception (`ValueError: math domain error`, `OverflowError`, `ZeroDivisionError`)
is a value `err` of `F` that every primitive propagates.
-/
namespace MiciVerif.LogRep

structure Prims (F : Type) where
  /-- `math.exp` (raises `OverflowError` instead of returning `inf`) -/
  exp : F → F
  /-- `try: exp(x) except OverflowError: inf` (the `LogRepFloat.val` property) -/
  expSat : F → F
  /-- `math.log` (raises `ValueError` for arguments `≤ 0`) -/
  log : F → F
  /-- `math.log1p` (raises `ValueError` for arguments `≤ -1`) -/
  log1p : F → F
  expm1 : F → F
  add : F → F → F
  sub : F → F → F
  mul : F → F → F
  /-- float `/` (raises `ZeroDivisionError`) -/
  div : F → F → F
  neg : F → F
  /-- IEEE `<`, `<=`, `==` (all false on NaN) -/
  lt : F → F → Bool
  le : F → F → Bool
  eq : F → F → Bool
  zero : F
  negInf : F
  nan : F
  /-- the module constant `LOG_2 = log(2.0)` -/
  log2 : F
  /-- a raised exception -/
  err : F

variable {F : Type} (P : Prims F)

/-- `log1p_exp` (utils.py:49-53). -/
def log1pExp (val : F) : F :=
  if P.lt P.zero val then                       -- if val > 0.0:
    P.add val (P.log1p (P.exp (P.neg val)))     --     return val + log1p(exp(-val))
  else P.log1p (P.exp val)                      -- return log1p(exp(val))

/-- `log1m_exp` (utils.py:56-62), with the guard `val > -LOG_2`. -/
def log1mExp (val : F) : F :=
  if P.le P.zero val then P.nan                 -- if val >= 0.0: return nan
  else if P.lt (P.neg P.log2) val then          -- if val > -LOG_2:
    P.log (P.neg (P.expm1 val))                 --     return log(-expm1(val))
  else P.log1p (P.neg (P.exp val))              -- return log1p(-exp(val))

/-- `log1m_exp` as it was before the fix `082cc66` (guard `val > LOG_2`): kept only to state
what the range lemma rules out (`Props.C20.old_guard_out_of_range`). -/
def log1mExpOld (val : F) : F :=
  if P.le P.zero val then P.nan
  else if P.lt P.log2 val then P.log (P.neg (P.expm1 val))
  else P.log1p (P.neg (P.exp val))

/-- `log_sum_exp` (utils.py:65-71). -/
def logSumExp (val1 val2 : F) : F :=
  if P.eq val1 P.negInf && P.eq val2 P.negInf then P.negInf
  else if P.lt val2 val1 then                   -- if val1 > val2:
    P.add val1 (log1pExp P (P.sub val2 val1))
  else P.add val2 (log1pExp P (P.sub val1 val2))

/-- `log_diff_exp` (utils.py:74-82). -/
def logDiffExp (val1 val2 : F) : F :=
  if P.eq val1 P.negInf && P.eq val2 P.negInf then P.negInf
  else if P.lt val1 val2 then P.nan
  else if P.eq val1 val2 then P.negInf
  else P.add val1 (log1mExp P (P.sub val2 val1))

/-! ## `LogRepFloat` -/

structure LogRepF (F : Type) where
  logVal : F

/-- `ScalarLike`: a `LogRepFloat` or a plain number. -/
inductive Scalar (F : Type)
  | rep (x : LogRepF F)
  | plain (x : F)

/-- `LogRepFloat(val=v)` (utils.py:93-103). -/
def LogRepF.ofVal (v : F) : LogRepF F :=
  ⟨if P.lt P.zero v then P.log v else if P.eq v P.zero then P.negInf else P.err⟩

/-- `.val` -/
def LogRepF.val (x : LogRepF F) : F := P.expSat x.logVal

/-- `__add__` / `__radd__` -/
def LogRepF.add (x : LogRepF F) : Scalar F → Scalar F
  | .rep y => .rep ⟨logSumExp P x.logVal y.logVal⟩
  | .plain v => .plain (P.add (x.val P) v)

/-- `__iadd__` (utils.py:125-130): a `LogRepFloat` operand is always accumulated with
`log_sum_exp` (also when its plain value underflows to 0); a plain operand is skipped when
it is `0` and converted with `log` otherwise. -/
def LogRepF.iadd (x : LogRepF F) : Scalar F → LogRepF F
  | .rep y => ⟨logSumExp P x.logVal y.logVal⟩
  | .plain v => if P.eq v P.zero then x else ⟨logSumExp P x.logVal (P.log v)⟩

/-- `__neg__` (a plain float) -/
def LogRepF.neg (x : LogRepF F) : F := P.neg (x.val P)

/-- `__sub__` -/
def LogRepF.sub (x : LogRepF F) : Scalar F → Scalar F
  | .rep y =>
    if P.le y.logVal x.logVal then .rep ⟨logDiffExp P x.logVal y.logVal⟩
    else .plain (P.sub (x.val P) (y.val P))
  | .plain v => .plain (P.sub (x.val P) v)

/-- `__rsub__`: `(-self).__radd__(other)` -/
def LogRepF.rsub (x : LogRepF F) (v : F) : F := P.add v (x.neg P)

/-- `__mul__` / `__rmul__` -/
def LogRepF.mul (x : LogRepF F) : Scalar F → Scalar F
  | .rep y => .rep ⟨P.add x.logVal y.logVal⟩
  | .plain v => .plain (P.mul (x.val P) v)

/-- `__truediv__` -/
def LogRepF.div (x : LogRepF F) : Scalar F → Scalar F
  | .rep y => .rep ⟨P.sub x.logVal y.logVal⟩
  | .plain v => .plain (P.div (x.val P) v)

/-- `__rtruediv__` -/
def LogRepF.rdiv (x : LogRepF F) (v : F) : F := P.div v (x.val P)

/-- the six comparisons -/
def LogRepF.lt (x : LogRepF F) : Scalar F → Bool
  | .rep y => P.lt x.logVal y.logVal
  | .plain v => P.lt (x.val P) v
def LogRepF.gt (x : LogRepF F) : Scalar F → Bool
  | .rep y => P.lt y.logVal x.logVal
  | .plain v => P.lt v (x.val P)
def LogRepF.le (x : LogRepF F) : Scalar F → Bool
  | .rep y => P.le x.logVal y.logVal
  | .plain v => P.le (x.val P) v
def LogRepF.ge (x : LogRepF F) : Scalar F → Bool
  | .rep y => P.le y.logVal x.logVal
  | .plain v => P.le v (x.val P)
def LogRepF.beq (x : LogRepF F) : Scalar F → Bool
  | .rep y => P.eq x.logVal y.logVal
  | .plain v => P.eq (x.val P) v
def LogRepF.bne (x : LogRepF F) (o : Scalar F) : Bool := !(x.beq P o)

/-- `min(numerator / denominator, 1)` as used by `_weight_ratio` (transitions.py:799-804):
Python's `min(a, 1)` returns `1` iff `1 < a`, evaluated as `a.__gt__(1)`. -/
def weightRatio (one : F) (num den : LogRepF F) : Scalar F :=
  match num.div P (.rep den) with
  | .rep r => if r.gt P (.plain one) then .plain one else .rep r
  | s => s

end MiciVerif.LogRep
