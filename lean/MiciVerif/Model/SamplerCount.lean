/-
Executable instance of the sampler model: the "counting" transitions / adapters / trace functions
that `harness/c13.py` (`CountA`, `CountB`, `FastA`, `SlowA`, `trace0`, `trace1`) implements against
the real sampler.  Every value is a small natural number computed from the chain id, the number
of completed transitions and the generator position, so every cell of every output array is
independently predictable.  A draw is identified by its position in the chain's stream
(`code = position + 1`, `0` = no draw yet).
-/
import MiciVerif.Model.Sampler

namespace MiciVerif.SamplerCount
open MiciVerif.Stagers MiciVerif.Sampler

structure St where
  cid : Nat
  x : Nat
  na : Nat
  nf : Nat
  u0 : Nat
  ud : Nat
  deriving DecidableEq, Repr

structure Par where
  par : Nat
  met : Nat
  deriving DecidableEq, Repr

structure Ad where
  n : Nat
  acc : Nat
  m : Nat
  sum : Nat
  deriving DecidableEq, Repr

structure Cfg where
  hasA : Bool
  da : Nat
  db : Nat
  parDraws : Bool
  e : Nat
  hasFast : Bool
  hasSlow : Bool
  nTraceFns : Nat
  deriving Repr

def fastOn (c : Cfg) (k : Kind) : Bool := c.hasFast && k != .main
def slowOn (c : Cfg) (k : Kind) : Bool := c.hasSlow && k == .slow

def transA (c : Cfg) : Kind → Par → Ad → St → Rng → TOut St (List Nat) Ad Par :=
  fun _ p a s r =>
    let s' : St := { s with na := s.na + 1, u0 := if c.da > 0 then r.pos + 1 else s.u0,
                            ud := if c.da > 0 then c.da else s.ud }
    ⟨s', [s'.na, if c.da > 0 then r.pos + 1 else 0], c.da, a, p⟩

def transB (c : Cfg) : Kind → Par → Ad → St → Rng → TOut St (List Nat) Ad Par :=
  fun k p a s r =>
    let d := c.db + (if c.parDraws then p.par % 3 else 0)
    let s' : St := { s with x := s.x + 1, u0 := if d > 0 then r.pos + 1 else s.u0,
                            ud := if d > 0 then d else s.ud }
    let a1 : Ad := if fastOn c k then { a with n := a.n + 1, acc := a.acc + s'.x } else a
    let p1 : Par := if fastOn c k then { p with par := 3 * a1.acc + a1.n } else p
    let a2 : Ad := if slowOn c k then { a1 with m := a1.m + 1, sum := a1.sum + s'.x + s'.cid } else a1
    ⟨s', [s'.x, if d > 0 then r.pos + 1 else 0, d, p.par, p.met], d, a2, p1⟩

def trace0 (s : St) : List Nat := [s.x, s.cid, s.u0]
def trace1 (s : St) : List Nat := [s.na, s.nf]

def finC (c : Cfg) (k : Kind) (as : List Ad) (ss : List St) (p : Par) (rngs : List Rng) :
    Par × List St × List Nat :=
  let p1 : Par := if fastOn c k then { p with par := (as.map (·.acc)).sum + 2 * (as.map (·.n)).sum } else p
  if slowOn c k then
    let p2 : Par := { p1 with met := (as.map (·.sum)).sum + (as.map (·.m)).sum }
    (p2,
     (ss.zip rngs).map (fun sr =>
        { sr.1 with nf := sr.1.nf + 1, u0 := if c.e > 0 then sr.2.pos + 1 else sr.1.u0,
                    ud := if c.e > 0 then c.e else sr.1.ud }),
     ss.map (fun _ => c.e))
  else (p1, ss, [])

def kernel (c : Cfg) : Kernel St (List Nat) Ad Par where
  a0 := ⟨0, 0, 0, 0⟩
  init := fun k s p =>
    (⟨0, 0, 0, 0⟩, if fastOn c k then { p with par := 7 + s.cid + 10 * s.x } else p)
  trans := (if c.hasA then [transA c] else []) ++ [transB c]
  traces := ([trace0, trace1]).take c.nTraceFns
  fin := finC c

end MiciVerif.SamplerCount
