/-
Tangent (Jacobian) lift of the component flows of `Model/Integrators.lean`.

A phase-space point is `(q, p) : (Fin n → K) × (Fin n → K)`; a tangent-lifted state additionally
carries a `2n × 2n` matrix `D` (the derivative of the current point with respect to the initial
point, coordinates ordered `(q, p) = (Sum.inl, Sum.inr)`).  Each elementary flow multiplies `D` on
the left by its own Jacobian, evaluated at the point where the flow is applied (chain rule).

The lifted flows have type `K → TState n K → TState n K`, so they can be passed directly to the
generic `symComp`, `mkSymComp`, `leapfrog`, `step`, `steps` of `Model/Integrators.lean`.

Code anchors (/repo/src/mici):
* `kickJac`, `kickT`          — Jacobian / lift of `System.h1_flow` (systems.py:143-152)
* `driftJac`, `driftT`        — `EuclideanMetricSystem.h2_flow` (systems.py:362-363)
* `harmonicJac`, `harmonicT`  — `GaussianEuclideanMetricSystem.h2_flow` (systems.py:467-477)
* `midpointFwdEq`, `midpointAdj`, `midpointJac`
                              — `ImplicitMidpointIntegrator._step_a_fwd/_step_a_adj/_step`
                                (integrators.py:644-682) on a quadratic Hamiltonian `h = ½ xᵀ S x`
* `glBFwdJac`, `glCFwdJac`, `glCAdjJac`, `glBAdjJac`, `genLeapfrogJac`
                              — `ImplicitLeapfrogIntegrator._step_b_fwd/_step_c_fwd/_step_c_adj/
                                _step_b_adj/_step` (integrators.py:493-545) on a quadratic `h2`
* `glDh2Dpos`, `glDh2Dmom`, `glBFwdEq`, `glCFwd`, `glCAdjEq`, `glBAdj`
                              — the same four sub-steps as maps / fixed-point equations
* `cotProject`, `gramR`, `cotProjJac`
                              — `ConstrainedEuclideanMetricSystem.project_onto_cotangent_space`
                                (systems.py:867-877) for a LINEAR constraint `C q = d`
* `retract`, `retrJac`        — `_h2_flow_retraction_onto_manifold` (integrators.py:929-942) with
                                the exact solution of the projection equation (solvers.py:436-462:
                                for a linear constraint one Newton iteration is exact)
* `conStepAJac`, `conStepBJac`, `conLeapfrogJac`
                              — `ConstrainedLeapfrogIntegrator._step_a/_step_b/_step`
                                (integrators.py:947-984)
-/
import MiciVerif.Model.Integrators
import Mathlib.Data.Matrix.Block

namespace MiciVerif.Integrators

open Matrix

/-- `n × n` matrices. -/
abbrev Mat (n : Nat) (K : Type*) := Matrix (Fin n) (Fin n) K
/-- `2n × 2n` matrices in `(q, p)` block form. -/
abbrev Mat2 (n : Nat) (K : Type*) := Matrix (Fin n ⊕ Fin n) (Fin n ⊕ Fin n) K
/-- Phase-space points `(q, p)`. -/
abbrev Phase (n : Nat) (K : Type*) := (Fin n → K) × (Fin n → K)
/-- Tangent-lifted states `((q, p), D)`. -/
abbrev TState (n : Nat) (K : Type*) := Phase n K × Mat2 n K

section
variable {K : Type*} [Field K] {n : Nat}

/-- `(q, p)` as one vector indexed by `Fin n ⊕ Fin n` (`np.concatenate([pos, mom])`). -/
def pack (x : Phase n K) : Fin n ⊕ Fin n → K := Sum.elim x.1 x.2

/-- `np.split(pos_mom, 2)`. -/
def unpack (v : Fin n ⊕ Fin n → K) : Phase n K := (fun i => v (Sum.inl i), fun i => v (Sum.inr i))

/-! ### Jacobians of the three explicit component flows -/

/-- Jacobian of `(q, p) ↦ (q, p − t g(q))`, `H = Dg(q)` (Hessian of `h1` at `q`). -/
def kickJac (t : K) (H : Mat n K) : Mat2 n K := fromBlocks 1 0 (-(t • H)) 1

/-- Jacobian of `(q, p) ↦ (q + t N p, p)`, `N = metric.inv`. -/
def driftJac (t : K) (N : Mat n K) : Mat2 n K := fromBlocks 1 (t • N) 0 1

/-- Jacobian of `harmonic Q ω trig t` with `T = trig t`. -/
def harmonicJac (Q : Mat n K) (ω : Fin n → K) (T : Trig n K) : Mat2 n K :=
  fromBlocks (Q * diagonal T.c * Qᵀ) (Q * diagonal (T.s * ω) * Qᵀ)
    (-(Q * diagonal (T.s / ω) * Qᵀ)) (Q * diagonal T.c * Qᵀ)

/-! ### Tangent-lifted flows -/

/-- Lift of `kick g`; `H q` is the Jacobian of `g` at `q` (the Hessian of `h1`). -/
def kickT (g : (Fin n → K) → (Fin n → K)) (H : (Fin n → K) → Mat n K) (t : K)
    (s : TState n K) : TState n K :=
  (kick g t s.1, kickJac t (H s.1.1) * s.2)

/-- Lift of `drift N.mulVec`. -/
def driftT (N : Mat n K) (t : K) (s : TState n K) : TState n K :=
  (drift N.mulVec t s.1, driftJac t N * s.2)

/-- Lift of `harmonic Q ω trig`. -/
def harmonicT (Q : Mat n K) (ω : Fin n → K) (trig : K → Trig n K) (t : K)
    (s : TState n K) : TState n K :=
  (harmonic Q ω trig t s.1, harmonicJac Q ω (trig t) * s.2)

/-- Initial lifted state: the point with the identity Jacobian. -/
def initT (x : Phase n K) : TState n K := (x, 1)

/-! ### Implicit midpoint on a quadratic Hamiltonian `h(x) = ½ xᵀ S x`, `x = (q, p)`

`∇h = S x` and Hamilton's equations read `ẋ = (dh_dmom, −dh_dpos) = −J (S x)` with
`J = jMat = [[0, −1], [1, 0]]` (this is Mathlib's `Matrix.J`). -/

/-- `[[0, −1], [1, 0]]` (equal to Mathlib's `Matrix.J (Fin n) K`, kept here so that the model
does not import the symplectic-group file). -/
def jMat (n : Nat) (K : Type*) [Field K] : Mat2 n K := fromBlocks 0 (-1) 1 0

/-- The Hamiltonian vector field `x ↦ concatenate([dh_dmom, -dh_dpos])` of `h = ½ xᵀ S x`. -/
def hamField (S : Mat2 n K) (v : Fin n ⊕ Fin n → K) : Fin n ⊕ Fin n → K :=
  -((jMat n K * S).mulVec v)

/-- `_step_a_fwd` returns a fixed point `y` of `y ↦ x + τ F(y)` (implicit Euler). -/
def midpointFwdEq (S : Mat2 n K) (τ : K) (x y : Fin n ⊕ Fin n → K) : Prop :=
  y = x + τ • hamField S y

/-- `_step_a_adj`: `x + τ F(x)` (explicit Euler). -/
def midpointAdj (S : Mat2 n K) (τ : K) (x : Fin n ⊕ Fin n → K) : Fin n ⊕ Fin n → K :=
  x + τ • hamField S x

/-- Jacobian of `_step` (`_step_a_fwd(τ)` then `_step_a_adj(τ)`, `τ = time_step / 2`), where `X` is
the inverse of `1 + τ J S` (the matrix of the implicit-Euler equation). -/
def midpointJac (S : Mat2 n K) (τ : K) (X : Mat2 n K) : Mat2 n K :=
  (1 - τ • (jMat n K * S)) * X

/-! ### Generalised (implicit) leapfrog on a quadratic
`h2(q, p) = ½ qᵀ Sqq q + qᵀ Sqp p + ½ pᵀ Spp p`:
`dh2_dpos = Sqq q + Sqp p`, `dh2_dmom = Sqpᵀ q + Spp p`. -/

/-- `_step_b_fwd(τ)`: `p' = p − τ (Sqq q + Sqp p')`; `W` is the inverse of `1 + τ Sqp`. -/
def glBFwdJac (τ : K) (Sqq W : Mat n K) : Mat2 n K := fromBlocks 1 0 (-(τ • (W * Sqq))) W

/-- `_step_c_fwd(τ)`: `q' = q + τ (Sqpᵀ q + Spp p)`. -/
def glCFwdJac (τ : K) (Sqp Spp : Mat n K) : Mat2 n K := fromBlocks (1 + τ • Sqpᵀ) (τ • Spp) 0 1

/-- `_step_c_adj(τ)`: `q' = q + τ (Sqpᵀ q' + Spp p)`; `V` is the inverse of `1 − τ Sqpᵀ`. -/
def glCAdjJac (τ : K) (Spp V : Mat n K) : Mat2 n K := fromBlocks V (τ • (V * Spp)) 0 1

/-- `_step_b_adj(τ)`: `p' = p − τ (Sqq q + Sqp p)`. -/
def glBAdjJac (τ : K) (Sqq Sqp : Mat n K) : Mat2 n K := fromBlocks 1 0 (-(τ • Sqq)) (1 - τ • Sqp)

/-- Jacobian of `ImplicitLeapfrogIntegrator._step` with `τ = time_step / 2`; `H₀`, `H₁` are the
Hessians of `h1` at the initial and final positions. Later factors act first. -/
def genLeapfrogJac (τ : K) (H₀ H₁ Sqq Sqp Spp W V : Mat n K) : Mat2 n K :=
  kickJac τ H₁ * (glBAdjJac τ Sqq Sqp * (glCAdjJac τ Spp V * (glCFwdJac τ Sqp Spp *
    (glBFwdJac τ Sqq W * kickJac τ H₀))))

/-- `dh2_dpos` of the quadratic `h2`. -/
def glDh2Dpos (Sqq Sqp : Mat n K) (x : Phase n K) : Fin n → K :=
  Sqq.mulVec x.1 + Sqp.mulVec x.2

/-- `dh2_dmom` of the quadratic `h2`. -/
def glDh2Dmom (Sqp Spp : Mat n K) (x : Phase n K) : Fin n → K :=
  Sqpᵀ.mulVec x.1 + Spp.mulVec x.2

/-- `_step_b_fwd`: the returned momentum `p'` is a fixed point of
`mom ↦ mom_init - time_step * dh2_dpos(pos, mom)`. -/
def glBFwdEq (τ : K) (Sqq Sqp : Mat n K) (x : Phase n K) (p' : Fin n → K) : Prop :=
  p' = x.2 - τ • glDh2Dpos Sqq Sqp (x.1, p')

/-- `_step_c_fwd`: `pos += time_step * dh2_dmom(state)`. -/
def glCFwd (τ : K) (Sqp Spp : Mat n K) (x : Phase n K) : Phase n K :=
  (x.1 + τ • glDh2Dmom Sqp Spp x, x.2)

/-- `_step_c_adj`: the returned position `q'` is a fixed point of
`pos ↦ pos_init + time_step * dh2_dmom(pos, mom)`. -/
def glCAdjEq (τ : K) (Sqp Spp : Mat n K) (x : Phase n K) (q' : Fin n → K) : Prop :=
  q' = x.1 + τ • glDh2Dmom Sqp Spp (q', x.2)

/-- `_step_b_adj`: `mom -= time_step * dh2_dpos(state)`. -/
def glBAdj (τ : K) (Sqq Sqp : Mat n K) (x : Phase n K) : Phase n K :=
  (x.1, x.2 - τ • glDh2Dpos Sqq Sqp x)

/-! ### Constrained leapfrog with a LINEAR constraint `C q = d` (`jacob_constr = C` constant)

`N = metric.inv`, `Ginv = inv_gram = (C N Cᵀ)⁻¹`, `R = gramR C Ginv = Cᵀ Ginv C`; the cotangent
projector is `Π = 1 − R N`. -/

/-- `Cᵀ (C N Cᵀ)⁻¹ C`. -/
def gramR {m : Nat} (C : Matrix (Fin m) (Fin n) K) (Ginv : Matrix (Fin m) (Fin m) K) : Mat n K :=
  Cᵀ * Ginv * C

/-- `project_onto_cotangent_space`:
`mom -= jacob_constr.T @ (inv_gram @ (jacob_constr @ (metric.inv @ mom)))`. -/
def cotProject {m : Nat} (C : Matrix (Fin m) (Fin n) K) (N : Mat n K)
    (Ginv : Matrix (Fin m) (Fin m) K) (p : Fin n → K) : Fin n → K :=
  p - Cᵀ.mulVec (Ginv.mulVec (C.mulVec (N.mulVec p)))

/-- Jacobian of `(q, p) ↦ (q, P p)`. -/
def cotProjJac (P : Mat n K) : Mat2 n K := fromBlocks 1 0 0 P

/-- `_h2_flow_retraction_onto_manifold` for the Euclidean `h2_flow` and a linear constraint, with the
projection equation solved exactly: after `h2_flow` the solver accumulates
`mu = Cᵀ (C |t| N Cᵀ)⁻¹ (C pos − d)`, sets `pos -= |t| N mu` and `mom -= sign(t) mu`;
here `ν = |t| mu = Cᵀ Ginv (C pos − d)` and `sign(t) / |t| = t⁻¹`. -/
def retract {m : Nat} (C : Matrix (Fin m) (Fin n) K) (d : Fin m → K) (N : Mat n K)
    (Ginv : Matrix (Fin m) (Fin m) K) (t : K) (x : Phase n K) : Phase n K :=
  let y := drift N.mulVec t x
  let ν := Cᵀ.mulVec (Ginv.mulVec (C.mulVec y.1 - d))
  (y.1 - N.mulVec ν, y.2 - t⁻¹ • ν)

/-- Jacobian of `retract` in the ambient space (`R = gramR C Ginv`). -/
def retrJac (t : K) (N R : Mat n K) : Mat2 n K :=
  fromBlocks (1 - N * R) (t • (N * (1 - R * N))) (-(t⁻¹ • R)) (1 - R * N)

/-- `ConstrainedLeapfrogIntegrator._step_a`: `h1_flow` then projection of the momentum. -/
def conStepAJac (t : K) (H N R : Mat n K) : Mat2 n K := cotProjJac (1 - R * N) * kickJac t H

/-- One inner iteration of `_step_b`: retraction, then projection of the momentum. -/
def conStepBJac (t : K) (N R : Mat n K) : Mat2 n K := cotProjJac (1 - R * N) * retrJac t N R

/-- Jacobian of `ConstrainedLeapfrogIntegrator._step` (`n_inner_step = k`, inner time step `ti`,
`τ = time_step / 2`; `H₀`, `H₁` Hessians of `h1` at the initial and final positions). -/
def conLeapfrogJac (τ ti : K) (k : Nat) (H₀ H₁ N R : Mat n K) : Mat2 n K :=
  conStepAJac τ H₁ N R * ((conStepBJac ti N R) ^ k * conStepAJac τ H₀ N R)

end

/-! ### Evaluation helpers for the driver

Vectors and matrices are functions, so iterated flows build towers of closures whose evaluation
cost is exponential in the number of flows unless intermediate results are materialised.  A
definition of the shape `def force v : Fin n → α := let a := Array.ofFn v; fun i => a[i]` does NOT
achieve this: the compiler eta-expands it to arity 2 and recomputes the array on every access.
The working pattern used here: a `@[noinline]` function returning a structure with TWO relevant
fields (a one-field structure is represented as the field itself) that holds closures over the
arrays, and a `@[macro_inline]` projection wrapper, so that call sites evaluate the boxing function
strictly, once. All helpers are provably the identity. -/

/-- A value together with a dummy tag (prevents the one-field-structure representation). -/
structure Box (β : Type*) where
  val : β
  tag : Nat

@[noinline] def vecBox {n : Nat} {α : Type*} (v : Fin n → α) : Box (Fin n → α) :=
  let a := Array.ofFn v
  ⟨fun i => a[i.1]'(by simp [a]), a.size⟩

/-- Materialise a vector (use instead of `force`). -/
@[macro_inline] def forceV {n : Nat} {α : Type*} (v : Fin n → α) : Fin n → α := (vecBox v).val

theorem forceV_eq {n : Nat} {α : Type*} (v : Fin n → α) : forceV v = v := by
  funext i; simp [forceV, vecBox]

@[noinline] def tBox {n : Nat} {K : Type*} (s : TState n K) : Box (TState n K) :=
  let q := Array.ofFn s.1.1
  let p := Array.ofFn s.1.2
  let a := Array.ofFn fun i : Fin n => Array.ofFn fun j : Fin n => s.2 (Sum.inl i) (Sum.inl j)
  let b := Array.ofFn fun i : Fin n => Array.ofFn fun j : Fin n => s.2 (Sum.inl i) (Sum.inr j)
  let c := Array.ofFn fun i : Fin n => Array.ofFn fun j : Fin n => s.2 (Sum.inr i) (Sum.inl j)
  let d := Array.ofFn fun i : Fin n => Array.ofFn fun j : Fin n => s.2 (Sum.inr i) (Sum.inr j)
  ⟨((fun i => q[i.1]'(by simp [q]), fun i => p[i.1]'(by simp [p])),
    fun i j =>
      match i, j with
      | Sum.inl i, Sum.inl j => (a[i.1]'(by simp [a]))[j.1]'(by simp [a])
      | Sum.inl i, Sum.inr j => (b[i.1]'(by simp [b]))[j.1]'(by simp [b])
      | Sum.inr i, Sum.inl j => (c[i.1]'(by simp [c]))[j.1]'(by simp [c])
      | Sum.inr i, Sum.inr j => (d[i.1]'(by simp [d]))[j.1]'(by simp [d])),
    q.size⟩

/-- Materialise a lifted state; wrap every lifted flow as `fun t s => forceT (kickT g H t s)`. -/
@[macro_inline] def forceT {n : Nat} {K : Type*} (s : TState n K) : TState n K := (tBox s).val

theorem forceT_eq {n : Nat} {K : Type*} (s : TState n K) : forceT s = s := by
  obtain ⟨⟨q, p⟩, D⟩ := s
  refine Prod.ext (Prod.ext ?_ ?_) ?_
  · funext i; simp [forceT, tBox]
  · funext i; simp [forceT, tBox]
  · funext i j
    rcases i with i | i <;> rcases j with j | j <;> simp [forceT, tBox]

end MiciVerif.Integrators
