/-
Tangent (Jacobian) lift of the component flows of `Model/Integrators.lean`.

A phase-space point is `(q, p) : (Fin n → K) × (Fin n → K)`; a tangent-lifted state additionally
carries a `2n × 2n` matrix `D` (the derivative of the current point with respect to the initial
point, coordinates ordered `(q, p) = (Sum.inl, Sum.inr)`).  Each elementary flow multiplies `D` on
the left by its own Jacobian, evaluated at the point where the flow is applied (chain rule).

The lifted flows have type `K → TState n K → TState n K`, so they can be passed directly to the
generic `symComp`, `mkSymComp`, `leapfrog`, `step`, `steps` of `Model/Integrators.lean`.

Code anchors (/repo/src/mici):
* `kickJac`, `kickT`          — Jacobian / lift of `System.h1_flow` (systems.py:143-152)
* `driftJac`, `driftT`        — `EuclideanMetricSystem.h2_flow` (systems.py:362-363)
* `harmonicJac`, `harmonicT`  — `GaussianEuclideanMetricSystem.h2_flow` (systems.py:467-477)
* `midpointFwdEq`, `midpointAdj`, `midpointJac`
                              — `ImplicitMidpointIntegrator._step_a_fwd/_step_a_adj/_step`
                                (integrators.py:644-682) on a quadratic Hamiltonian `h = ½ xᵀ S x`
* `glBFwdJac`, `glCFwdJac`, `glCAdjJac`, `glBAdjJac`, `genLeapfrogJac`
                              — `ImplicitLeapfrogIntegrator._step_b_fwd/_step_c_fwd/_step_c_adj/
                                _step_b_adj/_step` (integrators.py:493-545) on a quadratic `h2`
* `cotProj`, `cotProjJac`, `conStepAJac`, `conStepBJac`, `conLeapfrogJac`
                              — `ConstrainedEuclideanMetricSystem.project_onto_cotangent_space`
                                (systems.py:867-877), `ConstrainedLeapfrogIntegrator._step_a/_step_b/
                                _step` (integrators.py:947-984) for a LINEAR constraint `C q = d`
-/
import MiciVerif.Model.Integrators
import Mathlib.Data.Matrix.Block

namespace MiciVerif.Integrators

open Matrix

/-- `n × n` matrices. -/
abbrev Mat (n : Nat) (K : Type*) := Matrix (Fin n) (Fin n) K
/-- `2n × 2n` matrices in `(q, p)` block form. -/
abbrev Mat2 (n : Nat) (K : Type*) := Matrix (Fin n ⊕ Fin n) (Fin n ⊕ Fin n) K
/-- Phase-space points `(q, p)`. -/
abbrev Phase (n : Nat) (K : Type*) := (Fin n → K) × (Fin n → K)
/-- Tangent-lifted states `((q, p), D)`. -/
abbrev TState (n : Nat) (K : Type*) := Phase n K × Mat2 n K

section
variable {K : Type*} [Field K] {n : Nat}

/-- `(q, p)` as one vector indexed by `Fin n ⊕ Fin n` (`np.concatenate([pos, mom])`). -/
def pack (x : Phase n K) : Fin n ⊕ Fin n → K := Sum.elim x.1 x.2

/-- `np.split(pos_mom, 2)`. -/
def unpack (v : Fin n ⊕ Fin n → K) : Phase n K := (fun i => v (Sum.inl i), fun i => v (Sum.inr i))

/-! ### Jacobians of the three explicit component flows -/

/-- Jacobian of `(q, p) ↦ (q, p − t g(q))`, `H = Dg(q)` (Hessian of `h1` at `q`). -/
def kickJac (t : K) (H : Mat n K) : Mat2 n K := fromBlocks 1 0 (-(t • H)) 1

/-- Jacobian of `(q, p) ↦ (q + t N p, p)`, `N = metric.inv`. -/
def driftJac (t : K) (N : Mat n K) : Mat2 n K := fromBlocks 1 (t • N) 0 1

/-- Jacobian of `harmonic Q ω trig t` with `T = trig t`. -/
def harmonicJac (Q : Mat n K) (ω : Fin n → K) (T : Trig n K) : Mat2 n K :=
  fromBlocks (Q * diagonal T.c * Qᵀ) (Q * diagonal (T.s * ω) * Qᵀ)
    (-(Q * diagonal (T.s / ω) * Qᵀ)) (Q * diagonal T.c * Qᵀ)

/-! ### Tangent-lifted flows -/

/-- Lift of `kick g`; `H q` is the Jacobian of `g` at `q` (the Hessian of `h1`). -/
def kickT (g : (Fin n → K) → (Fin n → K)) (H : (Fin n → K) → Mat n K) (t : K)
    (s : TState n K) : TState n K :=
  (kick g t s.1, kickJac t (H s.1.1) * s.2)

/-- Lift of `drift N.mulVec`. -/
def driftT (N : Mat n K) (t : K) (s : TState n K) : TState n K :=
  (drift N.mulVec t s.1, driftJac t N * s.2)

/-- Lift of `harmonic Q ω trig`. -/
def harmonicT (Q : Mat n K) (ω : Fin n → K) (trig : K → Trig n K) (t : K)
    (s : TState n K) : TState n K :=
  (harmonic Q ω trig t s.1, harmonicJac Q ω (trig t) * s.2)

/-- Initial lifted state: the point with the identity Jacobian. -/
def initT (x : Phase n K) : TState n K := (x, 1)

/-! ### Implicit midpoint on a quadratic Hamiltonian `h(x) = ½ xᵀ S x`, `x = (q, p)`

`∇h = S x` and Hamilton's equations read `ẋ = (dh_dmom, −dh_dpos) = −J (S x)` with
`J = jMat = [[0, −1], [1, 0]]` (this is Mathlib's `Matrix.J`). -/

/-- `[[0, −1], [1, 0]]` (equal to Mathlib's `Matrix.J (Fin n) K`, kept here so that the model
does not import the symplectic-group file). -/
def jMat (n : Nat) (K : Type*) [Field K] : Mat2 n K := fromBlocks 0 (-1) 1 0

/-- The Hamiltonian vector field `x ↦ concatenate([dh_dmom, -dh_dpos])` of `h = ½ xᵀ S x`. -/
def hamField (S : Mat2 n K) (v : Fin n ⊕ Fin n → K) : Fin n ⊕ Fin n → K :=
  -((jMat n K * S).mulVec v)

/-- `_step_a_fwd` returns a fixed point `y` of `y ↦ x + τ F(y)` (implicit Euler). -/
def midpointFwdEq (S : Mat2 n K) (τ : K) (x y : Fin n ⊕ Fin n → K) : Prop :=
  y = x + τ • hamField S y

/-- `_step_a_adj`: `x + τ F(x)` (explicit Euler). -/
def midpointAdj (S : Mat2 n K) (τ : K) (x : Fin n ⊕ Fin n → K) : Fin n ⊕ Fin n → K :=
  x + τ • hamField S x

/-- Jacobian of `_step` (`_step_a_fwd(τ)` then `_step_a_adj(τ)`, `τ = time_step / 2`), where `X` is
the inverse of `1 + τ J S` (the matrix of the implicit-Euler equation). -/
def midpointJac (S : Mat2 n K) (τ : K) (X : Mat2 n K) : Mat2 n K :=
  (1 - τ • (jMat n K * S)) * X

/-! ### Generalised (implicit) leapfrog on a quadratic
`h2(q, p) = ½ qᵀ Sqq q + qᵀ Sqp p + ½ pᵀ Spp p`:
`dh2_dpos = Sqq q + Sqp p`, `dh2_dmom = Sqpᵀ q + Spp p`. -/

/-- `_step_b_fwd(τ)`: `p' = p − τ (Sqq q + Sqp p')`; `W` is the inverse of `1 + τ Sqp`. -/
def glBFwdJac (τ : K) (Sqq W : Mat n K) : Mat2 n K := fromBlocks 1 0 (-(τ • (W * Sqq))) W

/-- `_step_c_fwd(τ)`: `q' = q + τ (Sqpᵀ q + Spp p)`. -/
def glCFwdJac (τ : K) (Sqp Spp : Mat n K) : Mat2 n K := fromBlocks (1 + τ • Sqpᵀ) (τ • Spp) 0 1

/-- `_step_c_adj(τ)`: `q' = q + τ (Sqpᵀ q' + Spp p)`; `V` is the inverse of `1 − τ Sqpᵀ`. -/
def glCAdjJac (τ : K) (Spp V : Mat n K) : Mat2 n K := fromBlocks V (τ • (V * Spp)) 0 1

/-- `_step_b_adj(τ)`: `p' = p − τ (Sqq q + Sqp p)`. -/
def glBAdjJac (τ : K) (Sqq Sqp : Mat n K) : Mat2 n K := fromBlocks 1 0 (-(τ • Sqq)) (1 - τ • Sqp)

/-- Jacobian of `ImplicitLeapfrogIntegrator._step` with `τ = time_step / 2`; `H₀`, `H₁` are the
Hessians of `h1` at the initial and final positions. Later factors act first. -/
def genLeapfrogJac (τ : K) (H₀ H₁ Sqq Sqp Spp W V : Mat n K) : Mat2 n K :=
  kickJac τ H₁ * (glBAdjJac τ Sqq Sqp * (glCAdjJac τ Spp V * (glCFwdJac τ Sqp Spp *
    (glBFwdJac τ Sqq W * kickJac τ H₀))))

/-! ### Constrained leapfrog with a LINEAR constraint `C q = d` (`jacob_constr = C` constant) -/

/-- `project_onto_cotangent_space` as a matrix: `1 − Cᵀ G⁻¹ C N`, `Ginv = inv_gram = (C N Cᵀ)⁻¹`. -/
def cotProj {m : Nat} (C : Matrix (Fin m) (Fin n) K) (N : Mat n K)
    (Ginv : Matrix (Fin m) (Fin m) K) : Mat n K :=
  1 - Cᵀ * Ginv * C * N

/-- Jacobian of `(q, p) ↦ (q, Π p)`. -/
def cotProjJac (P : Mat n K) : Mat2 n K := fromBlocks 1 0 0 P

/-- `ConstrainedLeapfrogIntegrator._step_a`: `h1_flow` then projection of the momentum. -/
def conStepAJac (t : K) (H P : Mat n K) : Mat2 n K := cotProjJac P * kickJac t H

/-- One inner iteration of `_step_b` for a linear constraint and a momentum in the cotangent
space: `h2_flow` (the retraction finds `λ = 0` since `C (q + t N p) = d` already), then projection
of the momentum. -/
def conStepBJac (t : K) (N P : Mat n K) : Mat2 n K := cotProjJac P * driftJac t N

/-- Jacobian of `ConstrainedLeapfrogIntegrator._step` (`n_inner_step = k`, inner time step `ti`,
`τ = time_step / 2`). -/
def conLeapfrogJac (τ ti : K) (k : Nat) (H₀ H₁ N P : Mat n K) : Mat2 n K :=
  conStepAJac τ H₁ P * ((conStepBJac ti N P) ^ k * conStepAJac τ H₀ P)

end

/-! ### Evaluation helper for the driver -/

/-- Materialise a `2n × 2n` matrix into arrays (provably the identity, see `forceMat2_eq`). -/
def forceMat2 {n : Nat} {α : Type*} (M : Matrix (Fin n ⊕ Fin n) (Fin n ⊕ Fin n) α) :
    Matrix (Fin n ⊕ Fin n) (Fin n ⊕ Fin n) α :=
  let a := force (fun i => force (fun j => M (Sum.inl i) (Sum.inl j)))
  let b := force (fun i => force (fun j => M (Sum.inl i) (Sum.inr j)))
  let c := force (fun i => force (fun j => M (Sum.inr i) (Sum.inl j)))
  let d := force (fun i => force (fun j => M (Sum.inr i) (Sum.inr j)))
  Matrix.of fun i j =>
    match i, j with
    | Sum.inl i, Sum.inl j => a i j
    | Sum.inl i, Sum.inr j => b i j
    | Sum.inr i, Sum.inl j => c i j
    | Sum.inr i, Sum.inr j => d i j

theorem forceMat2_eq {n : Nat} {α : Type*} (M : Matrix (Fin n ⊕ Fin n) (Fin n ⊕ Fin n) α) :
    forceMat2 M = M := by
  ext i j
  rcases i with i | i <;> rcases j with j | j <;> simp [forceMat2, force_eq]

/-- Materialise a lifted state. -/
def forceT {n : Nat} {K : Type*} (s : TState n K) : TState n K := (force2 s.1, forceMat2 s.2)

theorem forceT_eq {n : Nat} {K : Type*} (s : TState n K) : forceT s = s := by
  simp [forceT, force2_eq, forceMat2_eq]

end MiciVerif.Integrators
