/-
Control skeleton of the Markov transitions of `mici.transitions`, as a deep embedding (builder B8;
same technique and the same types `Skel.E` / `Skel.S` as the sampler skeleton of
`Model/SamplerSkeleton.lean`).

* `tools/extractors/transition_skeleton.py` translates the *current* source of the Metropolis
  transitions (`_sample_n_step`, the two `sample`s, the constructors' argument checks), the dynamic
  transitions (`sample`, `_build_tree`, `_new_leave`, `_merge_subtrees`, `_termination_criterion`,
  `_init_aux_vars`, `_weight_function` / `_weight_ratio` / `_check_divergence` of both subclasses), the two
  no-U-turn criteria, `_process_integrator_error`, `_h_trial_state`, the momentum transitions and
  `Integrator.step` into statement trees on every run (`Generated/TransitionSkeleton.lean`), plus the table
  `classes` (class, bases, functions defined in it).
* `Skel.TExpected.*`: the trees the definitions of `Model/Transitions.lean` (`M:`) and
  `Model/Momentum.lean` (`Mom:`) were written against, annotated node by node with the definition they
  justify, or `not modelled`.  `Props/C01S.lean` and `Props/C12K.lean` prove `generated = expected` (kernel
  evaluation of the derived `DecidableEq`) and re-derive the individual facts from the generated trees
  with the queries of `Model/SamplerSkeleton.lean` and the ones defined below.
* `Skel.TSem`: a reading of the body of `_sample_n_step` as a function on an integrator orbit
  (`Transitions.MOrbitS`: weights and per-step success flags).  Each recognised statement shape is
  mapped to the abstract action it stands for (anything else is rejected) and the actions are executed
  IN SOURCE ORDER on the local variables (`state`, `state_p` with their aliasing, `integration_error`,
  `_s`, the statistics); the acceptance draw is `Dist.bernoulli`.  `Props/C01S.lean` proves that the
  reading of the body *generated from the current source* is `Transitions.metropolis` paired with
  `Transitions.metropolisStats`, for every orbit, `n_step ≥ 1`, start and direction.  What the reading
  assumes is visible in its definition: `exp(min(0, h_init − h_final))` (0 for NaN) is `ratio (w end)
  (w start)`, `integrator.step` returns a new object, it raises `IntegratorError` exactly on a step with
  `stepOk = false` and otherwise moves one orbit point in direction `state.dir`.
* `Skel.BSem`: a reading of the body of `_build_tree` (the `depth == 0` block with its `try` / handler and
  the recursive part) on the tree abstraction `Transitions.TTree`; `Skel.DSem`: a reading of the loop body of
  `DynamicIntegrationTransition.sample` on `TTree`, its `_build_tree` calls being `BSem`.  `Props/C01S.lean`
  proves that, for the bodies generated from the current source, a `_build_tree` call hands back nothing iff
  `!(entryOk && t.valid)` and otherwise weight `t.W` and a proposal `TTree.propose fwd t`, that one pass of
  the loop is `Transitions.stepUp` followed by the criterion test of the merged tree, and that the loop
  returns `Transitions.final`.  Outside these theorems (tied by expected trees + projections and by the
  rng-path correspondence of the C01 harness): the leaf-level conventions (weights from `_weight_function`,
  which statements raise), the criterion functions (`τ` is a flag of the block), the `_weight_ratio`
  implementations (read as `Transitions.ratio`), and the statistics of the dynamic transitions.
-/
import MiciVerif.Model.SamplerSkeleton
import MiciVerif.Model.Transitions

namespace MiciVerif.Skel

/-! ## Further queries on statement trees -/

/-- one of the handlers of the list catches the exception class `exc` (by name) -/
def handles (exc : String) (handlers : S) : Bool :=
  handlers.stmts.any fun
    | .handler x _ _ => x.uses exc
    | _ => false

/-- every statement node (as `S.all`) that is NOT inside the body of a `try` with a handler for `exc` -/
def S.outside (exc : String) : S → List S
  | .skip => []
  | .seq h t => h.outside exc ++ t.outside exc
  | .ifc c t f => .ifc c t f :: (t.outside exc ++ f.outside exc)
  | .loop t i b => .loop t i b :: b.outside exc
  | .while_ c b => .while_ c b :: b.outside exc
  | .try_ b h e f =>
    (if handles exc h then [] else b.outside exc) ++ h.outside exc ++ e.outside exc ++ f.outside exc
  | .handler _ _ b => b.outside exc
  | .with_ i b => .with_ i b :: b.outside exc
  | s => [s]

/-- every call of `f` in the tree is inside the body of a `try` that has a handler for `exc` -/
def S.callsProtected (f exc : String) (s : S) : Bool := (s.outside exc).all fun st => !st.callsHere f

/-- the `try` statements of the tree as (body, handlers, else, finally) -/
def S.tries (s : S) : List (S × S × S × S) :=
  s.all.filterMap fun
    | .try_ b h e f => some (b, h, e, f)
    | _ => Option.none

/-- handlers of a handler list as (exception expression, bound name, body statements) -/
def handlerList (h : S) : List (E × String × List S) :=
  h.stmts.filterMap fun
    | .handler x nm b => some (x, nm, b.stmts)
    | _ => Option.none

/-- all `if` statements of the tree as (condition, then-statements, else-statements) -/
def S.ifs (s : S) : List (E × List S × List S) :=
  s.all.filterMap fun
    | .ifc c t f => some (c, t.stmts, f.stmts)
    | _ => Option.none

/-- right-hand sides assigned to the target `x` anywhere in the tree, in source order -/
def S.valuesOf (x : E) (s : S) : List E :=
  s.all.filterMap fun
    | .assign t e => if t = x then some e else Option.none
    | _ => Option.none

/-- argument lists of all calls of `f` made by `expr` / `assign` / `ret` / `if`-condition nodes, in order
(one entry per statement: the first call of `f` in it) -/
def S.callArgs (f : String) (s : S) : List E :=
  s.all.filterMap fun
    | .expr e => e.argsOf f
    | .assign _ e => e.argsOf f
    | .ret e => e.argsOf f
    | .ifc c _ _ => c.argsOf f
    | _ => Option.none

/-- the `return` expressions of the tree, in source order -/
def S.returns (s : S) : List E :=
  s.all.filterMap fun
    | .ret e => some e
    | _ => Option.none

/-- the exceptions raised in the tree (constructor expressions), in source order -/
def S.raises (s : S) : List E :=
  s.all.filterMap fun
    | .raise_ e _ => some e
    | _ => Option.none

/-- methods a class of the `classes` table defines itself -/
def methodsOf (tbl : List (String × List String × List String)) (c : String) : List String :=
  match tbl.lookup c with
  | some (_, ms) => ms
  | Option.none => []

/-- bases of a class of the `classes` table -/
def basesOf (tbl : List (String × List String × List String)) (c : String) : List String :=
  match tbl.lookup c with
  | some (bs, _) => bs
  | Option.none => []

/-! ## The expected skeletons (clean-tree output of the extractor, annotated) -/

namespace TExpected


/-- parameters of `_process_integrator_error` -/
def processIntegratorErrorSig : E :=
  (E.l [(.v "exception"), (.v "stats")])

/-- body of `_process_integrator_error` -/
def processIntegratorError : S :=
  (S.b [
  -- M: error flag of `metropolisStats` (`.2.2`) / `visited` (`.2.2.2`): the flag matching the class of the
  -- error is set to True; nothing else is written (the callers initialise the flags they declare to False;
  -- `diverging` is declared by the dynamic transitions only)
  .ifc (.call "isinstance" (E.l [(.v "exception"), (.v "HamiltonianDivergenceError")]))
    (S.b [
      .assign (.sub (.v "stats") (.s "diverging")) (.v "True")])
    (S.b [
      .ifc (.call "isinstance" (E.l [(.v "exception"), (.v "NonReversibleStepError")]))
        (S.b [
          .assign (.sub (.v "stats") (.s "non_reversible_step")) (.v "True")])
        (S.b [
          .ifc (.call "isinstance" (E.l [(.v "exception"), (.v "ConvergenceError")]))
            (S.b [
              .assign (.sub (.v "stats") (.s "convergence_error")) (.v "True")])
            (S.b [])])])])

/-- parameters of `IndependentMomentumTransition.sample` -/
def independentMomentumSampleSig : E :=
  (E.l [(.v "self"), (.v "state"), (.v "rng")])

/-- body of `IndependentMomentumTransition.sample` -/
def independentMomentumSample : S :=
  (S.b [
  -- Mom: `independentSample`: `(S (rng k), k + 1)` — one `sample_momentum` draw replaces the momentum
  .assign (.v "state.mom") (.call "self.system.sample_momentum" (E.l [(.v "state"), (.v "rng")])),
  .ret (.tup (E.l [(.v "state"), E.none]))])

/-- parameters of `CorrelatedMomentumTransition.__init__` -/
def correlatedMomentumInitSig : E :=
  (E.l [(.v "self"), (.v "system"), (.kw "mom_resample_coeff" (.src "1.0"))])

/-- body of `CorrelatedMomentumTransition.__init__` -/
def correlatedMomentumInit : S :=
  (S.b [
  .expr (.meth (.call "super" (E.l [])) "__init__" (E.l [(.v "system")])),
  -- Mom: hypothesis `0 ≤ c ≤ 1` of the C08 theorems (`a² = 1 − c²` has a solution `a`)
  .ifc (.op "not" (E.l [(.op "and" (E.l [(.op ">=" (E.l [(.v "mom_resample_coeff"), (.n 0)])), (.op "<=" (E.l [(.v "mom_resample_coeff"), (.n 1)]))]))]))
    (S.b [
      .raise_ (.call "ValueError" (E.l [(.v "msg")])) E.none])
    (S.b []),
  .assign (.v "self.mom_resample_coeff") (.v "mom_resample_coeff")])

/-- parameters of `CorrelatedMomentumTransition.sample` -/
def correlatedMomentumSampleSig : E :=
  (E.l [(.v "self"), (.v "state"), (.v "rng")])

/-- body of `CorrelatedMomentumTransition.sample` -/
def correlatedMomentumSample : S :=
  (S.b [
  -- Mom: `branch`: `momIsNone ∨ c = 1` ↦ `.fullRefresh`; `correlatedSample`: `(S (rng k), k + 1)`
  .ifc (.op "or" (E.l [(.op "is" (E.l [(.v "state.mom"), E.none])), (.op "==" (E.l [(.v "self.mom_resample_coeff"), (.n 1)]))]))
    (S.b [
      .assign (.v "state.mom") (.call "self.system.sample_momentum" (E.l [(.v "state"), (.v "rng")]))])
    (S.b [
      -- Mom: `branch`: `c ≠ 0` ↦ `.partialRefresh`, else `.unchanged` (`(p, k)`: no draw is made)
      .ifc (.op "!=" (E.l [(.v "self.mom_resample_coeff"), (.n 0)]))
        (S.b [
          .assign (.v "mom_ind") (.call "self.system.sample_momentum" (E.l [(.v "state"), (.v "rng")])),
          -- Mom: `a • p` with `a` the value of `(1 - c**2) ** 0.5` (checked datum: `a² = 1 − c²`)
          .aug (.v "state.mom") "*" (.op "**" (E.l [(.op "-" (E.l [(.src "1.0"), (.op "**" (E.l [(.v "self.mom_resample_coeff"), (.n 2)]))])), (.src "0.5")])),
          -- Mom: `… + c • S (rng k)` — the independent draw made BEFORE the old momentum is scaled
          .aug (.v "state.mom") "+" (.op "*" (E.l [(.v "self.mom_resample_coeff"), (.v "mom_ind")]))])
        (S.b [])]),
  .ret (.tup (E.l [(.v "state"), E.none]))])

/-- parameters of `IntegrationTransition._h_trial_state` -/
def hTrialStateSig : E :=
  (E.l [(.v "self"), (.v "state")])

/-- body of `IntegrationTransition._h_trial_state` -/
def hTrialState : S :=
  (S.b [
  -- M: `MOrbit.w` / leaf weight is 0 at a point whose energy cannot be evaluated: ValueError / LinAlgError ↦
  -- NaN ↦ acceptance probability 0 (Metropolis) / `+inf` energy, weight 0 (dynamic); C12
  -- `metropolis_contained`, `final_contained`
  .try_
    (S.b [
      .ret (.call "self.system.h" (E.l [(.v "state")]))])
    (S.b [
      .handler (.tup (E.l [(.v "ValueError"), (.v "LinAlgError")])) ""
        (S.b [
          .ret (.v "np.nan")])])
    (S.b [])
    (S.b [])])

/-- parameters of `MetropolisIntegrationTransition._sample_n_step` -/
def sampleNStepSig : E :=
  (E.l [(.v "self"), (.v "state"), (.v "n_step"), (.v "rng")])

/-- body of `MetropolisIntegrationTransition._sample_n_step` -/
def sampleNStep : S :=
  (S.b [
  -- M: `o.w i` = exp(−h_init): energy of the CURRENT state, evaluated directly (an error here is outside C12)
  .assign (.v "h_init") (.call "self.system.h" (E.l [(.v "state")])),
  -- M: `TSem`: the proposal starts as an alias of the current state; `integrator.step` returns a copy, so
  -- `state_p is state` iff no step succeeded
  .assign (.v "state_p") (.v "state"),
  -- M: `metropolisStats … .2.2` (error) starts false
  .assign (.v "integration_error") (.v "False"),
  -- M: the two flags a Metropolis transition declares start False
  .assign (.v "stats") (.src "{'convergence_error': False, 'non_reversible_step': False, 'step_size': self.integrator.step_size}"),
  -- M: `stepsTaken o fwd n i` / `o.pathOk lo n`: `n_step` steps in direction `state.dir`, left at the first
  -- failing step
  .try_
    (S.b [
      .loop (.v "_s") (.call "range" (E.l [(.v "n_step")]))
        (S.b [
          .assign (.v "state_p") (.call "self.integrator.step" (E.l [(.v "state_p")]))])])
    (S.b [
      -- M: `metropolis`: `else Dist.pure (i, !fwd)`; `metropolisStats`: `if taken < n then (taken, 0, true)` —
      -- `_s` is the number of steps that succeeded
      .handler (.v "IntegratorError") "e"
        (S.b [
          .assign (.v "integration_error") (.v "True"),
          .assign (.sub (.v "stats") (.s "n_step")) (.v "_s"),
          .expr (.call "_process_integrator_error" (E.l [(.v "e"), (.v "stats")]))])])
    (S.b [
      -- M: `metropolisStats`: `(n, …, false)`; `metropolis`: the proposal is `(j, ¬fwd)` — direction reversed,
      -- an involution
      .assign (.sub (.v "stats") (.s "n_step")) (.v "n_step"),
      .aug (.v "state_p.dir") "*" (.n (-1))])
    (S.b []),
  -- M: `ratio (o.w j) (o.w i)` = exp(min(0, h_init − h_final)), 0 for a NaN difference and when no step
  -- succeeded
  .ifc (.op "is not" (E.l [(.v "state_p"), (.v "state")]))
    (S.b [
      .assign (.v "h_final") (.call "self._h_trial_state" (E.l [(.v "state_p")])),
      .assign (.v "h_diff") (.op "-" (E.l [(.v "h_init"), (.v "h_final")])),
      .assign (.v "accept_prob") (.ite (.call "np.isnan" (E.l [(.v "h_diff")])) (.src "0.0") (.call "np.exp" (E.l [(.call "min" (E.l [(.n 0), (.v "h_diff")]))])))])
    (S.b [
      .assign (.v "accept_prob") (.src "0.0")]),
  -- not modelled (diagnostic only)
  .assign (.sub (.v "stats") (.s "metrop_accept_prob")) (.v "accept_prob"),
  -- M: `metropolisStats … .2.1`: the acceptance probability, 0 after an error (C01Stats
  -- `metropolis_accept_is_move_prob`)
  .assign (.sub (.v "stats") (.s "accept_stat")) (.ite (.op "not" (E.l [(.v "integration_error")])) (.v "accept_prob") (.src "0.0")),
  -- M: `metropolis`: `bernoulli (ratio (o.w j) (o.w i))` is drawn only `if o.pathOk lo n`; accepted ↦ the
  -- proposal
  .ifc (.op "and" (E.l [(.op "not" (E.l [(.v "integration_error")])), (.op "<" (E.l [(.call "rng.uniform" (E.l [])), (.v "accept_prob")]))]))
    (S.b [
      .assign (.v "state") (.v "state_p")])
    (S.b []),
  -- M: `metropolis`: accepted ↦ `(j, fwd)` (flipped back), rejected or failed ↦ `(i, !fwd)`
  .aug (.v "state.dir") "*" (.n (-1)),
  .ret (.tup (E.l [(.v "state"), (.v "stats")]))])

/-- parameters of `MetropolisStaticIntegrationTransition.__init__` -/
def staticInitSig : E :=
  (E.l [(.v "self"), (.v "system"), (.v "integrator"), (.v "n_step")])

/-- body of `MetropolisStaticIntegrationTransition.__init__` -/
def staticInit : S :=
  (S.b [
  .expr (.meth (.call "super" (E.l [])) "__init__" (E.l [(.v "system"), (.v "integrator")])),
  -- M: hypothesis `0 < n` of `metropolis_invariant` (and of `sem_sample_n_step_is_metropolis`)
  .ifc (.op "<=" (E.l [(.v "n_step"), (.n 0)]))
    (S.b [
      .raise_ (.call "ValueError" (E.l [(.v "msg")])) E.none])
    (S.b []),
  .assign (.v "self.n_step") (.v "n_step")])

/-- parameters of `MetropolisStaticIntegrationTransition.sample` -/
def staticSampleSig : E :=
  (E.l [(.v "self"), (.v "state"), (.v "rng")])

/-- body of `MetropolisStaticIntegrationTransition.sample` -/
def staticSample : S :=
  (S.b [
  -- M: `metropolis o n s` with `n = self.n_step`
  .ret (.call "self._sample_n_step" (E.l [(.v "state"), (.v "self.n_step"), (.v "rng")]))])

/-- parameters of `MetropolisRandomIntegrationTransition.__init__` -/
def randomInitSig : E :=
  (E.l [(.v "self"), (.v "system"), (.v "integrator"), (.v "n_step_range")])

/-- body of `MetropolisRandomIntegrationTransition.__init__` -/
def randomInit : S :=
  (S.b [
  .expr (.meth (.call "super" (E.l [])) "__init__" (E.l [(.v "system"), (.v "integrator")])),
  .assign (.tup (E.l [(.v "n_step_lower"), (.v "n_step_upper")])) (.v "n_step_range"),
  -- M: hypotheses `0 < lo`, `lo < hi` of `metropolisRandom_invariant`
  .ifc (.op "not" (E.l [(.op "and" (E.l [(.op ">" (E.l [(.v "n_step_lower"), (.n 0)])), (.op "<" (E.l [(.v "n_step_lower"), (.v "n_step_upper")]))]))]))
    (S.b [
      .raise_ (.call "ValueError" (E.l [(.v "msg")])) E.none])
    (S.b []),
  .assign (.v "self.n_step_range") (.v "n_step_range")])

/-- parameters of `MetropolisRandomIntegrationTransition.sample` -/
def randomSampleSig : E :=
  (E.l [(.v "self"), (.v "state"), (.v "rng")])

/-- body of `MetropolisRandomIntegrationTransition.sample` -/
def randomSample : S :=
  (S.b [
  -- M: `metropolisRandom`: `Dist.bind (uniformRange lo hi) …` — `rng.integers(lo, hi)` is uniform on [lo, hi)
  .assign (.v "n_step") (.call "rng.integers" (E.l [(.star (.v "self.n_step_range"))])),
  -- M: `… (fun n => metropolis o n s)` — the same generator makes the accept draw afterwards
  .ret (.call "self._sample_n_step" (E.l [(.v "state"), (.v "n_step"), (.v "rng")]))])

/-- parameters of `euclidean_no_u_turn_criterion` -/
def euclideanNoUTurnSig : E :=
  (E.l [(.v "system"), (.v "state_1"), (.v "state_2"), (.v "_sum_mom")])

/-- body of `euclidean_no_u_turn_criterion` -/
def euclideanNoUTurn : S :=
  (S.b [
  -- M: `DOrbit.term` / `TTree.node … term`: a function of the two edge states of the block, `state_1` the
  -- negative and `state_2` the positive one (not of the order in which the block was built)
  .ret (.op "or" (E.l [(.op "<" (E.l [(.call "np.sum" (E.l [(.op "*" (E.l [(.call "system.dh_dmom" (E.l [(.v "state_1")])), (.op "-" (E.l [(.v "state_2.pos"), (.v "state_1.pos")]))]))])), (.n 0)])), (.op "<" (E.l [(.call "np.sum" (E.l [(.op "*" (E.l [(.call "system.dh_dmom" (E.l [(.v "state_2")])), (.op "-" (E.l [(.v "state_2.pos"), (.v "state_1.pos")]))]))])), (.n 0)]))]))])

/-- parameters of `riemannian_no_u_turn_criterion` -/
def riemannianNoUTurnSig : E :=
  (E.l [(.v "system"), (.v "state_1"), (.v "state_2"), (.v "sum_mom")])

/-- body of `riemannian_no_u_turn_criterion` -/
def riemannianNoUTurn : S :=
  (S.b [
  -- M: the same with the momentum sum of the block
  .ret (.op "or" (E.l [(.op "<" (E.l [(.call "np.sum" (E.l [(.op "*" (E.l [(.call "system.dh_dmom" (E.l [(.v "state_1")])), (.v "sum_mom")]))])), (.n 0)])), (.op "<" (E.l [(.call "np.sum" (E.l [(.op "*" (E.l [(.call "system.dh_dmom" (E.l [(.v "state_2")])), (.v "sum_mom")]))])), (.n 0)]))]))])

/-- parameters of `DynamicIntegrationTransition.__init__` -/
def dynamicInitSig : E :=
  (E.l [(.v "self"), (.v "system"), (.v "integrator"), (.s "*"), (.kw "max_tree_depth" (.n 10)), (.kw "max_delta_h" (.src "1000.0")), (.kw "termination_criterion" (.v "riemannian_no_u_turn_criterion")), (.kw "do_extra_subtree_checks" (.v "True"))])

/-- body of `DynamicIntegrationTransition.__init__` -/
def dynamicInit : S :=
  (S.b [
  .expr (.meth (.call "super" (E.l [])) "__init__" (E.l [(.v "system"), (.v "integrator")])),
  -- M: `D = max_tree_depth ≥ 1`
  .ifc (.op "<=" (E.l [(.v "max_tree_depth"), (.n 0)]))
    (S.b [
      .raise_ (.call "ValueError" (E.l [(.v "msg")])) E.none])
    (S.b []),
  .assign (.v "self.max_tree_depth") (.v "max_tree_depth"),
  .assign (.v "self.max_delta_h") (.v "max_delta_h"),
  .assign (.v "self.termination_criterion") (.v "termination_criterion"),
  .assign (.v "self.do_extra_subtree_checks") (.v "do_extra_subtree_checks"),
  .assign (.sub (.v "self._statistic_types") (.s "av_metrop_accept_prob")) (.tup (E.l [(.v "np.float64"), (.v "np.nan")])),
  .assign (.sub (.v "self._statistic_types") (.s "reject_prob")) (.tup (E.l [(.v "np.float64"), (.v "np.nan")])),
  .assign (.sub (.v "self._statistic_types") (.s "tree_depth")) (.tup (E.l [(.v "np.int64"), (.n (-1))])),
  -- M/C12: the dynamic transitions declare the `diverging` statistic `_process_integrator_error` may set
  .assign (.sub (.v "self._statistic_types") (.s "diverging")) (.tup (E.l [(.v "bool"), (.v "False")]))])

/-- parameters of `DynamicIntegrationTransition._termination_criterion` -/
def terminationCriterionSig : E :=
  (E.l [(.v "self"), (.v "tree"), (.v "neg_subtree"), (.v "pos_subtree")])

/-- body of `DynamicIntegrationTransition._termination_criterion` -/
def terminationCriterion : S :=
  (S.b [
  -- M: `TTree.node … term` / `DOrbit.term a m`: whole block (negative edge, positive edge, Σ mom)
  .ifc (.call "self.termination_criterion" (E.l [(.v "self.system"), (.v "tree.negative"), (.v "tree.positive"), (.v "tree.sum_mom")]))
    (S.b [
      .ret (.v "True")])
    (S.b []),
  -- M: the extra sub-tree checks are part of the same flag, for blocks of ≥ 4 states: [left half + first state
  -- of the right half] and [last state of the left half + right half] — functions of the block (neg / pos
  -- halves), not of the build order
  .ifc (.op "and" (E.l [(.op ">" (E.l [(.v "tree.depth"), (.n 1)])), (.v "self.do_extra_subtree_checks")]))
    (S.b [
      .ret (.op "or" (E.l [(.call "self.termination_criterion" (E.l [(.v "self.system"), (.v "neg_subtree.negative"), (.v "pos_subtree.negative"), (.op "+" (E.l [(.v "neg_subtree.sum_mom"), (.v "pos_subtree.negative.mom")]))])), (.call "self.termination_criterion" (E.l [(.v "self.system"), (.v "neg_subtree.positive"), (.v "pos_subtree.positive"), (.op "+" (E.l [(.v "pos_subtree.sum_mom"), (.v "neg_subtree.positive.mom")]))]))]))])
    (S.b []),
  .ret (.v "False")])

/-- parameters of `DynamicIntegrationTransition._new_leave` -/
def newLeaveSig : E :=
  (E.l [(.v "self"), (.v "state"), (.v "h"), (.v "aux_vars")])

/-- body of `DynamicIntegrationTransition._new_leave` -/
def newLeave : S :=
  (S.b [
  -- M: `TTree.leaf w ok`: `w = _weight_function(h, aux_vars)`; a single state is its own negative and positive
  -- edge
  .ret (.call "_SubTree" (E.l [(.kw "negative" (.v "state")), (.kw "positive" (.v "state")), (.kw "sum_mom" (.call "np.asarray" (E.l [(.v "state.mom")]))), (.kw "weight" (.call "self._weight_function" (E.l [(.v "h"), (.v "aux_vars")]))), (.kw "depth" (.n 0))]))])

/-- parameters of `DynamicIntegrationTransition._merge_subtrees` -/
def mergeSubtreesSig : E :=
  (E.l [(.v "self"), (.v "neg_subtree"), (.v "pos_subtree")])

/-- body of `DynamicIntegrationTransition._merge_subtrees` -/
def mergeSubtrees : S :=
  (S.b [
  .ifc (.op "!=" (E.l [(.v "neg_subtree.depth"), (.v "pos_subtree.depth")]))
    (S.b [
      .raise_ (.call "ValueError" (E.l [(.v "msg")])) E.none])
    (S.b []),
  -- M: `TTree.node l r`: edges from the outer ends, `W = l.W + r.W` (`wsum`), depth + 1 (`treeOf o (m + 1)`)
  .ret (.call "_SubTree" (E.l [(.kw "negative" (.v "neg_subtree.negative")), (.kw "positive" (.v "pos_subtree.positive")), (.kw "weight" (.op "+" (E.l [(.v "neg_subtree.weight"), (.v "pos_subtree.weight")]))), (.kw "sum_mom" (.op "+" (E.l [(.v "neg_subtree.sum_mom"), (.v "pos_subtree.sum_mom")]))), (.kw "depth" (.op "+" (E.l [(.v "neg_subtree.depth"), (.n 1)])))]))])

/-- parameters of `DynamicIntegrationTransition._init_aux_vars` -/
def initAuxVarsSig : E :=
  (E.l [(.v "self"), (.v "state"), (.v "rng")])

/-- body of `DynamicIntegrationTransition._init_aux_vars` -/
def initAuxVars : S :=
  (S.b [
  -- M: weights / acceptance statistics / multinomial divergence are relative to `h_init` of the start state
  .ret (.src "{'h_init': self.system.h(state)}")])

/-- parameters of `DynamicIntegrationTransition._build_tree` -/
def buildTreeSig : E :=
  (E.l [(.v "self"), (.v "depth"), (.v "state"), (.v "stats"), (.v "rng"), (.v "aux_vars")])

/-- body of `DynamicIntegrationTransition._build_tree` -/
def buildTree : S :=
  (S.b [
  -- M: `buildVisit fwd (leaf _ ok) entryOk`
  .ifc (.op "==" (E.l [(.v "depth"), (.n 0)]))
    (S.b [
      -- C12: the step, the energy of the new state and its divergence test are all inside `try … except
      -- IntegratorError`
      .try_
        (S.b [
          -- M: `entryOk` / `node … edgeOk …`: the step joining the new leaf to the tree
          .assign (.v "state") (.call "self.integrator.step" (E.l [(.v "state")])),
          .assign (.v "h") (.call "self._h_trial_state" (E.l [(.v "state")])),
          -- M: leaf weight 0 for an energy that is NaN (or cannot be evaluated: `_h_trial_state`)
          .assign (.v "h") (.ite (.call "np.isnan" (E.l [(.v "h")])) (.v "np.inf") (.v "h")),
          .assign (.v "tree") (.call "self._new_leave" (E.l [(.v "state"), (.v "h"), (.v "aux_vars")])),
          .assign (.v "proposal") (.v "state"),
          .assign (.v "h_diff") (.op "-" (E.l [(.sub (.v "aux_vars") (.s "h_init")), (.v "h")])),
          -- M: `acceptStat`: `ratio (t.weightAt k) (t.weightAt start)` for each visited leaf
          .assign (.v "metrop_accept_prob") (.ite (.call "np.isnan" (E.l [(.v "h_diff")])) (.src "0.0") (.call "np.exp" (E.l [(.call "min" (E.l [(.n 0), (.v "h_diff")]))]))),
          .aug (.sub (.v "stats") (.s "sum_metrop_accept_prob")) "+" (.v "metrop_accept_prob"),
          -- M: `nStep = (visited t start).1.length`: one per leaf whose step succeeded, counted before the
          -- divergence test
          .aug (.sub (.v "stats") (.s "n_step")) "+" (.n 1),
          .assign (.v "terminate") (.v "False"),
          -- M: `leaf _ ok` with `ok = false` ↦ `BuildEnd.err`
          .expr (.call "self._check_divergence" (E.l [(.v "h"), (.v "aux_vars")]))])
        (S.b [
          -- M: `buildVisit`: `.err`, `visited … .2.2.2 = true`; `TTree.valid = false` ⇒ `stepUp`: `.stopped` —
          -- no tree, no proposal
          .handler (.v "IntegratorError") "e"
            (S.b [
              .expr (.call "_process_integrator_error" (E.l [(.v "e"), (.v "stats")])),
              .assign (.tup (E.l [(.v "terminate"), (.v "tree"), (.v "proposal")])) (.tup (E.l [(.v "True"), E.none, E.none]))])])
        (S.b [])
        (S.b []),
      .ret (.tup (E.l [(.v "terminate"), (.v "tree"), (.v "proposal")]))])
    (S.b []),
  -- M: `buildVisit`: the inner half first (`fwd`: the left one), entered by the caller's step
  .assign (.tup (E.l [(.v "terminate"), (.v "inner_tree"), (.v "inner_proposal")])) (.call "self._build_tree" (E.l [(.op "-" (E.l [(.v "depth"), (.n 1)])), (.v "state"), (.v "stats"), (.v "rng"), (.v "aux_vars")])),
  -- M: `buildVisit`: `if ri.2 ≠ .ok then ri`; `valid (node l r e τ) = l.valid && …`: the sub-tree is discarded
  .ifc (.v "terminate")
    (S.b [
      .ret (.tup (E.l [(.v "terminate"), E.none, E.none]))])
    (S.b []),
  -- M: the outer half continues from the far edge of the inner half in the build direction
  .assign (.v "state") (.ite (.op "==" (E.l [(.v "state.dir"), (.n 1)])) (.v "inner_tree.positive") (.v "inner_tree.negative")),
  .assign (.tup (E.l [(.v "terminate"), (.v "outer_tree"), (.v "outer_proposal")])) (.call "self._build_tree" (E.l [(.op "-" (E.l [(.v "depth"), (.n 1)])), (.v "state"), (.v "stats"), (.v "rng"), (.v "aux_vars")])),
  -- M: `buildVisit`: `if ro.2 ≠ .ok then (…, ro.2)`
  .ifc (.v "terminate")
    (S.b [
      .ret (.tup (E.l [(.v "terminate"), E.none, E.none]))])
    (S.b []),
  -- M: `TTree.node l r`: `fwd` ⇒ `l` = inner, `r` = outer; else `l` = outer, `r` = inner
  .assign (.v "neg_subtree") (.ite (.op "==" (E.l [(.v "state.dir"), (.n 1)])) (.v "inner_tree") (.v "outer_tree")),
  .assign (.v "pos_subtree") (.ite (.op "==" (E.l [(.v "state.dir"), (.n 1)])) (.v "outer_tree") (.v "inner_tree")),
  .assign (.v "tree") (.call "self._merge_subtrees" (E.l [(.v "neg_subtree"), (.v "pos_subtree")])),
  -- M: `propose`: `bernoulli (ratio wOuter (l.W + r.W))` — uniform-progressive sampling inside `_build_tree`
  .assign (.v "accept_outer_prob") (.call "self._weight_ratio" (E.l [(.v "outer_tree.weight"), (.v "tree.weight")])),
  -- M: `propose`: `if pickOuter = fwd then … propose fwd r else propose fwd l`
  .assign (.v "proposal") (.ite (.op "<" (E.l [(.call "rng.uniform" (E.l [])), (.v "accept_outer_prob")])) (.v "outer_proposal") (.v "inner_proposal")),
  -- M: `node … τ`: `valid = … && !τ`; `buildVisit`: `if τ then .crit else .ok` — (tree, negative half,
  -- positive half)
  .assign (.v "terminate") (.call "self._termination_criterion" (E.l [(.v "tree"), (.v "neg_subtree"), (.v "pos_subtree")])),
  .ret (.tup (E.l [(.v "terminate"), (.v "tree"), (.v "proposal")]))])

/-- parameters of `DynamicIntegrationTransition.sample` -/
def dynamicSampleSig : E :=
  (E.l [(.v "self"), (.v "state"), (.v "rng")])

/-- body of `DynamicIntegrationTransition.sample` -/
def dynamicSample : S :=
  (S.b [
  -- M: `visited (leaf _ _) _ = ([], true, 0, false)`; all three flags start False
  .assign (.v "stats") (.src "{'n_step': 0, 'sum_metrop_accept_prob': 0.0, 'reject_prob': 1.0, 'diverging': False, 'convergence_error': False, 'non_reversible_step': False, 'step_size': self.integrator.step_size}"),
  -- M: slice level / `h_init`, fixed for the whole transition
  .assign (.v "aux_vars") (.call "self._init_aux_vars" (E.l [(.v "state"), (.v "rng")])),
  .assign (.v "tree") (.call "self._new_leave" (E.l [(.v "state"), (.sub (.v "aux_vars") (.s "h_init")), (.v "aux_vars")])),
  -- M: `climb (leaf _ _) _ = pure (.top 0)`
  .assign (.v "next_state") (.v "state"),
  -- M: `climb`: one `stepUp` per level, at most `D = max_tree_depth` levels
  .loop (.v "depth") (.call "range" (E.l [(.v "self.max_tree_depth")]))
    (S.b [
      -- M: `dynamic`: `uniformRange 0 (2 ^ D)` — `D` fair bits (`rng.uniform() < 0.5`)
      .assign (.v "direction") (.op "-" (E.l [(.op "*" (E.l [(.n 2), (.op "<" (E.l [(.call "rng.uniform" (E.l [])), (.src "0.5")]))])), (.n 1)])),
      -- M: `stepUp cur sib curIsLeft`: direction +1 ⇒ the sibling is on the right, grown from the positive
      -- edge
      .assign (.v "state") (.ite (.op "==" (E.l [(.v "direction"), (.n 1)])) (.v "tree.positive") (.v "tree.negative")),
      .assign (.v "state.dir") (.v "direction"),
      -- M: the sibling has the depth of the current tree (`treeOf o m`)
      .assign (.tup (E.l [(.v "terminate"), (.v "new_tree"), (.v "new_proposal")])) (.call "self._build_tree" (E.l [(.v "depth"), (.v "state"), (.v "stats"), (.v "rng"), (.v "aux_vars")])),
      -- M: `stepUp`: `else if !(edgeOk && sib.valid) then pure (.stopped here)`
      .ifc (.v "terminate")
        (S.b [
          .brk])
        (S.b []),
      -- M: `stepUp`: `bernoulli (ratio sib.W cur.W)` — biased progressive: NEW weight over OLD weight
      .assign (.v "accept_proposal_prob") (.call "self._weight_ratio" (E.l [(.v "new_tree.weight"), (.v "tree.weight")])),
      -- M: `stepUp`: `if acc then … propose curIsLeft sib else pure (.top here)`
      .ifc (.op "<" (E.l [(.call "rng.uniform" (E.l [])), (.v "accept_proposal_prob")]))
        (S.b [
          .assign (.v "next_state") (.v "new_proposal")])
        (S.b []),
      -- not modelled (diagnostic only)
      .aug (.sub (.v "stats") (.s "reject_prob")) "*" (.op "-" (E.l [(.src "1.0"), (.v "accept_proposal_prob")])),
      -- M: the parent `node cur sib` (direction +1) / `node sib cur`
      .assign (.v "neg_subtree") (.ite (.op "==" (E.l [(.v "direction"), (.n 1)])) (.v "tree") (.v "new_tree")),
      .assign (.v "pos_subtree") (.ite (.op "==" (E.l [(.v "direction"), (.n 1)])) (.v "new_tree") (.v "tree")),
      .assign (.v "tree") (.call "self._merge_subtrees" (E.l [(.v "neg_subtree"), (.v "pos_subtree")])),
      -- M: `stepUp` at the next level: `if cur.termFlag then pure (.stopped here)` — (tree, negative half,
      -- positive half)
      .ifc (.call "self._termination_criterion" (E.l [(.v "tree"), (.v "neg_subtree"), (.v "pos_subtree")]))
        (S.b [
          .brk])
        (S.b [])]),
  .assign (.v "sum_accept_prob") (.call "stats.pop" (E.l [(.s "sum_metrop_accept_prob")])),
  -- M: `acceptStat`: mean over the visited leaves, 0 when none was visited
  .ifc (.op ">" (E.l [(.sub (.v "stats") (.s "n_step")), (.n 0)]))
    (S.b [
      .assign (.sub (.v "stats") (.s "av_metrop_accept_prob")) (.op "/" (E.l [(.v "sum_accept_prob"), (.sub (.v "stats") (.s "n_step"))]))])
    (S.b [
      .assign (.sub (.v "stats") (.s "av_metrop_accept_prob")) (.src "0.0")]),
  -- M: `acceptStat`: `if v.2.2.2 then 0`
  .ifc (.call "any" (E.l [(.src "(stats[key] for key in ['diverging', 'convergence_error', 'non_reversible_step'])")]))
    (S.b [
      .assign (.sub (.v "stats") (.s "accept_stat")) (.src "0.0")])
    (S.b [
      .assign (.sub (.v "stats") (.s "accept_stat")) (.sub (.v "stats") (.s "av_metrop_accept_prob"))]),
  -- M: `(visited t start).2.2.1 − 1` (last loop index)
  .assign (.sub (.v "stats") (.s "tree_depth")) (.v "depth"),
  .ret (.tup (E.l [(.v "next_state"), (.v "stats")]))])

/-- parameters of `MultinomialDynamicIntegrationTransition._weight_function` -/
def multinomialWeightFunctionSig : E :=
  (E.l [(.v "self"), (.v "h"), (.v "aux_vars")])

/-- body of `MultinomialDynamicIntegrationTransition._weight_function` -/
def multinomialWeightFunction : S :=
  (S.b [
  -- M: `w = exp(−h)` (as a `LogRepFloat`)
  .ret (.call "LogRepFloat" (E.l [(.kw "log_val" (.op "neg" (E.l [(.v "h")])))]))])

/-- parameters of `MultinomialDynamicIntegrationTransition._weight_ratio` -/
def multinomialWeightRatioSig : E :=
  (E.l [(.v "self"), (.v "numerator"), (.v "denominator")])

/-- body of `MultinomialDynamicIntegrationTransition._weight_ratio` -/
def multinomialWeightRatio : S :=
  (S.b [
  -- M: `ratio num den = min (num / den) 1`
  .ret (.call "min" (E.l [(.op "/" (E.l [(.v "numerator"), (.v "denominator")])), (.n 1)]))])

/-- parameters of `MultinomialDynamicIntegrationTransition._check_divergence` -/
def multinomialCheckDivergenceSig : E :=
  (E.l [(.v "self"), (.v "h"), (.v "aux_vars")])

/-- body of `MultinomialDynamicIntegrationTransition._check_divergence` -/
def multinomialCheckDivergence : S :=
  (S.b [
  -- M: `leaf _ ok`, `ok` = ¬(h − h_init > Δ): depends on the START state
  -- (`dynamic_multinomial_divergence_counterexample`; hypothesis `PosOk`)
  .ifc (.op ">" (E.l [(.op "-" (E.l [(.v "h"), (.sub (.v "aux_vars") (.s "h_init"))])), (.v "self.max_delta_h")]))
    (S.b [
      .raise_ (.call "HamiltonianDivergenceError" (E.l [(.v "msg")])) E.none])
    (S.b [])])

/-- parameters of `SliceDynamicIntegrationTransition._init_aux_vars` -/
def sliceInitAuxVarsSig : E :=
  (E.l [(.v "self"), (.v "state"), (.v "rng")])

/-- body of `SliceDynamicIntegrationTransition._init_aux_vars` -/
def sliceInitAuxVars : S :=
  (S.b [
  .assign (.v "aux_vars") (.meth (.call "super" (E.l [])) "_init_aux_vars" (E.l [(.v "state"), (.v "rng")])),
  -- M: slice level `log u = log(uniform) − h_init` (`slice_mixture_invariant`: mixture over the levels)
  .assign (.sub (.v "aux_vars") (.s "log_u")) (.op "-" (E.l [(.call "np.log" (E.l [(.call "rng.uniform" (E.l []))])), (.sub (.v "aux_vars") (.s "h_init"))])),
  .ret (.v "aux_vars")])

/-- parameters of `SliceDynamicIntegrationTransition._weight_function` -/
def sliceWeightFunctionSig : E :=
  (E.l [(.v "self"), (.v "h"), (.v "aux_vars")])

/-- body of `SliceDynamicIntegrationTransition._weight_function` -/
def sliceWeightFunction : S :=
  (S.b [
  -- M: `w ∈ {0, 1}`: indicator of `u ≤ exp(−h)`
  .ret (.op "*" (E.l [(.op "<=" (E.l [(.sub (.v "aux_vars") (.s "log_u")), (.op "neg" (E.l [(.v "h")]))])), (.n 1)]))])

/-- parameters of `SliceDynamicIntegrationTransition._weight_ratio` -/
def sliceWeightRatioSig : E :=
  (E.l [(.v "self"), (.v "numerator"), (.v "denominator")])

/-- body of `SliceDynamicIntegrationTransition._weight_ratio` -/
def sliceWeightRatio : S :=
  (S.b [
  -- M: `ratio` (with `x / 0 = 0`): a zero denominator occurs only with a zero numerator inside `_build_tree`
  .ret (.ite (.op ">" (E.l [(.v "denominator"), (.n 0)])) (.call "min" (E.l [(.op "/" (E.l [(.v "numerator"), (.v "denominator")])), (.n 1)])) (.call "min" (E.l [(.v "numerator"), (.n 1)])))])

/-- parameters of `SliceDynamicIntegrationTransition._check_divergence` -/
def sliceCheckDivergenceSig : E :=
  (E.l [(.v "self"), (.v "h"), (.v "aux_vars")])

/-- body of `SliceDynamicIntegrationTransition._check_divergence` -/
def sliceCheckDivergence : S :=
  (S.b [
  -- M: `leaf _ ok`, `ok` = ¬(h + log u > Δ): a function of (point, slice level) only — the hypothesis of
  -- `slice_mixture_invariant`; `PosOk`: u ≤ exp(−h) ⇒ h + log u ≤ 0 ≤ Δ
  .ifc (.op ">" (E.l [(.op "+" (E.l [(.v "h"), (.sub (.v "aux_vars") (.s "log_u"))])), (.v "self.max_delta_h")]))
    (S.b [
      .raise_ (.call "HamiltonianDivergenceError" (E.l [(.v "msg")])) E.none])
    (S.b [])])

/-- parameters of `Integrator.step` -/
def integratorStepSig : E :=
  (E.l [(.v "self"), (.v "state")])

/-- body of `Integrator.step` -/
def integratorStep : S :=
  (S.b [
  .ifc (.op "is" (E.l [(.v "self.step_size"), E.none]))
    (S.b [
      .raise_ (.call "AdaptationError" (E.l [(.v "msg")])) E.none])
    (S.b []),
  -- M: a successful step returns a NEW object (`state_p is not state`)
  .assign (.v "state") (.call "state.copy" (E.l [])),
  -- M: `MOrbitS.stepOk = false`: ValueError / LinAlgError inside `_step` become IntegratorError, which the
  -- transitions catch
  .try_
    (S.b [
      .expr (.call "self._step" (E.l [(.v "state"), (.op "*" (E.l [(.v "state.dir"), (.v "self.step_size")]))]))])
    (S.b [
      .handler (.tup (E.l [(.v "ValueError"), (.v "LinAlgError")])) "e"
        (S.b [
          .raise_ (.call "IntegratorError" (E.l [(.v "msg")])) (.v "e")])])
    (S.b [])
    (S.b []),
  .ret (.v "state")])

/-- classes of transitions.py: (class, bases, functions defined in the class body, in source order) -/
def classes : List (String × List String × List String) := [
  ("Transition", ["ABC"], ["state_variables", "statistic_types", "sample"]),
  ("MomentumTransition", ["Transition"], ["state_variables", "__init__", "sample"]),
  ("IndependentMomentumTransition", ["MomentumTransition"], ["sample"]),
  ("CorrelatedMomentumTransition", ["MomentumTransition"], ["__init__", "sample"]),
  ("IntegrationTransition", ["Transition"], ["state_variables", "statistic_types", "__init__", "_h_trial_state", "sample"]),
  ("MetropolisIntegrationTransition", ["IntegrationTransition"], ["__init__", "_sample_n_step"]),
  ("MetropolisStaticIntegrationTransition", ["MetropolisIntegrationTransition"], ["__init__", "sample"]),
  ("MetropolisRandomIntegrationTransition", ["MetropolisIntegrationTransition"], ["__init__", "sample"]),
  ("_SubTree", ["NamedTuple"], []),
  ("DynamicIntegrationTransition", ["IntegrationTransition"], ["__init__", "_termination_criterion", "_new_leave", "_merge_subtrees", "_init_aux_vars", "_weight_function", "_weight_ratio", "_check_divergence", "_build_tree", "sample"]),
  ("MultinomialDynamicIntegrationTransition", ["DynamicIntegrationTransition"], ["_weight_function", "_weight_ratio", "_check_divergence"]),
  ("SliceDynamicIntegrationTransition", ["DynamicIntegrationTransition"], ["_init_aux_vars", "_weight_function", "_weight_ratio", "_check_divergence"])]

/-- statements the extractor dropped: (function, allow-list entry, "") -/
def dropped : List (String × String × String) := [
  ("_process_integrator_error", "logging", ""),
  ("CorrelatedMomentumTransition.__init__", "message text", ""),
  ("MetropolisStaticIntegrationTransition.__init__", "message text", ""),
  ("MetropolisRandomIntegrationTransition.__init__", "message text", ""),
  ("DynamicIntegrationTransition.__init__", "message text", ""),
  ("DynamicIntegrationTransition._merge_subtrees", "message text", ""),
  ("MultinomialDynamicIntegrationTransition._check_divergence", "message text", ""),
  ("SliceDynamicIntegrationTransition._check_divergence", "message text", ""),
  ("Integrator.step", "message text", ""),
  ("Integrator.step", "message text", "")]


end TExpected

/-! ## A reading of the body of `_sample_n_step` on an integrator orbit

`TSem.metroPlan` recognises the statements of the body and maps each to the abstract action it stands
for (anything unrecognised: `none`); `TSem.runMetro` executes the actions IN THE ORDER OF THE SOURCE on the
local variables of the function.  `Props/C01S.lean` (`sem_sample_n_step_is_metropolis`) proves that for
the body generated from the current source the result is `Transitions.metropolis` paired with
`Transitions.metropolisStats`. -/

namespace TSem
open MiciVerif.Transitions

/-- statements of the `except IntegratorError as e:` block -/
inductive ErrAct where
  /-- `integration_error = True` -/
  | setError
  /-- `stats["n_step"] = _s` -/
  | recordLoopIndex
  /-- `_process_integrator_error(e, stats)` -/
  | processError
  deriving DecidableEq, Repr

/-- statements of the `else:` block of the `try` -/
inductive OkAct where
  /-- `stats["n_step"] = n_step` -/
  | recordNStep
  /-- `state_p.dir *= -1` -/
  | flipProposal
  deriving DecidableEq, Repr

/-- abstract actions of the body of `_sample_n_step` -/
inductive MetroAct where
  /-- `h_init = self.system.h(state)` -/
  | energyInit
  /-- `state_p = state` (an alias, not a copy) -/
  | aliasProposal
  /-- `integration_error = False` -/
  | clearError
  /-- `stats = {"convergence_error": False, "non_reversible_step": False, "step_size": …}` -/
  | initStats
  /-- `try: for _s in range(n_step): state_p = self.integrator.step(state_p)`
  `except IntegratorError as e: <onError>  else: <onSuccess>` -/
  | integrate (onError : List ErrAct) (onSuccess : List OkAct)
  /-- `if state_p is not state: h_final = self._h_trial_state(state_p); h_diff = h_init - h_final;
  accept_prob = 0.0 if np.isnan(h_diff) else np.exp(min(0, h_diff))  else: accept_prob = 0.0` -/
  | acceptProb
  /-- `stats["metrop_accept_prob"] = accept_prob` -/
  | recordMetropAcceptProb
  /-- `stats["accept_stat"] = accept_prob if not integration_error else 0.0` (`guarded`), or
  `stats["accept_stat"] = accept_prob` -/
  | recordAcceptStat (guarded : Bool)
  /-- `if not integration_error and rng.uniform() < accept_prob: state = state_p` (`guarded`), or
  `if rng.uniform() < accept_prob: state = state_p` -/
  | acceptTest (guarded : Bool)
  /-- `state.dir *= -1` -/
  | flipDirection
  /-- `return state, stats` -/
  | returnStateStats
  deriving DecidableEq, Repr

def errAct? (s : S) : Option ErrAct :=
  if s = .assign (.v "integration_error") (.v "True") then some .setError
  else if s = .assign (.sub (.v "stats") (.s "n_step")) (.v "_s") then some .recordLoopIndex
  else if s = .expr (.call "_process_integrator_error" (E.l [.v "e", .v "stats"])) then some .processError
  else Option.none

def errPlan : List S → Option (List ErrAct)
  | [] => some []
  | s :: l => (errAct? s).bind fun a => (errPlan l).map fun as => a :: as

def okAct? (s : S) : Option OkAct :=
  if s = .assign (.sub (.v "stats") (.s "n_step")) (.v "n_step") then some .recordNStep
  else if s = .aug (.v "state_p.dir") "*" (.n (-1)) then some .flipProposal
  else Option.none

def okPlan : List S → Option (List OkAct)
  | [] => some []
  | s :: l => (okAct? s).bind fun a => (okPlan l).map fun as => a :: as

def notError : E := .op "not" (E.l [.v "integration_error"])
def drawBelowAcceptProb : E := .op "<" (E.l [.call "rng.uniform" (E.l []), .v "accept_prob"])

def metroAct? (s : S) : Option MetroAct :=
  if s = .assign (.v "h_init") (.call "self.system.h" (E.l [.v "state"])) then some .energyInit
  else if s = .assign (.v "state_p") (.v "state") then some .aliasProposal
  else if s = .assign (.v "integration_error") (.v "False") then some .clearError
  else if s = .assign (.v "stats")
      (.src "{'convergence_error': False, 'non_reversible_step': False, 'step_size': self.integrator.step_size}")
    then some .initStats
  else if s = .ifc (.op "is not" (E.l [.v "state_p", .v "state"]))
      (S.b [.assign (.v "h_final") (.call "self._h_trial_state" (E.l [.v "state_p"])),
            .assign (.v "h_diff") (.op "-" (E.l [.v "h_init", .v "h_final"])),
            .assign (.v "accept_prob") (.ite (.call "np.isnan" (E.l [.v "h_diff"])) (.src "0.0")
              (.call "np.exp" (E.l [.call "min" (E.l [.n 0, .v "h_diff"])])))])
      (S.b [.assign (.v "accept_prob") (.src "0.0")])
    then some .acceptProb
  else if s = .assign (.sub (.v "stats") (.s "metrop_accept_prob")) (.v "accept_prob") then some .recordMetropAcceptProb
  else if s = .assign (.sub (.v "stats") (.s "accept_stat")) (.ite notError (.v "accept_prob") (.src "0.0"))
    then some (.recordAcceptStat true)
  else if s = .assign (.sub (.v "stats") (.s "accept_stat")) (.v "accept_prob") then some (.recordAcceptStat false)
  else if s = .ifc (.op "and" (E.l [notError, drawBelowAcceptProb])) (S.b [.assign (.v "state") (.v "state_p")]) (S.b [])
    then some (.acceptTest true)
  else if s = .ifc drawBelowAcceptProb (S.b [.assign (.v "state") (.v "state_p")]) (S.b [])
    then some (.acceptTest false)
  else if s = .aug (.v "state.dir") "*" (.n (-1)) then some .flipDirection
  else if s = .ret (.tup (E.l [.v "state", .v "stats"])) then some .returnStateStats
  else match s with
    | .try_ body (.seq (.handler x nm hb) .skip) els fin =>
      if body = S.b [.loop (.v "_s") (.call "range" (E.l [.v "n_step"]))
            (S.b [.assign (.v "state_p") (.call "self.integrator.step" (E.l [.v "state_p"]))])]
          ∧ x = .v "IntegratorError" ∧ nm = "e" ∧ fin = S.b [] then
        (errPlan hb.stmts).bind fun ea => (okPlan els.stmts).map fun oa => .integrate ea oa
      else Option.none
    | _ => Option.none

/-- the actions of the body, in source order; `none` if a statement is not recognised -/
def metroPlan : List S → Option (List MetroAct)
  | [] => some []
  | s :: l => (metroAct? s).bind fun a => (metroPlan l).map fun as => a :: as

variable {K : Type} [Field K] [LinearOrder K]

/-- local variables of `_sample_n_step`; a chain state is (orbit index, `dir = +1`) -/
structure MVars (K : Type) where
  /-- `state` -/
  state : Int × Bool
  /-- `state_p` -/
  prop : Int × Bool
  /-- `state_p is state` -/
  same : Bool
  /-- `h_init` has been evaluated -/
  hInit : Bool
  /-- `integration_error` -/
  err : Option Bool
  /-- `_s` -/
  loopIdx : Nat
  /-- the argument `n_step` -/
  nArg : Nat
  /-- `stats` exists / one of its error flags has been set by `_process_integrator_error` -/
  flagged : Option Bool
  /-- `stats["n_step"]` -/
  nStep : Option Nat
  /-- `accept_prob` -/
  acceptProb : Option K
  /-- `stats["accept_stat"]` -/
  acceptStat : Option K

/-- `for _s in range(r): state_p = self.integrator.step(state_p)` from loop index `t` at orbit point `p`
in direction `fwd`: (orbit point reached, loop index at the failing step or number of completed passes,
whether the loop completed).  `integrator.step` raises exactly on a step with `stepOk = false`. -/
def stepLoop (o : MOrbitS K) (fwd : Bool) : Nat → Nat → Int → Int × Nat × Bool
  | 0, t, p => (p, t, true)
  | r + 1, t, p =>
    if o.stepOk (if fwd then p else p - 1) then stepLoop o fwd r (t + 1) (if fwd then p + 1 else p - 1)
    else (p, t, false)

def runErr : List ErrAct → MVars K → Option (MVars K)
  | [], v => some v
  | .setError :: l, v => runErr l { v with err := some true }
  | .recordLoopIndex :: l, v => runErr l { v with nStep := some v.loopIdx }
  | .processError :: l, v =>
    match v.flagged with
    | some _ => runErr l { v with flagged := some true }
    | Option.none => Option.none

/-- `x.dir *= -1` on the object `x`: an alias sees the change -/
def runOk : List OkAct → MVars K → Option (MVars K)
  | [], v => some v
  | .recordNStep :: l, v => runOk l { v with nStep := some v.nArg }
  | .flipProposal :: l, v =>
    runOk l { v with prop := (v.prop.1, !v.prop.2),
                     state := if v.same then (v.state.1, !v.state.2) else v.state }

/-- outcome: the returned state with `(n_step, accept_stat, an error flag is set)` -/
abbrev MOut (K : Type) := (Int × Bool) × (Nat × K × Bool)

/-- Execute the actions in order.  The acceptance draw is made only if Python evaluates
`rng.uniform() < accept_prob` (`and` short-circuits). -/
def runMetro (o : MOrbitS K) : List MetroAct → MVars K → Option (Dist K (MOut K))
  | [], _ => Option.none
  | .energyInit :: l, v => runMetro o l { v with hInit := true }
  | .aliasProposal :: l, v => runMetro o l { v with prop := v.state, same := true }
  | .clearError :: l, v => runMetro o l { v with err := some false }
  | .initStats :: l, v => runMetro o l { v with flagged := some false, nStep := Option.none, acceptStat := Option.none }
  | .integrate onErr onOk :: l, v =>
    let r := stepLoop o v.prop.2 v.nArg 0 v.prop.1
    let v1 : MVars K := { v with prop := (r.1, v.prop.2), same := v.same && (r.1 == v.prop.1), loopIdx := r.2.1 }
    (if r.2.2 then runOk onOk v1 else runErr onErr v1).bind (runMetro o l)
  | .acceptProb :: l, v =>
    if v.hInit then
      runMetro o l { v with acceptProb := some (if v.same then 0 else ratio (o.w v.prop.1) (o.w v.state.1)) }
    else Option.none
  | .recordMetropAcceptProb :: l, v =>
    match v.flagged, v.acceptProb with
    | some _, some _ => runMetro o l v
    | _, _ => Option.none
  | .recordAcceptStat g :: l, v =>
    match v.flagged, v.err, v.acceptProb with
    | some _, some e, some p => runMetro o l { v with acceptStat := some (if g && e then 0 else p) }
    | _, _, _ => Option.none
  | .acceptTest g :: l, v =>
    match v.err, v.acceptProb with
    | some e, some p =>
      if g && e then runMetro o l v
      else
        match runMetro o l { v with state := v.prop, same := true }, runMetro o l v with
        | some dT, some dF => some (Dist.bind (Dist.bernoulli p) fun acc => if acc then dT else dF)
        | _, _ => Option.none
    | _, _ => Option.none
  | .flipDirection :: l, v =>
    runMetro o l { v with state := (v.state.1, !v.state.2),
                          prop := if v.same then (v.prop.1, !v.prop.2) else v.prop }
  | .returnStateStats :: _, v =>
    match v.nStep, v.acceptStat, v.flagged with
    | some n, some a, some fl => some (Dist.pure (v.state, (n, a, fl)))
    | _, _, _ => Option.none

/-- `_sample_n_step(state, n_step, rng)` read from its statement list, on the orbit `o`, from orbit point
`s.1` with `state.dir = +1` iff `s.2`: the distribution of the returned state together with the
statistics. -/
def metroPass (body : List S) (o : MOrbitS K) (n : Nat) (s : Int × Bool) : Option (Dist K (MOut K)) :=
  (metroPlan body).bind fun acts =>
    runMetro o acts ⟨s, s, false, false, Option.none, 0, n, Option.none, Option.none, Option.none, Option.none⟩

/-! ### the two `sample` methods of the Metropolis transitions -/

/-- statements of `MetropolisStaticIntegrationTransition.sample` / `MetropolisRandomIntegrationTransition.sample` -/
inductive LenAct where
  /-- `n_step = rng.integers(*self.n_step_range)` -/
  | drawLength
  /-- `return self._sample_n_step(state, n_step, rng)` -/
  | runDrawn
  /-- `return self._sample_n_step(state, self.n_step, rng)` -/
  | runFixed
  deriving DecidableEq, Repr

def lenAct? (s : S) : Option LenAct :=
  if s = .assign (.v "n_step") (.call "rng.integers" (E.l [.star (.v "self.n_step_range")])) then some .drawLength
  else if s = .ret (.call "self._sample_n_step" (E.l [.v "state", .v "n_step", .v "rng"])) then some .runDrawn
  else if s = .ret (.call "self._sample_n_step" (E.l [.v "state", .v "self.n_step", .v "rng"])) then some .runFixed
  else Option.none

def lenPlan : List S → Option (List LenAct)
  | [] => some []
  | s :: l => (lenAct? s).bind fun a => (lenPlan l).map fun as => a :: as

/-- A `sample` method read from its statement list: `inner n` is what `_sample_n_step(state, n, rng)` does
with the same generator, `fixed` is `self.n_step`, `(lo, hi)` is `self.n_step_range`;
`rng.integers(lo, hi)` is uniform on `[lo, hi)` (NumPy's convention). -/
def samplePass {β : Type} (body : List S) (inner : Nat → Dist K β) (fixed lo hi : Nat) : Option (Dist K β) :=
  match lenPlan body with
  | some [.runFixed] => some (inner fixed)
  | some [.drawLength, .runDrawn] => some (Dist.bind (Dist.uniformRange lo hi) inner)
  | _ => Option.none

end TSem

/-! ## A reading of `DynamicIntegrationTransition._build_tree` on a trajectory tree

`BSem.buildPlan` recognises the statements of `_build_tree` (the `depth == 0` block with its `try` and
handler, and the recursive part); `BSem.buildRead` executes them in source order on the abstraction
`Transitions.TTree`: a `depth == 0` call is a leaf `(w, ok)` entered by a step with success flag `entryOk`,
a deeper call a node `(l, r, e, τ)` whose inner half is the one next to the caller.  Conventions (visible in
the definitions): `integrator.step` raises an `IntegratorError` iff the entering step fails;
`_h_trial_state`, the NaN ↦ +inf replacement and `_weight_function` give the weight `w` of the leaf (0 for
an energy that is NaN or cannot be evaluated); `_check_divergence` raises iff `ok = false`; the first
raising statement of the `try` body transfers control to the handler; `_termination_criterion(tree, neg,
pos)` of the merged tree is the flag `τ`; `state.dir == 1` iff the tree is built forwards.
`Props/C01S.lean` proves that for the body generated from the current source a call terminates iff
`!(entryOk && t.valid)` and otherwise returns a tree of weight `t.W` with a proposal distributed as
`TTree.propose fwd t`; the reading `DSem` of the loop of `sample` below calls this reading. -/

namespace BSem
open MiciVerif.Transitions MiciVerif.Transitions.TTree

/-- statements of the `try` body of the `depth == 0` block -/
inductive LeafAct where
  /-- `state = self.integrator.step(state)` -/
  | step
  /-- `h = self._h_trial_state(state)` -/
  | energy
  /-- `h = np.inf if np.isnan(h) else h` -/
  | nanToInf
  /-- `tree = self._new_leave(state, h, aux_vars)` -/
  | newLeaf
  /-- `proposal = state` -/
  | proposeSelf
  /-- `h_diff = aux_vars["h_init"] - h` -/
  | hDiff
  /-- `metrop_accept_prob = 0.0 if np.isnan(h_diff) else np.exp(min(0, h_diff))` -/
  | acceptProb
  /-- `stats["sum_metrop_accept_prob"] += metrop_accept_prob` -/
  | sumAccept
  /-- `stats["n_step"] += 1` -/
  | countStep
  /-- `terminate = False` -/
  | clearTerminate
  /-- `self._check_divergence(h, aux_vars)` -/
  | checkDivergence
  deriving DecidableEq, Repr

/-- statements of the `except IntegratorError as e:` block -/
inductive HandAct where
  /-- `_process_integrator_error(e, stats)` -/
  | processError
  /-- `terminate, tree, proposal = True, None, None` -/
  | terminateNoTree
  deriving DecidableEq, Repr

/-- statements of the recursive part -/
inductive RecAct where
  /-- `terminate, inner_tree, inner_proposal = self._build_tree(depth - 1, state, stats, rng, aux_vars)` -/
  | buildInner
  /-- `if terminate: return terminate, None, None` -/
  | returnIfTerminated
  /-- `state = inner_tree.positive if state.dir == 1 else inner_tree.negative` -/
  | moveToFarEdge
  /-- `terminate, outer_tree, outer_proposal = self._build_tree(depth - 1, state, stats, rng, aux_vars)` -/
  | buildOuter
  /-- `neg_subtree = inner_tree if state.dir == 1 else outer_tree` -/
  | orderNeg
  /-- `pos_subtree = outer_tree if state.dir == 1 else inner_tree` -/
  | orderPos
  /-- `tree = self._merge_subtrees(neg_subtree, pos_subtree)` -/
  | merge
  /-- `accept_outer_prob = self._weight_ratio(outer_tree.weight, tree.weight)` -/
  | outerProb
  /-- `proposal = outer_proposal if rng.uniform() < accept_outer_prob else inner_proposal` -/
  | pickProposal
  /-- `terminate = self._termination_criterion(tree, neg_subtree, pos_subtree)` -/
  | criterion
  /-- `return terminate, tree, proposal` -/
  | returnAll
  deriving DecidableEq, Repr

def acceptFormula : E :=
  .ite (.call "np.isnan" (E.l [.v "h_diff"])) (.src "0.0") (.call "np.exp" (E.l [.call "min" (E.l [.n 0, .v "h_diff"])]))

def leafAct? (s : S) : Option LeafAct :=
  if s = .assign (.v "state") (.call "self.integrator.step" (E.l [.v "state"])) then some .step
  else if s = .assign (.v "h") (.call "self._h_trial_state" (E.l [.v "state"])) then some .energy
  else if s = .assign (.v "h") (.ite (.call "np.isnan" (E.l [.v "h"])) (.v "np.inf") (.v "h")) then some .nanToInf
  else if s = .assign (.v "tree") (.call "self._new_leave" (E.l [.v "state", .v "h", .v "aux_vars"])) then some .newLeaf
  else if s = .assign (.v "proposal") (.v "state") then some .proposeSelf
  else if s = .assign (.v "h_diff") (.op "-" (E.l [.sub (.v "aux_vars") (.s "h_init"), .v "h"])) then some .hDiff
  else if s = .assign (.v "metrop_accept_prob") acceptFormula then some .acceptProb
  else if s = .aug (.sub (.v "stats") (.s "sum_metrop_accept_prob")) "+" (.v "metrop_accept_prob") then some .sumAccept
  else if s = .aug (.sub (.v "stats") (.s "n_step")) "+" (.n 1) then some .countStep
  else if s = .assign (.v "terminate") (.v "False") then some .clearTerminate
  else if s = .expr (.call "self._check_divergence" (E.l [.v "h", .v "aux_vars"])) then some .checkDivergence
  else Option.none

def handAct? (s : S) : Option HandAct :=
  if s = .expr (.call "_process_integrator_error" (E.l [.v "e", .v "stats"])) then some .processError
  else if s = .assign (.tup (E.l [.v "terminate", .v "tree", .v "proposal"])) (.tup (E.l [.v "True", .none, .none]))
    then some .terminateNoTree
  else Option.none

def ifFwd (x y : String) : E := .ite (.op "==" (E.l [.v "state.dir", .n 1])) (.v x) (.v y)

def subCall : E :=
  .call "self._build_tree" (E.l [.op "-" (E.l [.v "depth", .n 1]), .v "state", .v "stats", .v "rng", .v "aux_vars"])

def recAct? (s : S) : Option RecAct :=
  if s = .assign (.tup (E.l [.v "terminate", .v "inner_tree", .v "inner_proposal"])) subCall then some .buildInner
  else if s = .ifc (.v "terminate") (S.b [.ret (.tup (E.l [.v "terminate", .none, .none]))]) (S.b []) then some .returnIfTerminated
  else if s = .assign (.v "state") (ifFwd "inner_tree.positive" "inner_tree.negative") then some .moveToFarEdge
  else if s = .assign (.tup (E.l [.v "terminate", .v "outer_tree", .v "outer_proposal"])) subCall then some .buildOuter
  else if s = .assign (.v "neg_subtree") (ifFwd "inner_tree" "outer_tree") then some .orderNeg
  else if s = .assign (.v "pos_subtree") (ifFwd "outer_tree" "inner_tree") then some .orderPos
  else if s = .assign (.v "tree") (.call "self._merge_subtrees" (E.l [.v "neg_subtree", .v "pos_subtree"])) then some .merge
  else if s = .assign (.v "accept_outer_prob") (.call "self._weight_ratio" (E.l [.v "outer_tree.weight", .v "tree.weight"]))
    then some .outerProb
  else if s = .assign (.v "proposal")
      (.ite (.op "<" (E.l [.call "rng.uniform" (E.l []), .v "accept_outer_prob"])) (.v "outer_proposal") (.v "inner_proposal"))
    then some .pickProposal
  else if s = .assign (.v "terminate") (.call "self._termination_criterion" (E.l [.v "tree", .v "neg_subtree", .v "pos_subtree"]))
    then some .criterion
  else if s = .ret (.tup (E.l [.v "terminate", .v "tree", .v "proposal"])) then some .returnAll
  else Option.none

def planOf {α : Type} (f : S → Option α) : List S → Option (List α)
  | [] => some []
  | s :: l => (f s).bind fun a => (planOf f l).map fun as => a :: as

/-- the plan of the function body: (`try` body of the leaf block, handler, recursive part) -/
structure Plan where
  leaf : List LeafAct
  hand : List HandAct
  recp : List RecAct
  deriving DecidableEq, Repr

/-- Recognise `if depth == 0: try: <leaf> except IntegratorError as e: <hand>; return terminate, tree,
proposal` followed by the recursive part. -/
def buildPlan : List S → Option Plan
  | .ifc c (.seq (.try_ body (.seq (.handler x nm hb) .skip) els fin) (.seq r .skip)) f :: rest =>
    if c = .op "==" (E.l [.v "depth", .n 0]) ∧ x = .v "IntegratorError" ∧ nm = "e" ∧ els = S.b [] ∧ fin = S.b []
        ∧ r = .ret (.tup (E.l [.v "terminate", .v "tree", .v "proposal"])) ∧ f = S.b [] then
      (planOf leafAct? body.stmts).bind fun lp => (planOf handAct? hb.stmts).bind fun hp =>
        (planOf recAct? rest).map fun rp => ⟨lp, hp, rp⟩
    else Option.none
  | _ => Option.none

variable {K : Type} [Field K] [LinearOrder K]

/-- what a call returns: `(terminate, tree, proposal)`, a tree being represented by its weight and a
proposal by the distribution of its offset from the left end of the (sub-)tree -/
structure BRes (K : Type) where
  terminate : Bool
  tree : Option K
  proposal : Option (Dist K Nat)

/-- what the caller can use of a result: nothing if `terminate`, else weight and proposal -/
def BRes.observe (r : BRes K) : Option (K × Dist K Nat) :=
  match r.terminate, r.tree, r.proposal with
  | false, some W, some p => some (W, p)
  | _, _, _ => Option.none

/-- local variables of the `depth == 0` block -/
structure LVars (K : Type) where
  stepped : Bool := false
  hKnown : Bool := false
  hFixed : Bool := false
  tree : Option K := Option.none
  proposal : Option (Dist K Nat) := Option.none
  terminate : Option Bool := Option.none

def runHand : List HandAct → LVars K → LVars K
  | [], v => v
  | .processError :: l, v => runHand l v
  | .terminateNoTree :: l, v => runHand l { v with terminate := some true, tree := Option.none, proposal := Option.none }

/-- the `try` body on a leaf of weight `w`; `none`: a use before assignment (rejected) -/
def runLeaf (w : K) (ok entryOk : Bool) (hand : List HandAct) : List LeafAct → LVars K → Option (LVars K)
  | [], v => some v
  | .step :: l, v => if entryOk then runLeaf w ok entryOk hand l { v with stepped := true } else some (runHand hand v)
  | .energy :: l, v => if v.stepped then runLeaf w ok entryOk hand l { v with hKnown := true } else Option.none
  | .nanToInf :: l, v => if v.hKnown then runLeaf w ok entryOk hand l { v with hFixed := true } else Option.none
  | .newLeaf :: l, v => if v.hFixed then runLeaf w ok entryOk hand l { v with tree := some w } else Option.none
  | .proposeSelf :: l, v => if v.stepped then runLeaf w ok entryOk hand l { v with proposal := some (Dist.pure 0) } else Option.none
  | .hDiff :: l, v => if v.hFixed then runLeaf w ok entryOk hand l v else Option.none
  | .acceptProb :: l, v => if v.hFixed then runLeaf w ok entryOk hand l v else Option.none
  | .sumAccept :: l, v => if v.hFixed then runLeaf w ok entryOk hand l v else Option.none
  | .countStep :: l, v => if v.stepped then runLeaf w ok entryOk hand l v else Option.none
  | .clearTerminate :: l, v => runLeaf w ok entryOk hand l { v with terminate := some false }
  | .checkDivergence :: l, v =>
    if v.hFixed then (if ok then runLeaf w ok entryOk hand l v else some (runHand hand v)) else Option.none

/-- local variables of the recursive part; children are addressed by side (`true`: the left one) -/
structure RVars (K : Type) where
  terminate : Option Bool := Option.none
  inner : Option (K × Dist K Nat) := Option.none
  atFarEdge : Bool := false
  outer : Option (K × Dist K Nat) := Option.none
  /-- `neg_subtree` is the left child -/
  negLeft : Option Bool := Option.none
  /-- `pos_subtree` is the right child -/
  posRight : Option Bool := Option.none
  tree : Option K := Option.none
  outerProb : Option K := Option.none
  proposal : Option (Dist K Nat) := Option.none

/-- the recursive part on a node whose children read as `resL`, `resR` (as functions of the success flag of
the step entering them); built forwards (`fwd`) the inner child is the left one -/
def runRec (lsize : Nat) (e τ fwd entryOk : Bool) (resL resR : Bool → Option (BRes K)) :
    List RecAct → RVars K → Option (BRes K)
  | [], _ => Option.none
  | .buildInner :: l, v =>
    ((if fwd then resL else resR) entryOk).bind fun r =>
      runRec lsize e τ fwd entryOk resL resR l { v with terminate := some r.terminate, inner := r.observe }
  | .returnIfTerminated :: l, v =>
    match v.terminate with
    | some true => some ⟨true, Option.none, Option.none⟩
    | some false => runRec lsize e τ fwd entryOk resL resR l v
    | Option.none => Option.none
  | .moveToFarEdge :: l, v =>
    match v.inner with
    | some _ => runRec lsize e τ fwd entryOk resL resR l { v with atFarEdge := true }
    | Option.none => Option.none
  | .buildOuter :: l, v =>
    if v.atFarEdge then
      ((if fwd then resR else resL) e).bind fun r =>
        runRec lsize e τ fwd entryOk resL resR l { v with terminate := some r.terminate, outer := r.observe }
    else Option.none
  | .orderNeg :: l, v =>
    -- `inner_tree if state.dir == 1 else outer_tree`: forwards the inner child, which is the left one;
    -- backwards the outer child, which is the left one
    match v.inner, v.outer with
    | some _, some _ => runRec lsize e τ fwd entryOk resL resR l { v with negLeft := some (if fwd then fwd else !fwd) }
    | _, _ => Option.none
  | .orderPos :: l, v =>
    match v.inner, v.outer with
    | some _, some _ => runRec lsize e τ fwd entryOk resL resR l { v with posRight := some (if fwd then fwd else !fwd) }
    | _, _ => Option.none
  | .merge :: l, v =>
    match v.negLeft, v.posRight, v.inner, v.outer with
    | some true, some true, some i, some o =>
      -- `_merge_subtrees`: weight of the negative (left) half + weight of the positive (right) half
      runRec lsize e τ fwd entryOk resL resR l
        { v with tree := some ((if fwd then i.1 else o.1) + (if fwd then o.1 else i.1)) }
    | _, _, _, _ => Option.none
  | .outerProb :: l, v =>
    match v.outer, v.tree with
    | some o, some W => runRec lsize e τ fwd entryOk resL resR l { v with outerProb := some (ratio o.1 W) }
    | _, _ => Option.none
  | .pickProposal :: l, v =>
    match v.outerProb, v.inner, v.outer with
    | some p, some i, some o =>
      -- offsets of the right child are shifted by the size of the left one
      let place (left : Bool) (d : Dist K Nat) : Dist K Nat := if left then d else Dist.map (· + lsize) d
      runRec lsize e τ fwd entryOk resL resR l
        { v with proposal := some (Dist.bind (Dist.bernoulli p) fun pickOuter =>
                   if pickOuter then place (!fwd) o.2 else place fwd i.2) }
    | _, _, _ => Option.none
  | .criterion :: l, v =>
    match v.tree with
    | some _ => runRec lsize e τ fwd entryOk resL resR l { v with terminate := some τ }
    | Option.none => Option.none
  | .returnAll :: _, v =>
    match v.terminate with
    | some t => some ⟨t, v.tree, v.proposal⟩
    | Option.none => Option.none

/-- `_build_tree` read from its plan on the tree `t`, built forwards iff `fwd`, entered by a step with
success flag `entryOk` -/
def buildRead (p : Plan) (fwd : Bool) : TTree K → Bool → Option (BRes K)
  | .leaf w ok, entryOk =>
    (runLeaf w ok entryOk p.hand p.leaf {}).bind fun v =>
      match v.terminate with
      | some t => some ⟨t, v.tree, v.proposal⟩
      | Option.none => Option.none
  | .node l r e τ, entryOk =>
    runRec l.size e τ fwd entryOk (buildRead p fwd l) (buildRead p fwd r) p.recp {}

/-- what the caller of `_build_tree`, read from the statement list of its body, can use of the result -/
def buildPass (body : List S) (fwd : Bool) (t : TTree K) (entryOk : Bool) : Option (Option (K × Dist K Nat)) :=
  (buildPlan body).bind fun p => (buildRead p fwd t entryOk).map BRes.observe

end BSem

/-! ## A reading of the loop of `DynamicIntegrationTransition.sample` on a trajectory tree

One pass of `for depth in range(self.max_tree_depth)` is read, statement by statement and in source
order (`DSem.passPlan`, `DSem.runPass`), on the abstraction `Transitions.TTree`: `cur` is the current
trajectory tree with the current sample at offset `c`, `sib` the sub-tree lying in the drawn direction
(`dirPlus`: direction `+1`, i.e. on the positive side), `edgeOk` the success of the step joining them and
`τ` the termination flag of the merged tree.  What the `_build_tree(depth, state, …)` call started from the
edge of the current tree in direction `state.dir` hands back is `obs` — in `runLoop` the reading
`BSem.buildRead` of the body of `_build_tree` itself on `sib`, entered by the step `edgeOk`; the
`_termination_criterion(tree, neg, pos)` of the merged tree is the flag `τ`, a function of the block (the
criterion functions are tied syntactically only).  `Props/C01S.lean` proves that the loop so read from the
current source returns `Transitions.final`. -/

namespace DSem
open MiciVerif.Transitions MiciVerif.Transitions.TTree

/-- the statements of the loop body -/
inductive PassAct where
  /-- `direction = 2 * (rng.uniform() < 0.5) - 1` -/
  | drawDirection
  /-- `state = tree.positive if direction == 1 else tree.negative` -/
  | growFromEdge
  /-- `state.dir = direction` -/
  | setDirection
  /-- `terminate, new_tree, new_proposal = self._build_tree(depth, state, stats, rng, aux_vars)` -/
  | build
  /-- `if terminate: break` -/
  | breakIfTerminated
  /-- `accept_proposal_prob = self._weight_ratio(new_tree.weight, tree.weight)` -/
  | acceptProbNewOverOld
  /-- `if rng.uniform() < accept_proposal_prob: next_state = new_proposal` -/
  | acceptProposal
  /-- `stats["reject_prob"] *= 1.0 - accept_proposal_prob` -/
  | recordRejectProb
  /-- `neg_subtree = tree if direction == 1 else new_tree` -/
  | orderNeg
  /-- `pos_subtree = new_tree if direction == 1 else tree` -/
  | orderPos
  /-- `tree = self._merge_subtrees(neg_subtree, pos_subtree)` -/
  | merge
  /-- `if self._termination_criterion(tree, neg_subtree, pos_subtree): break` -/
  | breakIfCriterion
  deriving DecidableEq, Repr

def ifDir (x y : String) : E := .ite (.op "==" (E.l [.v "direction", .n 1])) (.v x) (.v y)

def passAct? (s : S) : Option PassAct :=
  if s = .assign (.v "direction")
      (.op "-" (E.l [.op "*" (E.l [.n 2, .op "<" (E.l [.call "rng.uniform" (E.l []), .src "0.5"])]), .n 1]))
    then some .drawDirection
  else if s = .assign (.v "state") (ifDir "tree.positive" "tree.negative") then some .growFromEdge
  else if s = .assign (.v "state.dir") (.v "direction") then some .setDirection
  else if s = .assign (.tup (E.l [.v "terminate", .v "new_tree", .v "new_proposal"]))
      (.call "self._build_tree" (E.l [.v "depth", .v "state", .v "stats", .v "rng", .v "aux_vars"]))
    then some .build
  else if s = .ifc (.v "terminate") (S.b [.brk]) (S.b []) then some .breakIfTerminated
  else if s = .assign (.v "accept_proposal_prob")
      (.call "self._weight_ratio" (E.l [.v "new_tree.weight", .v "tree.weight"]))
    then some .acceptProbNewOverOld
  else if s = .ifc (.op "<" (E.l [.call "rng.uniform" (E.l []), .v "accept_proposal_prob"]))
      (S.b [.assign (.v "next_state") (.v "new_proposal")]) (S.b [])
    then some .acceptProposal
  else if s = .aug (.sub (.v "stats") (.s "reject_prob")) "*" (.op "-" (E.l [.src "1.0", .v "accept_proposal_prob"]))
    then some .recordRejectProb
  else if s = .assign (.v "neg_subtree") (ifDir "tree" "new_tree") then some .orderNeg
  else if s = .assign (.v "pos_subtree") (ifDir "new_tree" "tree") then some .orderPos
  else if s = .assign (.v "tree") (.call "self._merge_subtrees" (E.l [.v "neg_subtree", .v "pos_subtree"]))
    then some .merge
  else if s = .ifc (.call "self._termination_criterion" (E.l [.v "tree", .v "neg_subtree", .v "pos_subtree"]))
      (S.b [.brk]) (S.b [])
    then some .breakIfCriterion
  else Option.none

def passPlan : List S → Option (List PassAct)
  | [] => some []
  | s :: l => (passAct? s).bind fun a => (passPlan l).map fun as => a :: as

variable {K : Type} [Field K] [LinearOrder K]

/-- local variables of one pass, as far as the tree abstraction sees them -/
structure PVars (K : Type) where
  /-- `direction == 1` -/
  dir : Option Bool := Option.none
  /-- `state` is the positive edge of `tree` -/
  fromPositive : Option Bool := Option.none
  /-- `state.dir == 1` -/
  stateDir : Option Bool := Option.none
  /-- `_build_tree` has been called on the side `some side` (positive iff `true`), in direction `stateDir` -/
  builtSide : Option Bool := Option.none
  /-- `accept_proposal_prob` -/
  accept : Option K := Option.none
  /-- `next_state` is the new sub-tree's proposal (else: the sample the pass started with) -/
  nextNew : Bool := false
  /-- offset of `next_state` inside the new sub-tree, resp. inside the old tree -/
  nextOff : Nat
  /-- `neg_subtree is tree` (the old tree) -/
  negIsOld : Option Bool := Option.none
  /-- `pos_subtree is new_tree` -/
  posIsNew : Option Bool := Option.none
  /-- `tree` has been replaced by the merged tree, the old tree being its negative (left) half iff `true` -/
  mergedOldLeft : Option Bool := Option.none

/-- offset of `next_state` in the merged tree (`oldLeft`: the old tree is its left half) -/
def PVars.offset (v : PVars K) (cur sib : TTree K) (oldLeft : Bool) : Nat :=
  if oldLeft then (if v.nextNew then v.nextOff + cur.size else v.nextOff)
  else (if v.nextNew then v.nextOff else v.nextOff + sib.size)

/-- what a statement that the tree abstraction cannot interpret (a sub-tree built on the wrong side or in
the wrong direction, a merge of a tree with itself, a use before assignment) yields: the pass is rejected -/
def rejected : Dist K Res := []

/-- Execute the statements of one pass in source order.  `.stopped c`: the loop has been left (`break`) with
`next_state` at offset `c` of the parent; `.top c`: the pass ran to its end. -/
def runPass (cur sib : TTree K) (obs : Option (K × Dist K Nat)) (τ dirPlus : Bool) :
    List PassAct → PVars K → Dist K Res
  | [], v =>
    match v.mergedOldLeft with
    | some ol => Dist.pure (.top (v.offset cur sib ol))
    | Option.none => rejected
  | .drawDirection :: l, v => runPass cur sib obs τ dirPlus l { v with dir := some dirPlus }
  | .growFromEdge :: l, v =>
    match v.dir with
    | some d => runPass cur sib obs τ dirPlus l { v with fromPositive := some d }
    | Option.none => rejected
  | .setDirection :: l, v =>
    match v.dir with
    | some d => runPass cur sib obs τ dirPlus l { v with stateDir := some d }
    | Option.none => rejected
  | .build :: l, v =>
    match v.fromPositive, v.stateDir with
    | some e, some d =>
      -- the sub-tree lying on the positive side is built from the positive edge stepping forwards
      if e = d then runPass cur sib obs τ dirPlus l { v with builtSide := some d } else rejected
    | _, _ => rejected
  | .breakIfTerminated :: l, v =>
    match v.builtSide with
    | some side =>
      if side = dirPlus then
        match obs with
        | Option.none => Dist.pure (.stopped (v.offset cur sib dirPlus))
        | some _ => runPass cur sib obs τ dirPlus l v
      else rejected
    | Option.none => rejected
  | .acceptProbNewOverOld :: l, v =>
    match v.builtSide, obs with
    | some _, some new => runPass cur sib obs τ dirPlus l { v with accept := some (ratio new.1 cur.W) }
    | _, _ => rejected
  | .acceptProposal :: l, v =>
    match v.accept, obs with
    | some p, some new =>
      Dist.bind (Dist.bernoulli p) fun acc =>
        if acc then
          Dist.bind new.2 fun k =>
            runPass cur sib obs τ dirPlus l { v with nextNew := true, nextOff := k }
        else runPass cur sib obs τ dirPlus l v
    | _, _ => rejected
  | .recordRejectProb :: l, v =>
    match v.accept with
    | some _ => runPass cur sib obs τ dirPlus l v
    | Option.none => rejected
  | .orderNeg :: l, v =>
    match v.dir, v.builtSide with
    | some d, some _ => runPass cur sib obs τ dirPlus l { v with negIsOld := some d }
    | _, _ => rejected
  | .orderPos :: l, v =>
    match v.dir, v.builtSide with
    | some d, some _ => runPass cur sib obs τ dirPlus l { v with posIsNew := some d }
    | _, _ => rejected
  | .merge :: l, v =>
    match v.negIsOld, v.posIsNew, v.builtSide with
    | some a, some b, some side =>
      -- one half must be the old and the other the new tree, the new one on the side it was built on
      if a = b ∧ a = side then runPass cur sib obs τ dirPlus l { v with mergedOldLeft := some a } else rejected
    | _, _, _ => rejected
  | .breakIfCriterion :: l, v =>
    match v.mergedOldLeft with
    | some ol => if τ then Dist.pure (.stopped (v.offset cur sib ol)) else runPass cur sib obs τ dirPlus l v
    | Option.none => rejected

/-- The whole loop for the direction draws that make `t` the maximal trajectory tree, from the leaf at
offset `start`: one pass per level, none after the loop has been left. -/
def runLoop (plan : List PassAct) (bp : BSem.Plan) : TTree K → Nat → Dist K Res
  | .leaf _ _, _ => Dist.pure (.top 0)
  | .node l r e τ, start =>
    if start < l.size then
      Dist.bind (runLoop plan bp l start) fun res =>
        match res with
        | .stopped c => Dist.pure (.stopped c)
        | .top c =>
          match BSem.buildRead bp true r e with
          | some b => runPass l r b.observe τ true plan { nextOff := c }
          | Option.none => rejected
    else
      Dist.bind (runLoop plan bp r (start - l.size)) fun res =>
        match res with
        | .stopped c => Dist.pure (.stopped (c + l.size))
        | .top c =>
          match BSem.buildRead bp false l e with
          | some b => runPass r l b.observe τ false plan { nextOff := c }
          | Option.none => rejected

/-- `next_state` returned by the loop of `sample` read from the statement list of its body, the
`_build_tree` calls being read from the statement list `buildBody` of `_build_tree` -/
def loopPass (body buildBody : List S) (t : TTree K) (start : Nat) : Option (Dist K Nat) :=
  (passPlan body).bind fun plan => (BSem.buildPlan buildBody).map fun bp =>
    Dist.map Res.val (runLoop plan bp t start)

end DSem


end MiciVerif.Skel
