/-
The caching machinery of `mici.states` (`src/mici/states.py`) as statement trees, tied to
`Model/Cache.lean`.

* `tools/extractors/state_skeleton.py` translates the *current* source of `_cache_key_func`, the
  two decorators `cache_in_state` / `cache_in_state_with_aux` (with their nested `…_decorator` and
  `wrapper` functions) and the `ChainState` methods `__init__`, `__getattr__`, `__setattr__`,
  `__contains__`, `copy`, `__getstate__`, `__setstate__` into trees of the types `Skel.S` / `Skel.E`
  of `Model/SamplerSkeleton.lean` on every run (`Generated/StateSkeleton.lean`).
* `Skel.StateExpected.*`: the trees `Model/Cache.lean` was written against.  Every node carries a
  comment naming the definition / field / operation of `Model/Cache.lean` (`M:`) it justifies, or
  says that the model abstracts from it.  `Props/C09S.lean` / `C18S.lean` prove
  `generated = expected` and re-derive the individual facts from the generated trees.
* `Skel.StateSem`: a reading of the bodies as operations on the model's heap: each recognised
  statement shape is mapped to the abstract action it stands for (anything else is rejected) and
  the actions are executed IN SOURCE ORDER on `Cache.Heap`.  Readings: the `wrapper` of
  `cache_in_state` (`wrapPass`) and of `cache_in_state_with_aux` (`auxWrapPass`), `__setattr__`
  (`setattrPass`), `__init__` (`initPass`), `copy` (`copyPass`, which runs the `__init__` reading
  for `type(self)(…)`), `__getstate__` + `__setstate__` (`picklePass`).  The Props modules prove
  that the readings of the bodies generated from the current source are `Cache.wrapM` (both
  decorators), `Cache.step` for `assign` / (the `__setattr__` half of) `assignIP` / `fresh` /
  `copy` / `pickle`.  What a reading assumes is visible in its definition: e.g. `name in
  self._variables` holds for `pos`/`mom`/`dir`, `state._call_counts is not None` always holds
  (`__init__` wraps it into a `Counter`), `copy.copy(val)` / the pickle round trip produce new array
  objects (and a new `_dependencies` dict with the same content).

Conventions of the translation of nested `def`, dict displays and comprehensions: see the
extractor's docstring.  Core Lean only.
-/
import MiciVerif.Model.SamplerSkeleton
import MiciVerif.Model.Cache

namespace MiciVerif.Skel

/-! ## queries specific to these trees -/

/-- body of the (first) nested function definition `def name(…)` inside the tree -/
def S.defBody (name : String) (s : S) : Option S :=
  s.all.findSome? fun
    | .with_ (.cons (.call "def" (.cons (.s n) _)) .nil) b => if n = name then some b else Option.none
    | _ => Option.none

/-- parameters and decorators of the nested function definition `def name(…)` -/
def S.defHead (name : String) (s : S) : Option (E × E) :=
  s.all.findSome? fun
    | .with_ (.cons (.call "def" (.cons (.s n) (.cons ps (.cons ds .nil)))) .nil) _ =>
      if n = name then some (ps, ds) else Option.none
    | _ => Option.none

/-- all `return` expressions of the tree, in source order -/
def S.returns (s : S) : List E :=
  s.all.filterMap fun
    | .ret e => some e
    | _ => Option.none

/-- all `if` conditions of the tree, in source order -/
def S.conds (s : S) : List E :=
  s.all.filterMap fun
    | .ifc c _ _ => some c
    | _ => Option.none

/-- the statements (with their nested statements) guarded by the `if` whose condition is `c`:
(then-branch, else-branch) of the first such `if` -/
def S.branches (c : E) (s : S) : Option (S × S) :=
  s.all.findSome? fun
    | .ifc c' t f => if c' = c then some (t, f) else Option.none
    | _ => Option.none

/-- statements of the tree (nested included) that write to `x[…]` (plain or augmented assignment
to a subscript of the dotted name `x`) -/
def S.writesTo (x : String) (s : S) : List S :=
  s.all.filter fun
    | .assign (.sub (.v y) _) _ => y == x
    | .aug (.sub (.v y) _) _ _ => y == x
    | _ => false

/-- statements of the tree (nested included) that call method `m` on a subscript of the dotted
name `x` (`x[…].m(…)`) -/
def S.methCallsOn (x m : String) (s : S) : List S :=
  s.all.filter fun
    | .expr (.meth (.sub (.v y) _) n _) => y == x && n == m
    | _ => false

/-- entry `k` of a dict display `{"k": v, …}` -/
def E.dictEntry (k : String) : E → Option E
  | .call "{dict}" args => args.kwArg k
  | _ => Option.none

/-- keys of a dict display, in order -/
def E.dictKeys : E → List String
  | .call "{dict}" args => args.items.filterMap fun
      | .kw k _ => some k
      | _ => Option.none
  | _ => []

/-! ## The expected trees (clean-tree output of the extractor, annotated) -/

namespace StateExpected

/-- parameters of `_cache_key_func` -/
def cacheKeyFuncSig : E :=
  (E.l [(.v "system"), (.v "method")])

/-- body of `_cache_key_func` -/
def cacheKeyFunc : S :=
  (S.b [
  -- M: `Key.meth`: the method is identified by its NAME (the decorators pass the function for the primary
  -- key, the strings of `auxiliary_outputs` for the aux keys: same name ⇒ same key)
  .ifc (.op "not" (E.l [(.call "isinstance" (E.l [(.v "method"), (.v "str")]))]))
    (S.b [
      .assign (.v "method") (.v "method.__name__")])
    (S.b []),
  -- M: `Key = ⟨sys, meth⟩`: `sys` is `id(system)` (distinct live objects; re-use after GC is the KNOWN finding),
  -- the class name is a function of the object (`Cfg.clsOf`), `meth` the method name
  .ret (.tup (E.l [(.src "f'{type(system).__name__}.{method}'"), (.call "id" (E.l [(.v "system")]))]))])

/-- parameters of `cache_in_state` -/
def cacheInStateSig : E :=
  -- M: `Entry.declared` (`*depends_on`, extracted per method by `cache_deps`)
  (E.l [(.star (.v "depends_on"))])

/-- body of `cache_in_state` -/
def cacheInState : S :=
  (S.b [
  .with_ (E.l [(.call "def" (E.l [(.s "cache_in_state_decorator"), (.tup (E.l [(.v "method")])), (.lst (E.l []))]))])
    (S.b [
      -- M: `wrapM cfg call e sid sys h` with `e.withAux = false`: `self` ↦ `sys`, `state` ↦ `sid`
      .with_ (E.l [(.call "def" (E.l [(.s "wrapper"), (.tup (E.l [(.v "self"), (.v "state")])), (.lst (E.l [(.call "wraps" (E.l [(.v "method")]))]))]))])
        (S.b [
          -- M: `wrapM`: `let key : Key := ⟨sys, e.meth⟩`
          .assign (.v "key") (.call "_cache_key_func" (E.l [(.v "self"), (.v "method")])),
          -- M: `wrapM`: `let h1 := register h sid [key] e.declared` — `register`: only keys ABSENT from the
          -- cache (`(s.cache k).isNone`) are added, under every declared variable, to the dict of THIS
          -- state's cell (`c = s.cell`); the cache is not touched
          .ifc (.op "not in" (E.l [(.v "key"), (.v "state._cache")]))
            (S.b [
              .loop (.v "dep") (.v "depends_on")
                (S.b [
                  .expr (.meth (.sub (.v "state._dependencies") (.v "dep")) "add" (E.l [(.v "key")]))])])
            (S.b []),
          -- M: `wrapM`: `match (h1.st sid).cache key with | some (some v) => ⟨h1, v, []⟩ | _ => …` — recompute
          -- iff the key is absent (`none`) or present with value None (`some none`)
          .ifc (.op "or" (E.l [(.op "not in" (E.l [(.v "key"), (.v "state._cache")])), (.op "is" (E.l [(.sub (.v "state._cache") (.v "key")), E.none]))]))
            (S.b [
              -- M: `wrapM`: `let r := bodyM cfg call e sid sys h1` then `setSt r.h sid (store cfg s key r.v [])`
              -- (the wrapped method runs first — nested calls may fill other entries — then its value
              -- is stored under `key`)
              .assign (.sub (.v "state._cache") (.v "key")) (.call "method" (E.l [(.v "self"), (.v "state")])),
              -- M: `Res.tr = r.tr ++ [key]`: one count per real evaluation, after it completed; a hit adds
              -- nothing (`tr = []`).  `_call_counts` is never None (`__init__` wraps it in a Counter)
              .ifc (.op "is not" (E.l [(.v "state._call_counts"), E.none]))
                (S.b [
                  .aug (.sub (.v "state._call_counts") (.v "key")) "+" (.n 1)])
                (S.b [])])
            (S.b []),
          -- M: `Res.v`: the cached entry (`v` on a hit, `r.v` after a miss)
          .ret (.sub (.v "state._cache") (.v "key"))]),
      .ret (.v "wrapper")]),
  .ret (.v "cache_in_state_decorator")])

/-- parameters of `cache_in_state_with_aux` -/
def cacheInStateWithAuxSig : E :=
  -- M: `Entry.declared`, `Entry.aux`
  (E.l [(.v "depends_on"), (.v "auxiliary_outputs")])

/-- body of `cache_in_state_with_aux` -/
def cacheInStateWithAux : S :=
  (S.b [
  -- M: `Entry.declared` / `Entry.aux` are lists also when a single string is given (`cache_deps` reads the
  -- decorator arguments with the same rule)
  .ifc (.call "isinstance" (E.l [(.v "depends_on"), (.v "str")]))
    (S.b [
      .assign (.v "depends_on") (.tup (E.l [(.v "depends_on")]))])
    (S.b []),
  .ifc (.call "isinstance" (E.l [(.v "auxiliary_outputs"), (.v "str")]))
    (S.b [
      .assign (.v "auxiliary_outputs") (.tup (E.l [(.v "auxiliary_outputs")]))])
    (S.b []),
  .with_ (E.l [(.call "def" (E.l [(.s "cache_in_state_with_aux_decorator"), (.tup (E.l [(.v "method")])), (.lst (E.l []))]))])
    (S.b [
      -- M: `wrapM cfg call e sid sys h` with `e.withAux = true`
      .with_ (E.l [(.call "def" (E.l [(.s "wrapper"), (.tup (E.l [(.v "self"), (.v "state")])), (.lst (E.l [(.call "wraps" (E.l [(.v "method")]))]))]))])
        (S.b [
          -- M: `wrapM`: `let key : Key := ⟨sys, e.meth⟩`
          .assign (.v "prim_key") (.call "_cache_key_func" (E.l [(.v "self"), (.v "method")])),
          -- M: `wrapM`: `let keys := key :: e.aux.map (Key.mk sys)` — the aux keys are keys of the SAME system
          -- object, named by `auxiliary_outputs`, in that order
          .assign (.v "keys") (.op "+" (E.l [(.lst (E.l [(.v "prim_key")])), (.call "[listcomp]" (E.l [(.kw "elt" (.call "_cache_key_func" (E.l [(.v "self"), (.v "a")]))), (.kw "for" (.v "a")), (.kw "in" (.v "auxiliary_outputs"))]))])),
          -- M: `wrapM`: `let h1 := register h sid keys e.declared` — every key (primary and aux) that is absent
          -- from the cache is registered under every declared variable; registering does not touch the
          -- cache, so the absence tests of the loop all see the cache as it was
          .loop (.tup (E.l [(.v "_i"), (.v "key")])) (.call "enumerate" (E.l [(.v "keys")]))
            (S.b [
              .ifc (.op "not in" (E.l [(.v "key"), (.v "state._cache")]))
                (S.b [
                  .loop (.v "dep") (.v "depends_on")
                    (S.b [
                      .expr (.meth (.sub (.v "state._dependencies") (.v "dep")) "add" (E.l [(.v "key")]))])])
                (S.b [])]),
          -- M: `wrapM`: `match (h1.st sid).cache key with | some (some v) => ⟨h1, v, []⟩ | _ => …` — only the
          -- PRIMARY key decides about recomputation
          .ifc (.op "or" (E.l [(.op "not in" (E.l [(.v "prim_key"), (.v "state._cache")])), (.op "is" (E.l [(.sub (.v "state._cache") (.v "prim_key")), E.none]))]))
            (S.b [
              -- M: `wrapM`: `let r := bodyM cfg call e sid sys h1`
              .assign (.v "vals") (.call "method" (E.l [(.v "self"), (.v "state")])),
              -- M: `store cfg s key r.v ((e.aux.take nAux).map (Key.mk sys))` with `nAux = cfg.auxRet sys e.meth`
              -- = number of auxiliary values the user function returned: `zip(keys, vals)` stops at the
              -- shorter list (`take`), overwrites aux entries whatever they held; a non-tuple (or 1-tuple)
              -- result fills the primary key only (`nAux = 0`)
              .ifc (.call "isinstance" (E.l [(.v "vals"), (.v "tuple")]))
                (S.b [
                  .loop (.tup (E.l [(.v "k"), (.v "v")])) (.call "zip" (E.l [(.v "keys"), (.v "vals"), (.kw "strict" (.v "False"))]))
                    (S.b [
                      .assign (.sub (.v "state._cache") (.v "k")) (.v "v")])])
                (S.b [
                  .assign (.sub (.v "state._cache") (.v "prim_key")) (.v "vals")]),
              -- M: `Res.tr = r.tr ++ [key]`: only the primary key is counted, once per real evaluation
              .ifc (.op "is not" (E.l [(.v "state._call_counts"), E.none]))
                (S.b [
                  .aug (.sub (.v "state._call_counts") (.v "prim_key")) "+" (.n 1)])
                (S.b [])])
            (S.b []),
          -- M: `Res.v`
          .ret (.sub (.v "state._cache") (.v "prim_key"))]),
      .ret (.v "wrapper")]),
  .ret (.v "cache_in_state_with_aux_decorator")])

/-- parameters of `ChainState.__init__` -/
def initSig : E :=
  -- M: `Op.fresh` = all defaults; `Op.copy` passes all four underscore arguments
  (E.l [(.v "self"), (.s "*"), (.kw "_call_counts" E.none), (.kw "_read_only" (.v "False")), (.kw "_dependencies" E.none), (.kw "_cache" E.none), (.kwstar (.v "variables"))])

/-- body of `ChainState.__init__` -/
def init : S :=
  (S.b [
  -- M: `St.stamp`, `St.arr` (the variables dict holds the caller's array objects)
  .assign (.sub (.v "self.__dict__") (.s "_variables")) (.v "variables"),
  -- M: `step .fresh`: `cell := h.nCells`, `cells c = fun _ _ => false` for the new cell (one empty set per
  -- variable)
  .ifc (.op "is" (E.l [(.v "_dependencies"), E.none]))
    (S.b [
      .assign (.v "_dependencies") (.call "{dictcomp}" (E.l [(.kw "key" (.v "name")), (.kw "value" (.call "set" (E.l []))), (.kw "for" (.v "name")), (.kw "in" (.v "variables"))]))])
    (S.b []),
  -- M: `St.cell`: a given dict is used AS IS (no copy): `step .copy` keeps `cell`
  .assign (.sub (.v "self.__dict__") (.s "_dependencies")) (.v "_dependencies"),
  -- M: `step .fresh`: `cache := fun _ => none`
  .ifc (.op "is" (E.l [(.v "_cache"), E.none]))
    (S.b [
      .assign (.v "_cache") (.src "{}")])
    (S.b []),
  -- M: `St.cache`: a given dict is used as is (`copy` hands over a shallow copy)
  .assign (.sub (.v "self.__dict__") (.s "_cache")) (.v "_cache"),
  -- M: `Res.tr` is always observable: `_call_counts` becomes a Counter (never None); an existing Counter is
  -- kept (shared by copies)
  .assign (.sub (.v "self.__dict__") (.s "_call_counts")) (.ite (.op "or" (E.l [(.op "is" (E.l [(.v "_call_counts"), E.none])), (.op "not" (E.l [(.call "isinstance" (E.l [(.v "_call_counts"), (.v "Counter")]))]))])) (.call "Counter" (E.l [(.v "_call_counts")])) (.v "_call_counts")),
  -- M: `St.readOnly`
  .assign (.sub (.v "self.__dict__") (.s "_read_only")) (.v "_read_only")])

/-- parameters of `ChainState.__getattr__` -/
def getattrSig : E :=
  (E.l [(.v "self"), (.v "name")])

/-- body of `ChainState.__getattr__` -/
def getattr : S :=
  (S.b [
  -- M: `Entry.reads`: reading `state.pos` returns the variable's array object itself (no copy: `St.arr`,
  -- `Val.aliasOf`), has no effect on the cache
  .ifc (.op "in" (E.l [(.v "name"), (.v "self._variables")]))
    (S.b [
      .ret (.sub (.v "self._variables") (.v "name"))])
    (S.b []),
  .raise_ (.call "AttributeError" (E.l [(.v "msg")])) E.none])

/-- parameters of `ChainState.__setattr__` -/
def setattrSig : E :=
  (E.l [(.v "self"), (.v "name"), (.v "value")])

/-- body of `ChainState.__setattr__` -/
def setattr : S :=
  (S.b [
  -- M: `step .assign` / `.assignIP`: `if s.readOnly then (…, .roError)` — checked FIRST: nothing is assigned
  -- or invalidated on a read-only state
  .ifc (.v "self._read_only")
    (S.b [
      .raise_ (.call "ReadOnlyStateError" (E.l [(.v "msg")])) E.none])
    (S.b []),
  .ifc (.op "in" (E.l [(.v "name"), (.v "self._variables")]))
    (S.b [
      -- M: `step .assign`: `stamp := upd s.stamp x …`, `arr := upd s.arr x …` (rebinding: the dict entry now
      -- holds the new object)
      .assign (.sub (.v "self._variables") (.v "name")) (.v "value"),
      -- M: `invalidate h s x`: EVERY key registered under `x` in the dict of this state's cell gets the value
      -- None (`some none`) in THIS state's cache — also keys that were absent (they become present-None)
      .loop (.v "dep") (.sub (.v "self._dependencies") (.v "name"))
        (S.b [
          .assign (.sub (.v "self._cache") (.v "dep")) E.none]),
      .ret E.none])
    (S.b []),
  -- not modelled: attributes that are not state variables (the histories only assign pos / mom / dir)
  .ret (.meth (.call "super" (E.l [])) "__setattr__" (E.l [(.v "name"), (.v "value")]))])

/-- parameters of `ChainState.__contains__` -/
def containsSig : E :=
  (E.l [(.v "self"), (.v "name")])

/-- body of `ChainState.__contains__` -/
def contains : S :=
  (S.b [
  .ret (.op "in" (E.l [(.v "name"), (.v "self._variables")]))])

/-- parameters of `ChainState.copy` -/
def copySig : E :=
  -- M: `Op.copy sid ro`
  (E.l [(.v "self"), (.s "*"), (.kw "read_only" (.v "False"))])

/-- body of `ChainState.copy` -/
def copy : S :=
  (S.b [
  -- M: `step .copy`: `arr := fun | .pos => a | .mom => a + 1 | .dir => a + 2` (new array objects with the same
  -- content: `stamp` unchanged)
  .assign (.v "variables") (.call "{dictcomp}" (E.l [(.kw "key" (.v "name")), (.kw "value" (.call "copy.copy" (E.l [(.v "val")]))), (.kw "for" (.tup (E.l [(.v "name"), (.v "val")]))), (.kw "in" (.call "self._variables.items" (E.l [])))])),
  -- M: `step .copy`: `frozen := ro` — the COPIES of the arrays are made non-writeable, before the state is built
  .ifc (.v "read_only")
    (S.b [
      .loop (.v "val") (.call "variables.values" (E.l []))
        (S.b [
          .ifc (.call "hasattr" (E.l [(.v "val"), (.s "setflags")]))
            (S.b [
              .expr (.call "val.setflags" (E.l [(.kw "write" (.v "False"))]))])
            (S.b [])])])
    (S.b []),
  -- M: `step .copy`: `s' := { s with arr := …, readOnly := ro, frozen := ro }`: `cell` kept (the `_dependencies`
  -- dict is SHARED), `cache` = the same entries in a NEW dict (shallow copy: later stores / invalidations of
  -- one state do not reach the other; the cached values themselves are shared objects: `Val.aliasOf`),
  -- `_call_counts` shared (`Res.tr` accumulates over copies)
  .ret (.meth (.call "type" (E.l [(.v "self")])) "__call__" (E.l [(.kw "_dependencies" (.v "self._dependencies")), (.kw "_cache" (.call "self._cache.copy" (E.l []))), (.kw "_call_counts" (.v "self._call_counts")), (.kw "_read_only" (.v "read_only")), (.kwstar (.v "variables"))]))])

/-- parameters of `ChainState.__getstate__` -/
def getstateSig : E :=
  (E.l [(.v "self")])

/-- body of `ChainState.__getstate__` -/
def getstate : S :=
  (S.b [
  -- M: `step .pickle`: `s' := { s with arr := newArr, cell := h.nCells, frozen := s.readOnly, cache := … }`:
  -- variables and read-only flag as they are, the WHOLE `_dependencies` dict (`cells (h.nCells) := h.cells s.cell`,
  -- a copy with the same content after the round trip), the cache without the entries whose value is
  -- callable (`if v.callable then none`; None entries are kept: `| o => o`)
  .ret (.call "{dict}" (E.l [(.kw "variables" (.v "self._variables")), (.kw "dependencies" (.v "self._dependencies")), (.kw "cache" (.call "{dictcomp}" (E.l [(.kw "key" (.v "k")), (.kw "value" (.v "v")), (.kw "for" (.tup (E.l [(.v "k"), (.v "v")]))), (.kw "in" (.call "self._cache.items" (E.l []))), (.kw "if" (.op "not" (E.l [(.call "callable" (E.l [(.v "v")]))])))]))), (.kw "call_counts" (.v "self._call_counts")), (.kw "read_only" (.v "self._read_only"))]))])

/-- parameters of `ChainState.__setstate__` -/
def setstateSig : E :=
  (E.l [(.v "self"), (.v "state")])

/-- body of `ChainState.__setstate__` -/
def setstate : S :=
  (S.b [
  -- M: `step .pickle`: every field of the new state comes from the entry `__getstate__` filled for it
  .assign (.sub (.v "self.__dict__") (.s "_variables")) (.sub (.v "state") (.s "variables")),
  .assign (.sub (.v "self.__dict__") (.s "_dependencies")) (.sub (.v "state") (.s "dependencies")),
  .assign (.sub (.v "self.__dict__") (.s "_cache")) (.sub (.v "state") (.s "cache")),
  .assign (.sub (.v "self.__dict__") (.s "_call_counts")) (.sub (.v "state") (.s "call_counts")),
  .assign (.sub (.v "self.__dict__") (.s "_read_only")) (.sub (.v "state") (.s "read_only")),
  -- M: `step .pickle`: `frozen := s.readOnly` (numpy does not pickle the writeable flag)
  .ifc (.sub (.v "state") (.s "read_only"))
    (S.b [
      .loop (.v "val") (.meth (.sub (.v "state") (.s "variables")) "values" (E.l []))
        (S.b [
          .ifc (.call "hasattr" (E.l [(.v "val"), (.s "setflags")]))
            (S.b [
              .expr (.call "val.setflags" (E.l [(.kw "write" (.v "False"))]))])
            (S.b [])])])
    (S.b [])])

/-- module-level definitions of states.py: no other decorator / key function -/
def moduleMembers : List String :=
  ["def _cache_key_func", "def cache_in_state", "def cache_in_state_with_aux", "class ChainState"]

/-- members of `class ChainState`: no `__copy__` / `__deepcopy__` / `__reduce__` / `__delattr__` / … that
would bypass the modelled operations (`__str__` / `__repr__` only read `_variables`) -/
def chainStateMembers : List String :=
  ["def __init__", "def __getattr__", "def __setattr__", "def __contains__", "def copy", "def __str__", "def __repr__", "def __getstate__", "def __setstate__"]

/-- `class ChainState:` has no base class, metaclass or decorator -/
def chainStateBases : List String :=
  []

/-- statements the extractor dropped: (function, allow-list entry, first line of the source) -/
def dropped : List (String × String × String) := [
  ("__getattr__", "message text", "msg = f\"'{type(self).__name__}' object has no attribute '{name}'\""),
  ("__setattr__", "message text", "msg = 'ChainState instance is read-only.'")]

end StateExpected

/-! ## A reading of the bodies as operations on the model's heap -/

namespace StateSem
open MiciVerif.Cache

/-! ### the two `wrapper` functions -/

/-- `if <key> not in state._cache: for dep in depends_on: state._dependencies[dep].add(<key>)` -/
def registerStmt (key : String) : S :=
  .ifc (.op "not in" (E.l [.v key, .v "state._cache"]))
    (S.b [.loop (.v "dep") (.v "depends_on")
      (S.b [.expr (.meth (.sub (.v "state._dependencies") (.v "dep")) "add" (E.l [.v key]))])])
    (S.b [])

/-- `<key> not in state._cache or state._cache[<key>] is None` -/
def missCond (key : String) : E :=
  .op "or" (E.l [.op "not in" (E.l [.v key, .v "state._cache"]),
                 .op "is" (E.l [.sub (.v "state._cache") (.v key), .none])])

/-- `if state._call_counts is not None: state._call_counts[<key>] += 1` -/
def countStmt (key : String) : S :=
  .ifc (.op "is not" (E.l [.v "state._call_counts", .none]))
    (S.b [.aug (.sub (.v "state._call_counts") (.v key)) "+" (.n 1)]) (S.b [])

/-- actions of the recompute branch -/
inductive MissAct where
  /-- `state._cache[key] = method(self, state)` -/
  | evalAndStore
  /-- `vals = method(self, state)` -/
  | eval
  /-- `if isinstance(vals, tuple): for k, v in zip(keys, vals, strict=False): state._cache[k] = v
      else: state._cache[prim_key] = vals` -/
  | storeZipOrPrimary
  /-- `if state._call_counts is not None: state._call_counts[<primary key>] += 1` -/
  | count
  deriving DecidableEq, Repr

/-- actions of a `wrapper` body -/
inductive WrapAct where
  /-- `<key> = _cache_key_func(self, method)` -/
  | makeKey
  /-- `keys = [prim_key] + [_cache_key_func(self, a) for a in auxiliary_outputs]` -/
  | makeKeys
  /-- `if key not in state._cache: for dep in depends_on: state._dependencies[dep].add(key)` -/
  | registerIfAbsent
  /-- `for _i, key in enumerate(keys): if key not in state._cache: for dep in depends_on: …add(key)` -/
  | registerEachIfAbsent
  /-- `if <key> not in state._cache or state._cache[<key>] is None: <acts>` -/
  | computeIfAbsentOrNone (acts : List MissAct)
  /-- `return state._cache[<key>]` -/
  | returnCached
  deriving DecidableEq, Repr

def missAct? (key : String) (s : S) : Option MissAct :=
  if s = .assign (.sub (.v "state._cache") (.v key)) (.call "method" (E.l [.v "self", .v "state"])) then some .evalAndStore
  else if s = .assign (.v "vals") (.call "method" (E.l [.v "self", .v "state"])) then some .eval
  else if s = .ifc (.call "isinstance" (E.l [.v "vals", .v "tuple"]))
      (S.b [.loop (.tup (E.l [.v "k", .v "v"])) (.call "zip" (E.l [.v "keys", .v "vals", .kw "strict" (.v "False")]))
        (S.b [.assign (.sub (.v "state._cache") (.v "k")) (.v "v")])])
      (S.b [.assign (.sub (.v "state._cache") (.v key)) (.v "vals")]) then some .storeZipOrPrimary
  else if s = countStmt key then some .count
  else Option.none

def missPlan (key : String) : List S → Option (List MissAct)
  | [] => some []
  | s :: l => (missAct? key s).bind fun a => (missPlan key l).map fun as => a :: as

def wrapAct? (key : String) (s : S) : Option WrapAct :=
  if s = .assign (.v key) (.call "_cache_key_func" (E.l [.v "self", .v "method"])) then some .makeKey
  else if s = .assign (.v "keys") (.op "+" (E.l [.lst (E.l [.v key]),
      .call "[listcomp]" (E.l [.kw "elt" (.call "_cache_key_func" (E.l [.v "self", .v "a"])), .kw "for" (.v "a"),
                               .kw "in" (.v "auxiliary_outputs")])])) then some .makeKeys
  else if s = registerStmt key then some .registerIfAbsent
  else if s = .loop (.tup (E.l [.v "_i", .v "key"])) (.call "enumerate" (E.l [.v "keys"])) (S.b [registerStmt "key"])
    then some .registerEachIfAbsent
  else if s = .ret (.sub (.v "state._cache") (.v key)) then some .returnCached
  else match s with
    | .ifc c t .skip => if c = missCond key then (missPlan key t.stmts).map .computeIfAbsentOrNone else Option.none
    | _ => Option.none

/-- the actions of a `wrapper` body whose primary-key variable is `key`, in source order -/
def wrapPlan (key : String) : List S → Option (List WrapAct)
  | [] => some []
  | s :: l => (wrapAct? key s).bind fun a => (wrapPlan key l).map fun as => a :: as

/-- local variables of a `wrapper` call, as the model sees them -/
structure WrapVars where
  h : Heap
  /-- primary key -/
  key : Option Key
  /-- `keys` (with-aux decorator); the plain decorator registers `[key]` -/
  keys : Option (List Key)
  /-- result of the wrapped method that has been evaluated but not stored yet (`vals`) -/
  pending : Option Val
  /-- wrapped methods really evaluated (= increments of `_call_counts`), in completion order -/
  tr : List Key

/-- recompute branch: `evalAndStore` = `eval` followed by storing under the primary key only -/
def runMissActs (cfg : Cfg) (call : Heap → Nat → Res) (e : Entry) (sid sys : Nat) (key : Key) :
    List MissAct → WrapVars → Option WrapVars
  | [], w => some w
  | .evalAndStore :: l, w =>
    let r := bodyM cfg call e sid sys w.h
    runMissActs cfg call e sid sys key l
      { w with h := setSt r.h sid (fun s => store cfg s key r.v []), pending := Option.none, tr := w.tr ++ r.tr }
  | .eval :: l, w =>
    let r := bodyM cfg call e sid sys w.h
    runMissActs cfg call e sid sys key l { w with h := r.h, pending := some r.v, tr := w.tr ++ r.tr }
  | .storeZipOrPrimary :: l, w =>
    match w.pending, w.keys with
    | some v, some keys =>
      -- `vals` = (primary, aux_1, …, aux_n) with n = `cfg.auxRet` (a non-tuple is n = 0): `zip` pairs the
      -- first 1 + n keys
      let zipped := (keys.drop 1).take (cfg.auxRet sys e.meth)
      runMissActs cfg call e sid sys key l
        { w with h := setSt w.h sid (fun s => store cfg s key v zipped), pending := Option.none }
    | _, _ => Option.none
  | .count :: l, w => runMissActs cfg call e sid sys key l { w with tr := w.tr ++ [key] }

/-- Execute the actions of a `wrapper` body in order; `returnCached` reads the entry back from the
cache of the state (`none` if it is absent or None — does not happen, see the theorems). -/
def runWrapActs (cfg : Cfg) (call : Heap → Nat → Res) (e : Entry) (sid sys : Nat) :
    List WrapAct → WrapVars → Option Res
  | [], _ => Option.none
  | .makeKey :: l, w => runWrapActs cfg call e sid sys l { w with key := some ⟨sys, e.meth⟩ }
  | .makeKeys :: l, w =>
    match w.key with
    | some k => runWrapActs cfg call e sid sys l { w with keys := some (k :: e.aux.map (Key.mk sys)) }
    | Option.none => Option.none
  | .registerIfAbsent :: l, w =>
    match w.key with
    | some k => runWrapActs cfg call e sid sys l { w with h := register w.h sid [k] e.declared }
    | Option.none => Option.none
  | .registerEachIfAbsent :: l, w =>
    match w.keys with
    | some ks => runWrapActs cfg call e sid sys l
        { w with h := ks.foldl (fun h k => register h sid [k] e.declared) w.h }
    | Option.none => Option.none
  | .computeIfAbsentOrNone acts :: l, w =>
    match w.key with
    | some k =>
      match (w.h.st sid).cache k with
      | some (some _) => runWrapActs cfg call e sid sys l w
      | _ => (runMissActs cfg call e sid sys k acts w).bind (runWrapActs cfg call e sid sys l)
    | Option.none => Option.none
  | .returnCached :: _, w =>
    match w.key with
    | some k =>
      match (w.h.st sid).cache k with
      | some (some v) => some ⟨w.h, v, w.tr⟩
      | _ => Option.none
    | Option.none => Option.none

/-- the `wrapper` of a decorator read from its statement list (`key` = name of the primary-key variable) -/
def wrapPass (key : String) (body : List S) (cfg : Cfg) (call : Heap → Nat → Res) (e : Entry)
    (sid sys : Nat) (h : Heap) : Option Res :=
  (wrapPlan key body).bind fun acts =>
    runWrapActs cfg call e sid sys acts ⟨h, Option.none, Option.none, Option.none, []⟩

/-! ### `__setattr__` -/

inductive SetVarAct where
  /-- `self._variables[name] = value` -/
  | bind
  /-- `for dep in self._dependencies[name]: self._cache[dep] = None` -/
  | invalidateDependents
  /-- `return None` -/
  | done
  deriving DecidableEq, Repr

inductive SetattrAct where
  /-- `if self._read_only: raise ReadOnlyStateError(msg)` -/
  | raiseIfReadOnly
  /-- `if name in self._variables: <acts>` -/
  | ifVariable (acts : List SetVarAct)
  /-- `return super().__setattr__(name, value)` -/
  | otherAttribute
  deriving DecidableEq, Repr

def setVarAct? (s : S) : Option SetVarAct :=
  if s = .assign (.sub (.v "self._variables") (.v "name")) (.v "value") then some .bind
  else if s = .loop (.v "dep") (.sub (.v "self._dependencies") (.v "name"))
      (S.b [.assign (.sub (.v "self._cache") (.v "dep")) .none]) then some .invalidateDependents
  else if s = .ret .none then some .done
  else Option.none

def setVarPlan : List S → Option (List SetVarAct)
  | [] => some []
  | s :: l => (setVarAct? s).bind fun a => (setVarPlan l).map fun as => a :: as

def setattrAct? (s : S) : Option SetattrAct :=
  if s = .ifc (.v "self._read_only") (S.b [.raise_ (.call "ReadOnlyStateError" (E.l [.v "msg"])) .none]) (S.b [])
    then some .raiseIfReadOnly
  else if s = .ret (.meth (.call "super" (E.l [])) "__setattr__" (E.l [.v "name", .v "value"])) then some .otherAttribute
  else match s with
    | .ifc c t .skip =>
      if c = .op "in" (E.l [.v "name", .v "self._variables"]) then (setVarPlan t.stmts).map .ifVariable else Option.none
    | _ => Option.none

def setattrPlan : List S → Option (List SetattrAct)
  | [] => some []
  | s :: l => (setattrAct? s).bind fun a => (setattrPlan l).map fun as => a :: as

/-- `bindVar` = what `self._variables[name] = value` does to the heap (the caller supplies the new
object: a fresh array for a rebinding assignment, the same array after `__iadd__`). -/
def runSetVarActs (sid : Nat) (x : Var) (bindVar : Heap → Heap) : List SetVarAct → Heap → Option (Heap × Out)
  | [], _ => Option.none   -- falls through to `super().__setattr__`: not a state variable
  | .bind :: l, h => runSetVarActs sid x bindVar l (bindVar h)
  | .invalidateDependents :: l, h =>
    runSetVarActs sid x bindVar l (setSt h sid (fun s => { s with cache := invalidate h s x }))
  | .done :: _, h => some (h, .ok)

/-- `name` is one of the state variables (`x : Var`), so `name in self._variables` holds. -/
def runSetattrActs (sid : Nat) (x : Var) (bindVar : Heap → Heap) : List SetattrAct → Heap → Option (Heap × Out)
  | [], _ => Option.none
  | .raiseIfReadOnly :: l, h =>
    if (h.st sid).readOnly then some (h, .roError) else runSetattrActs sid x bindVar l h
  | .ifVariable acts :: _, h => runSetVarActs sid x bindVar acts h
  | .otherAttribute :: _, _ => Option.none

/-- `state.x = value` read from the statement list of `__setattr__` -/
def setattrPass (body : List S) (sid : Nat) (x : Var) (bindVar : Heap → Heap) (h : Heap) : Option (Heap × Out) :=
  (setattrPlan body).bind fun acts => runSetattrActs sid x bindVar acts h

/-- a rebinding assignment stores a new array object with new content -/
def bindFresh (sid : Nat) (x : Var) (h : Heap) : Heap :=
  { setSt h sid (fun s => { s with stamp := upd s.stamp x h.nextStamp, arr := upd s.arr x h.nextArr }) with
    nextStamp := h.nextStamp + 1, nextArr := h.nextArr + 1 }

/-! ### `__init__`, `copy` -/

inductive InitAct where
  /-- `self.__dict__["_variables"] = variables` -/
  | setVariables
  /-- `if _dependencies is None: _dependencies = {name: set() for name in variables}` -/
  | defaultDependencies
  /-- `self.__dict__["_dependencies"] = _dependencies` -/
  | setDependencies
  /-- `if _cache is None: _cache = {}` -/
  | defaultCache
  /-- `self.__dict__["_cache"] = _cache` -/
  | setCache
  /-- `self.__dict__["_call_counts"] = Counter(_call_counts) if … else _call_counts` -/
  | setCallCounts
  /-- `self.__dict__["_read_only"] = _read_only` -/
  | setReadOnly
  deriving DecidableEq, Repr

def initAct? (s : S) : Option InitAct :=
  if s = .assign (.sub (.v "self.__dict__") (.s "_variables")) (.v "variables") then some .setVariables
  else if s = .ifc (.op "is" (E.l [.v "_dependencies", .none]))
      (S.b [.assign (.v "_dependencies") (.call "{dictcomp}" (E.l [.kw "key" (.v "name"), .kw "value" (.call "set" (E.l [])),
        .kw "for" (.v "name"), .kw "in" (.v "variables")]))]) (S.b []) then some .defaultDependencies
  else if s = .assign (.sub (.v "self.__dict__") (.s "_dependencies")) (.v "_dependencies") then some .setDependencies
  else if s = .ifc (.op "is" (E.l [.v "_cache", .none])) (S.b [.assign (.v "_cache") (.src "{}")]) (S.b [])
    then some .defaultCache
  else if s = .assign (.sub (.v "self.__dict__") (.s "_cache")) (.v "_cache") then some .setCache
  else if s = .assign (.sub (.v "self.__dict__") (.s "_call_counts"))
      (.ite (.op "or" (E.l [.op "is" (E.l [.v "_call_counts", .none]),
                            .op "not" (E.l [.call "isinstance" (E.l [.v "_call_counts", .v "Counter"])])]))
        (.call "Counter" (E.l [.v "_call_counts"])) (.v "_call_counts")) then some .setCallCounts
  else if s = .assign (.sub (.v "self.__dict__") (.s "_read_only")) (.v "_read_only") then some .setReadOnly
  else Option.none

def initPlan : List S → Option (List InitAct)
  | [] => some []
  | s :: l => (initAct? s).bind fun a => (initPlan l).map fun as => a :: as

/-- arguments of a `ChainState(…)` call as the model sees them -/
structure InitArgs where
  stamp : Var → Nat
  arr : Var → Nat
  /-- the arrays handed over are non-writeable -/
  frozen : Bool
  /-- `_dependencies`: `none` = None, `some c` = the dict with id `c` -/
  deps : Option Nat
  /-- `_cache`: `none` = None, `some f` = a dict with these entries -/
  cache : Option (Key → Option (Option Val))
  readOnly : Bool

/-- attributes set so far -/
structure InitVars where
  h : Heap
  args : InitArgs
  vars : Bool := false
  cell : Option Nat := Option.none
  cache : Option (Key → Option (Option Val)) := Option.none
  counts : Bool := false
  ro : Option Bool := Option.none

def runInitActs : List InitAct → InitVars → Option InitVars
  | [], v => some v
  | .setVariables :: l, v => runInitActs l { v with vars := true }
  | .defaultDependencies :: l, v =>
    match v.args.deps with
    | some _ => runInitActs l v
    | Option.none =>
      -- a new dict with one empty set per variable
      runInitActs l { v with
        h := { v.h with cells := fun c => if c = v.h.nCells then (fun _ _ => false) else v.h.cells c,
                        nCells := v.h.nCells + 1 },
        args := { v.args with deps := some v.h.nCells } }
  | .setDependencies :: l, v =>
    match v.args.deps with
    | some c => runInitActs l { v with cell := some c }
    | Option.none => Option.none
  | .defaultCache :: l, v =>
    match v.args.cache with
    | some _ => runInitActs l v
    | Option.none => runInitActs l { v with args := { v.args with cache := some (fun _ => Option.none) } }
  | .setCache :: l, v =>
    match v.args.cache with
    | some f => runInitActs l { v with cache := some f }
    | Option.none => Option.none
  | .setCallCounts :: l, v => runInitActs l { v with counts := true }
  | .setReadOnly :: l, v => runInitActs l { v with ro := some v.args.readOnly }

/-- `ChainState(**variables, _dependencies=…, _cache=…, _read_only=…)` read from the statement list of
`__init__`: the new state (all five attributes must have been set) is appended to the heap. -/
def initPass (body : List S) (args : InitArgs) (h : Heap) : Option Heap :=
  (initPlan body).bind fun acts =>
    (runInitActs acts { h := h, args := args }).bind fun v =>
      match v.vars, v.cell, v.cache, v.counts, v.ro with
      | true, some c, some f, true, some ro =>
        some { v.h with st := fun i => if i = v.h.nSt then ⟨args.stamp, args.arr, f, c, ro, args.frozen⟩ else v.h.st i,
                        nSt := v.h.nSt + 1 }
      | _, _, _, _, _ => Option.none

inductive CopyAct where
  /-- `variables = {name: copy.copy(val) for name, val in self._variables.items()}` -/
  | copyVariables
  /-- `if read_only: for val in variables.values(): if hasattr(val, "setflags"): val.setflags(write=False)` -/
  | freezeIfReadOnly
  /-- `return type(self)(_dependencies=self._dependencies, _cache=self._cache.copy(),
      _call_counts=self._call_counts, _read_only=read_only, **variables)` -/
  | construct
  deriving DecidableEq, Repr

/-- `for val in <values>: if hasattr(val, "setflags"): val.setflags(write=False)` -/
def freezeLoop (values : E) : S :=
  .loop (.v "val") values
    (S.b [.ifc (.call "hasattr" (E.l [.v "val", .s "setflags"]))
      (S.b [.expr (.call "val.setflags" (E.l [.kw "write" (.v "False")]))]) (S.b [])])

def copyAct? (s : S) : Option CopyAct :=
  if s = .assign (.v "variables") (.call "{dictcomp}" (E.l [.kw "key" (.v "name"),
      .kw "value" (.call "copy.copy" (E.l [.v "val"])), .kw "for" (.tup (E.l [.v "name", .v "val"])),
      .kw "in" (.call "self._variables.items" (E.l []))])) then some .copyVariables
  else if s = .ifc (.v "read_only") (S.b [freezeLoop (.call "variables.values" (E.l []))]) (S.b [])
    then some .freezeIfReadOnly
  else if s = .ret (.meth (.call "type" (E.l [.v "self"])) "__call__"
      (E.l [.kw "_dependencies" (.v "self._dependencies"), .kw "_cache" (.call "self._cache.copy" (E.l [])),
            .kw "_call_counts" (.v "self._call_counts"), .kw "_read_only" (.v "read_only"),
            .kwstar (.v "variables")])) then some .construct
  else Option.none

def copyPlan : List S → Option (List CopyAct)
  | [] => some []
  | s :: l => (copyAct? s).bind fun a => (copyPlan l).map fun as => a :: as

/-- local variables of `copy` -/
structure CopyVars where
  h : Heap
  /-- `variables`: the new array objects -/
  arr : Option (Var → Nat)
  frozen : Bool

/-- `s` = the state being copied; `construct` runs the `__init__` reading on `initBody`. -/
def runCopyActs (initBody : List S) (s : St) (ro : Bool) : List CopyAct → CopyVars → Option (Heap × Out)
  | [], _ => Option.none
  | .copyVariables :: l, v =>
    let a := v.h.nextArr
    runCopyActs initBody s ro l
      { v with h := { v.h with nextArr := a + 3 }, arr := some (fun | .pos => a | .mom => a + 1 | .dir => a + 2) }
  | .freezeIfReadOnly :: l, v =>
    match v.arr with
    | some _ => runCopyActs initBody s ro l { v with frozen := ro }
    | Option.none => Option.none
  | .construct :: _, v =>
    match v.arr with
    | some arr =>
      (initPass initBody ⟨s.stamp, arr, v.frozen, some s.cell, some s.cache, ro⟩ v.h).map fun h' => (h', .ok)
    | Option.none => Option.none

/-- `state.copy(read_only=ro)` read from the statement lists of `copy` and `__init__` -/
def copyPass (body initBody : List S) (sid : Nat) (ro : Bool) (h : Heap) : Option (Heap × Out) :=
  (copyPlan body).bind fun acts => runCopyActs initBody (h.st sid) ro acts ⟨h, Option.none, false⟩

/-- `ChainState(pos=…, mom=…, dir=…)` with new arrays / new content (all underscore arguments default) -/
def freshPass (initBody : List S) (h : Heap) : Option (Heap × Out) :=
  let a := h.nextArr
  let n := h.nextStamp
  (initPass initBody
    ⟨fun | .pos => n | .mom => n + 1 | .dir => n + 2, fun | .pos => a | .mom => a + 1 | .dir => a + 2, false,
     Option.none, Option.none, false⟩
    { h with nextArr := a + 3, nextStamp := n + 3 }).map fun h' => (h', .ok)

/-! ### `__getstate__` / `__setstate__` -/

/-- attributes of a state / entries of the pickled dict -/
inductive Field where
  | variables | dependencies | cache | callCounts | readOnly
  deriving DecidableEq, Repr

/-- what `__getstate__` puts into an entry -/
inductive Source where
  /-- `self._variables` -/
  | variables
  /-- `self._dependencies` (the whole dict) -/
  | dependencies
  /-- `{k: v for k, v in self._cache.items() if not callable(v)}` -/
  | cacheNonCallable
  /-- `self._call_counts` -/
  | callCounts
  /-- `self._read_only` -/
  | readOnly
  deriving DecidableEq, Repr

def entryName? : String → Option Field
  | "variables" => some .variables | "dependencies" => some .dependencies | "cache" => some .cache
  | "call_counts" => some .callCounts | "read_only" => some .readOnly | _ => Option.none

def attrName? : String → Option Field
  | "_variables" => some .variables | "_dependencies" => some .dependencies | "_cache" => some .cache
  | "_call_counts" => some .callCounts | "_read_only" => some .readOnly | _ => Option.none

def source? (e : E) : Option Source :=
  if e = .v "self._variables" then some .variables
  else if e = .v "self._dependencies" then some .dependencies
  else if e = .call "{dictcomp}" (E.l [.kw "key" (.v "k"), .kw "value" (.v "v"), .kw "for" (.tup (E.l [.v "k", .v "v"])),
      .kw "in" (.call "self._cache.items" (E.l [])), .kw "if" (.op "not" (E.l [.call "callable" (E.l [.v "v"])]))])
    then some .cacheNonCallable
  else if e = .v "self._call_counts" then some .callCounts
  else if e = .v "self._read_only" then some .readOnly
  else Option.none

def entries? : List E → Option (List (Field × Source))
  | [] => some []
  | .kw k e :: l => (entryName? k).bind fun f => (source? e).bind fun s => (entries? l).map fun r => (f, s) :: r
  | _ => Option.none

/-- `__getstate__` must be `return {"…": …, …}`: the entries of the pickled dict -/
def getstatePlan : List S → Option (List (Field × Source))
  | [.ret (.call "{dict}" args)] => entries? args.items
  | _ => Option.none

inductive SetstateAct where
  /-- `self.__dict__["<attr>"] = state["<entry>"]` -/
  | restore (attr entry : Field)
  /-- `if state["read_only"]: for val in state["variables"].values(): …setflags(write=False)` -/
  | refreezeIfReadOnly
  deriving DecidableEq, Repr

def setstateAct? (s : S) : Option SetstateAct :=
  if s = .ifc (.sub (.v "state") (.s "read_only"))
      (S.b [freezeLoop (.meth (.sub (.v "state") (.s "variables")) "values" (E.l []))]) (S.b [])
    then some .refreezeIfReadOnly
  else match s with
    | .assign (.sub (.v "self.__dict__") (.s a)) (.sub (.v "state") (.s k)) =>
      (attrName? a).bind fun f => (entryName? k).map fun g => .restore f g
    | _ => Option.none

def setstatePlan : List S → Option (List SetstateAct)
  | [] => some []
  | s :: l => (setstateAct? s).bind fun a => (setstatePlan l).map fun as => a :: as

/-- where the value of attribute `attr` of the restored state comes from: the LAST `restore attr entry`
of `__setstate__`, looked up in the (first) entry `entry` of the dict `__getstate__` returned -/
def roundTrip (get : List (Field × Source)) (set : List SetstateAct) (attr : Field) : Option Source :=
  (set.reverse.findSome? fun
    | .restore a k => if a = attr then some k else Option.none
    | _ => Option.none).bind fun k => (get.find? (·.1 = k)).map (·.2)

/-- `pickle.loads(pickle.dumps(state))` read from the statement lists of `__getstate__` and
`__setstate__`.  The round trip itself (trusted, `DESIGN §4`) deep-copies the dict `__getstate__`
returned: new array objects (cached values that were a variable's array follow it: `remapAlias`),
a new `_dependencies` dict with the same content.  Each attribute of the new state must be restored
from an entry that was filled from the same attribute of the old one; `_cache` is restored from the
filtered copy; the arrays are non-writeable iff `__setstate__` re-freezes and the state is read-only. -/
def picklePass (getBody setBody : List S) (sid : Nat) (h : Heap) : Option (Heap × Out) :=
  (getstatePlan getBody).bind fun get => (setstatePlan setBody).bind fun set =>
    if roundTrip get set .variables = some .variables
        ∧ roundTrip get set .dependencies = some .dependencies
        ∧ roundTrip get set .cache = some .cacheNonCallable
        ∧ roundTrip get set .callCounts = some .callCounts
        ∧ roundTrip get set .readOnly = some .readOnly then
      let s := h.st sid
      let a := h.nextArr
      let newArr : Var → Nat := fun | .pos => a | .mom => a + 1 | .dir => a + 2
      let refreeze := set.getLast? = some .refreezeIfReadOnly
      let s' : St :=
        { stamp := s.stamp, arr := newArr, cell := h.nCells, readOnly := s.readOnly,
          frozen := decide refreeze && s.readOnly,
          cache := fun k => match s.cache k with
            | some (some v) => if v.callable then Option.none
                else some (some { v with aliasOf := v.aliasOf.bind (remapAlias s.arr newArr) })
            | o => o }
      some ({ h with st := fun i => if i = h.nSt then s' else h.st i, nSt := h.nSt + 1, nextArr := a + 3,
                     cells := fun c => if c = h.nCells then h.cells s.cell else h.cells c,
                     nCells := h.nCells + 1 }, .ok)
    else Option.none

end StateSem

end MiciVerif.Skel
