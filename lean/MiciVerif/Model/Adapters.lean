/-
Model of `mici.adapters` (`/repo/src/mici/adapters.py`), mirroring the code line by line.

Core Lean only.  Every definition is polymorphic in the number type `K`, using only the
core operation classes (`Add`, `Sub`, `Mul`, `Div`, `NatCast`, …): the driver runs the
definitions at `K = Rat` (exact), the theorems in `Props/C17.lean` are stated for every
field of characteristic zero (hence for ℝ, the semantics the documentation promises).

Vectors.  NumPy applies the Welford update and the Chan merge *component-wise* to
`mean` / `sum_diff_sq` (diagonal adapter) and entry-wise to `sum_diff_outer`
(`sum_diff_outer[a,b] += pos_minus_mean[b] * (pos - mean_new)[a]`).  The model is
therefore the scalar recursion for one component (`WState`) and for one ordered pair of
components (`CState`, entry `(a,b)` of the matrix driven by the streams of components `a`
and `b`); the driver runs it for every component / pair, and the correspondence check
compares all of them with the arrays of the real adapter.
-/
namespace MiciVerif.Adapters

/-! ## Welford updates (`Online{Variance,Covariance}MetricAdapter.update`) -/

/-- `{"iter", "mean", "sum_diff_sq"}` for one position component. -/
structure WState (K : Type) where
  iter : Nat
  mean : K
  m2 : K
  deriving Repr, DecidableEq

/-- `{"iter", "mean"[a], "mean"[b], "sum_diff_outer"[a,b]}` for one pair of components.
Also used as the accumulator `(n_iter, mean_est, covar_est)` of `finalize`; `nan` records
that a division `0/0` was executed by NumPy (all entries of `mean_est` / `var_est` are NaN
from then on, no exception is raised). -/
structure CState (K : Type) where
  iter : Nat
  meanA : K
  meanB : K
  c : K
  nan : Bool := false
  deriving Repr, DecidableEq

section
variable {K : Type} [Zero K] [One K] [Add K] [Sub K] [Mul K] [Div K] [NatCast K]

/-- `initialize`: `iter = 0`, `mean = zeros`, `sum_diff_sq = zeros`. -/
def WState.init : WState K := ⟨0, 0, 0⟩

/-- `OnlineVarianceMetricAdapter.update` (adapters.py:455-460), one component. -/
def WState.update (s : WState K) (x : K) : WState K :=
  let iter := s.iter + 1                      -- adapt_state["iter"] += 1
  let posMinusMean := x - s.mean              -- pos_minus_mean = pos - mean
  let mean := s.mean + posMinusMean / (iter : K)   -- mean += pos_minus_mean / iter
  ⟨iter, mean, s.m2 + posMinusMean * (x - mean)⟩   -- sum_diff_sq += pos_minus_mean * (pos - mean)

/-- State of one chain after the positions `xs` (in order). -/
def welford (xs : List K) : WState K := xs.foldl WState.update WState.init

def CState.init : CState K := ⟨0, 0, 0, 0, false⟩

/-- `OnlineCovarianceMetricAdapter.update` (adapters.py:585-590), entry `(a,b)`:
`sum_diff_outer[a,b] += pos_minus_mean[b] * (pos[a] - mean_new[a])`. -/
def CState.update (s : CState K) (p : K × K) : CState K :=
  let iter := s.iter + 1
  let dA := p.1 - s.meanA
  let dB := p.2 - s.meanB
  let meanA := s.meanA + dA / (iter : K)
  let meanB := s.meanB + dB / (iter : K)
  ⟨iter, meanA, meanB, s.c + dB * (p.1 - meanA), s.nan⟩

def welfordCov (ps : List (K × K)) : CState K := ps.foldl CState.update CState.init

/-- The diagonal adapter's state seen as a pair state with both streams equal. -/
def WState.toC (s : WState K) : CState K := ⟨s.iter, s.mean, s.mean, s.m2, false⟩

/-! ## Chan / Schubert–Gertz merge (`finalize`, adapters.py:490-505 and 618-635) -/

/-- One pass of the `else` branch of the loop over `adapt_states` (`i ≥ 1`).
`acc = (n_iter, mean_est, var_est)`, `s` = the chain's adapter state. -/
def mergeStep (acc : CState K) (s : CState K) : CState K :=
  let nIterPrev := acc.iter                              -- n_iter_prev = n_iter
  let nIter := acc.iter + s.iter                         -- n_iter += adapt_state["iter"]
  let mdA := acc.meanA - s.meanA                         -- mean_diff = mean_est - mean
  let mdB := acc.meanB - s.meanB
  -- mean_est *= n_iter_prev; mean_est += iter * mean; mean_est /= n_iter
  let meanA := (acc.meanA * (nIterPrev : K) + (s.iter : K) * s.meanA) / (nIter : K)
  let meanB := (acc.meanB * (nIterPrev : K) + (s.iter : K) * s.meanB) / (nIter : K)
  -- var_est += sum_diff_sq; var_est += mean_diff**2 * (iter * n_iter_prev) / n_iter
  -- (covariance: np.outer(mean_diff, mean_diff)[a,b] = mean_diff[a] * mean_diff[b])
  let c := acc.c + s.c + mdA * mdB * ((s.iter * nIterPrev : Nat) : K) / (nIter : K)
  -- NumPy: x / 0 with integer 0 gives NaN (0/0) in every entry, silently
  ⟨nIter, meanA, meanB, c, acc.nan || s.nan || nIter == 0⟩

/-- The whole loop: the first state initialises the accumulators, the others are merged in
list order.  (An empty list of chains leaves `n_iter` unbound in Python; `none`.) -/
def merge : List (CState K) → Option (CState K)
  | [] => none
  | s0 :: rest => some (rest.foldl mergeStep s0)

/-! ## Variance / covariance estimate, regularisation, metric -/

inductive AdaptErr | tooFewSamples | hInitNaN | noInitStepSize
  deriving DecidableEq, Repr

/-- `_regularize_var_est` (diagonal adapter, adapters.py:467-471): skipped when the offset is 0. -/
def regularizeVar (off : Nat) (scale : K) (v : K) (n : Nat) : K :=
  if off != 0 then
    v * ((n : K) / ((off + n : Nat) : K)) + scale * ((off : K) / ((off + n : Nat) : K))
  else v

/-- `_regularize_covar_est` (adapters.py:597-601) for entry `(a,b)`; `diag = (a == b)`. -/
def regularizeCov (off : Nat) (scale : K) (v : K) (n : Nat) (diag : Bool) : K :=
  let v := v * ((n : K) / ((off + n : Nat) : K))
  if diag then v + scale * ((off : K) / ((off + n : Nat) : K)) else v

/-- Lines 506-510: `n_iter < 2` raises, otherwise `var_est /= n_iter - 1` and regularise. -/
def finalizeVar (off : Nat) (scale : K) (acc : CState K) : Except AdaptErr K :=
  if acc.iter < 2 then .error .tooFewSamples
  else .ok (regularizeVar off scale (acc.c / ((acc.iter - 1 : Nat) : K)) acc.iter)

/-- Lines 636-640 for entry `(a,b)`. -/
def finalizeCov (off : Nat) (scale : K) (diag : Bool) (acc : CState K) : Except AdaptErr K :=
  if acc.iter < 2 then .error .tooFewSamples
  else .ok (regularizeCov off scale (acc.c / ((acc.iter - 1 : Nat) : K)) acc.iter diag)

/-- `PositiveDiagonalMatrix(var_est).inv`: the metric's diagonal entry. -/
def metricDiag (v : K) : K := 1 / v

/-- The complete diagonal adapter for one component: per-chain position streams in, metric
diagonal entry out. -/
def varianceAdapter (off : Nat) (scale : K) (chains : List (List K)) : Except AdaptErr K :=
  match merge (chains.map (fun xs => (welford xs).toC)) with
  | none => .error .tooFewSamples
  | some acc => (finalizeVar off scale acc).map metricDiag

/-- The covariance estimate entry `(a,b)` from per-chain streams of pairs. -/
def covarianceEntry (off : Nat) (scale : K) (diag : Bool) (chains : List (List (K × K))) :
    Except AdaptErr K :=
  match merge (chains.map welfordCov) with
  | none => .error .tooFewSamples
  | some acc => finalizeCov off scale diag acc

/-! ### Momentum refresh (adapters.py:511-514 / 641-644)

After the metric is replaced every chain state gets `mom = system.sample_momentum(state, rng)`
drawn with the chain's own generator under the *new* metric. -/

def refreshMomenta {Met St Rng Mom : Type} (sample : Met → St → Rng → Mom) (newMetric : Met)
    (chains : List (St × Rng)) : List Mom :=
  chains.map (fun (s, r) => sample newMetric s r)

/-! ## Dual averaging (`DualAveragingStepSizeAdapter`) -/

/-- Constructor arguments plus the three real functions applied by `update`. -/
structure DAParams (K : Type) where
  target : K            -- adapt_stat_target
  regCoeff : K          -- log_step_size_reg_coefficient
  iterOffset : K        -- iter_offset
  sqrtIter : Nat → K    -- iter ** 0.5
  smoothW : Nat → K     -- (1 / iter) ** iter_decay_coeff
  exp : K → K           -- math.exp

structure DAState (K : Type) where
  iter : Nat
  smoothed : K          -- smoothed_log_step_size
  err : K               -- adapt_stat_error
  regTarget : K         -- log_step_size_reg_target
  deriving Repr

/-- `initialize` after the initial search returned `initStepSize`: `log10Init` stands for
`log(10 * init_step_size)`. -/
def DAState.init (regTargetParam : Option K) (log10Init : K) : DAState K :=
  ⟨0, 0, 0, match regTargetParam with | none => log10Init | some t => t⟩

/-- `log_step_size` computed by `update` (adapters.py:366-370) from the new error and iter. -/
def DAParams.logStep (P : DAParams K) (regTarget err : K) (iter : Nat) : K :=
  regTarget - err * P.sqrtIter iter / P.regCoeff

/-- `update` (adapters.py:359-373); `a` is `adapt_stat_func(trans_stats)`.  Returns the new
state and the value assigned to `integrator.step_size`. -/
def DAState.update (P : DAParams K) (s : DAState K) (a : K) : DAState K × K :=
  let iter := s.iter + 1
  let errorWeight := 1 / (P.iterOffset + (iter : K))
  let err := s.err * (1 - errorWeight) + errorWeight * (P.target - a)
  let smoothingWeight := P.smoothW iter
  let logStepSize := P.logStep s.regTarget err iter
  let smoothed := s.smoothed * (1 - smoothingWeight) + smoothingWeight * logStepSize
  (⟨iter, smoothed, err, s.regTarget⟩, P.exp logStepSize)

/-- State after the statistics `as` (in order). -/
def DAState.run (P : DAParams K) (s : DAState K) (as : List K) : DAState K :=
  as.foldl (fun s a => (s.update P a).1) s

/-- All step sizes set during the updates. -/
def DAState.stepSizes (P : DAParams K) (s : DAState K) : List K → List K
  | [] => []
  | a :: as => (s.update P a).2 :: DAState.stepSizes P (s.update P a).1 as

/-- `log_step_size` values of the successive updates. -/
def DAState.logSteps (P : DAParams K) (s : DAState K) : List K → List K
  | [] => []
  | a :: as =>
    let s' := (s.update P a).1
    P.logStep s'.regTarget s'.err s'.iter :: DAState.logSteps P s' as

/-- The three reducers of the module. -/
def arithMeanReducer (exp : K → K) (ls : List K) : K :=
  (ls.map exp).foldl (· + ·) 0 / (ls.length : K)

def geomMeanReducer (exp : K → K) (ls : List K) : K :=
  exp (ls.foldl (· + ·) 0 / (ls.length : K))

/-- `finalize`: a single state (dict) gives `exp(smoothed)`, a list of states the reducer
applied to the list of `smoothed_log_step_size`. -/
def daFinalize (exp : K → K) (reducer : List K → K) : DAState K ⊕ List (DAState K) → K
  | .inl s => exp s.smoothed
  | .inr l => reducer (l.map (·.smoothed))

end

section
variable {K : Type} [Min K]

def minReducer (exp : K → K) : List K → Option K
  | [] => none                                    -- min([]) raises ValueError
  | x :: xs => some (exp (xs.foldl min x))
end

/-! ## Initial step-size search (`_find_and_set_init_step_size`, adapters.py:317-350)

The step size is always `2^e` for an integer exponent `e` (`integrator.step_size = 1`,
then `/= 2` or `*= 2`).  The integrator and the Hamiltonian are abstracted to the oracle
`dH e` = what happens at step size `2^e`: the step raises `IntegratorError` (`err`), or
`delta_h = abs(h_init - h(state))` is NaN (`nan`), `+inf` (`inf`) or a number. -/

inductive Outcome (K : Type) | err | nan | inf | val (q : K)
  deriving Repr

section
variable {K : Type} [LT K] [LE K] [DecidableLT K] [DecidableLE K]

/-- The `for s in range(max_init_step_size_iters)` loop.  `fuel` = iterations left,
`first` = (`s == 0`), `e` = current exponent, `tooBig` = `step_size_too_big` (unbound at
`s = 0` in Python, where it is always assigned before use). -/
def searchLoop (dH : Int → Outcome K) (thr : K) :
    Nat → Bool → Int → Bool → Except AdaptErr Int
  | 0, _, _, _ => .error .noInitStepSize
  | fuel + 1, first, e, tooBig =>
    match dH e with
    | .err =>                                  -- except IntegratorError
      searchLoop dH thr fuel false (e - 1) true
    | .nan =>
      -- too_big = True; both comparisons with NaN are False: no return; step_size /= 2
      searchLoop dH thr fuel false (e - 1) true
    | .inf =>
      let tooBig := if first then true else tooBig
      -- (too_big and inf <= thr) or (not too_big and inf > thr)
      if !tooBig then .ok e
      else searchLoop dH thr fuel false (e - 1) tooBig
    | .val q =>
      let tooBig := if first then decide (thr < q) else tooBig
      if (tooBig && decide (q ≤ thr)) || (!tooBig && decide (thr < q)) then .ok e
      else if tooBig then searchLoop dH thr fuel false (e - 1) tooBig
      else searchLoop dH thr fuel false (e + 1) tooBig

/-- `_find_and_set_init_step_size`: returns the exponent of the step size found. -/
def findInitStepSize (hInitNaN : Bool) (maxIters : Nat) (dH : Int → Outcome K) (thr : K) :
    Except AdaptErr Int :=
  if hInitNaN then .error .hInitNaN else searchLoop dH thr maxIters true 0 false

/-- "step size `2^e` is too big": the step fails, `delta_h` is NaN, or `delta_h > thr`. -/
def Outcome.tooBig (thr : K) : Outcome K → Bool
  | .err => true | .nan => true | .inf => true | .val q => decide (thr < q)

end

/-! ## Whole-method models (constructor, `initialize`, whole `finalize`)

Added for the source translation of the complete methods (`Generated/AdaptersSrc.lean`,
`Props/C17S.lean`); everything above is unchanged. -/

/-- Which function `self.adapt_stat_func` is after `__init__`. -/
inductive StatFuncSel (Fn : Type) | acceptStat | custom (f : Fn)
  deriving DecidableEq, Repr

/-- Which function `self.log_step_size_reducer` is after `__init__`: one of the three reducers of the
module or a user function. -/
inductive ReducerSel (Red : Type) | arith | geom | min | custom (f : Red)
  deriving DecidableEq, Repr

/-- The attributes stored by `DualAveragingStepSizeAdapter.__init__` (adapters.py:251-264). -/
structure DAConfig (K Fn Red : Type) where
  adaptStatTarget : K
  adaptStatFunc : StatFuncSel Fn
  regTarget : Option K
  regCoeff : K
  iterDecayCoeff : K
  iterOffset : Nat
  maxInitStepSizeIters : Nat
  reducer : ReducerSel Red

/-- `DualAveragingStepSizeAdapter.__init__`: every argument is stored unchanged (no validation), except
that `None` for the statistic function selects `default_adapt_stat_func` (`stats["accept_stat"]`) and
`None` for the reducer selects the **arithmetic** mean of the per-chain step sizes. -/
def DAConfig.init {K Fn Red : Type} (adaptStatTarget : K) (adaptStatFunc : Option Fn)
    (regTarget : Option K) (regCoeff iterDecayCoeff : K) (iterOffset maxInitStepSizeIters : Nat)
    (reducer : Option Red) : DAConfig K Fn Red :=
  ⟨adaptStatTarget, (match adaptStatFunc with | none => .acceptStat | some f => .custom f), regTarget,
   regCoeff, iterDecayCoeff, iterOffset, maxInitStepSizeIters,
   (match reducer with | none => .arith | some f => .custom f)⟩

/-- Default values of the constructor arguments (exact rationals of the decimal literals; `true` = the
default is `None`). -/
structure DADefaults where
  adaptStatTarget : Rat
  adaptStatFuncNone : Bool
  regTarget : Option Rat
  regCoeff : Rat
  iterDecayCoeff : Rat
  iterOffset : Nat
  maxInitStepSizeIters : Nat
  reducerNone : Bool
  deriving DecidableEq, Repr

/-- The documented defaults (Hoffman & Gelman 2014): δ = 0.8, μ = `None` (→ log(10 ε₀)), γ = 0.05,
κ = 0.75, t₀ = 10; at most 100 iterations of the initial search. -/
def daDefaults : DADefaults := ⟨4 / 5, true, none, 1 / 20, 3 / 4, 10, 100, true⟩

/-- Defaults of both metric adapters: `reg_iter_offset = 5`, `reg_scale = 1e-3`. -/
def metricAdapterDefaults : Nat × Rat := (5, 1 / 1000)

/-- `initialize` of the dual-averaging adapter as a function of the natural logarithm and the step
size found by the search: `DAState.init` with `log(10 * init_step_size)`. -/
def DAState.initialize {K : Type} [Zero K] [Mul K] [NatCast K] (regTargetParam : Option K)
    (log : K → K) (initStepSize : K) : DAState K :=
  DAState.init regTargetParam (log (((10 : Nat) : K) * initStepSize))

/-- The matrix class of the new metric. -/
inductive MetricClass | positiveDiagonal | densePositiveDefinite
  deriving DecidableEq, Repr

/-- `transition.system.metric = <cls>(<est>).inv`: the class applied to the (regularised) estimate and
whether the inverse is taken (`est` is one entry of the array handed to the constructor). -/
structure MetricAssign (K : Type) where
  cls : MetricClass
  inverse : Bool
  est : K
  deriving DecidableEq, Repr

/-- The value (diagonal entry) of a diagonal metric described by a `MetricAssign`. -/
def MetricAssign.diagEntry {K : Type} [One K] [Div K] (a : MetricAssign K) : K :=
  if a.inverse then metricDiag a.est else a.est

/-- The accumulation block of `finalize` (adapters.py:480-505 / 608-635): a single adapter state (a
`dict`) is used as it is, a list of states is merged in list order.  Only `n_iter` and the estimate are
used afterwards. -/
def accumulate {K : Type} [Zero K] [One K] [Add K] [Sub K] [Mul K] [Div K] [NatCast K] :
    CState K ⊕ List (CState K) → Option (Nat × K)
  | .inl s => some (s.iter, s.c)
  | .inr l => (merge l).map (fun a => (a.iter, a.c))

/-- One pass of the final loop of `finalize` (adapters.py:511-514 / 641-644): `chain_state.pos =
chain_state.pos` (`clear`: drops every cached value depending on the position, in particular those
computed with the previous metric), then the momentum is redrawn with the chain's own generator under
the new metric. -/
def refreshChain {Met St Rng Mom : Type} (clear : St → St) (setMom : St → Mom → St)
    (sample : Met → St → Rng → Mom) (m : Met) (c : St × Rng) : St :=
  let s := clear c.1
  setMom s (sample m s c.2)

/-- The whole `finalize` of a metric adapter for one entry of the estimate: accumulate, raise for
fewer than two samples, normalise and regularise (`fin`), build the new metric (`mk` abstracts the
matrix classes), refresh every chain.  Result: the new metric and the updated chain states. -/
def finalizeWhole {K Met St Rng Mom : Type} [Zero K] [One K] [Add K] [Sub K] [Mul K] [Div K] [NatCast K]
    (cls : MetricClass) (fin : CState K → Except AdaptErr K) (mk : MetricAssign K → Met)
    (clear : St → St) (setMom : St → Mom → St) (sample : Met → St → Rng → Mom)
    (x : CState K ⊕ List (CState K)) (chains : List (St × Rng)) : Except AdaptErr (Met × List St) :=
  match accumulate x with
  | none => .error .tooFewSamples
  | some (n, est) =>
    match fin ⟨n, 0, 0, est, false⟩ with
    | .error e => .error e
    | .ok v =>
      let m := mk ⟨cls, true, v⟩
      .ok (m, chains.map (refreshChain clear setMom sample m))

/-! ## Exact linear algebra used by the driver for `DensePositiveDefiniteMatrix(cov).inv`

"Inverses are checked data": the driver computes `X` by Gauss–Jordan elimination over `Rat`
and *decides* `cov * X = 1` before reporting it. -/

section
variable {K : Type} [Zero K] [One K] [Add K] [Sub K] [Mul K] [Div K] [DecidableEq K]

def matMul (a b : List (List K)) : List (List K) :=
  a.map (fun row =>
    (List.range (b.headD []).length).map (fun j =>
      (row.zip b).foldl (fun acc (x, brow) => acc + x * brow.getD j 0) 0))

def identity (n : Nat) : List (List K) :=
  (List.range n).map (fun i => (List.range n).map (fun j => if i = j then 1 else 0))

/-- Gauss–Jordan on the augmented rows; `none` if a pivot cannot be found. -/
def gaussJordan (n : Nat) (rows : List (List K)) : Option (List (List K)) :=
  (List.range n).foldlM (fun (rows : List (List K)) col =>
    -- pivot row: first row at or below `col` with non-zero entry in column `col`
    match (List.range n).find? (fun r => col ≤ r ∧ (rows.getD r []).getD col 0 ≠ 0) with
    | none => none
    | some p =>
      let rp := rows.getD p []
      let rc := rows.getD col []
      let rows := (rows.set p rc).set col rp
      let piv := rp.getD col 0
      let rp := rp.map (· / piv)
      let rows := rows.set col rp
      some ((List.range n).zip rows |>.map (fun (i, r) =>
        if i = col then r else
          let f := r.getD col 0
          (r.zip rp).map (fun (x, y) => x - f * y)))) rows

def matInv (a : List (List K)) : Option (List (List K)) :=
  let n := a.length
  let aug := (a.zip (identity n)).map (fun (r, i) => r ++ i)
  (gaussJordan n aug).map (fun rows => rows.map (fun r => r.drop n))

end

end MiciVerif.Adapters
