/-
Deep embedding of the method bodies of `mici/systems.py`.

`tools/extractors/system_methods.py` translates the BODY of every method of every system class
(pure `ast`) into a term of the small statement / expression language below and writes the
table `Generated/SystemMethods.lean` (`body : Cls → Meth → Option MethodDef`, `mro : Cls → List Cls`)
on every run.  This file holds the language and its evaluator; `Props/C05S.lean`, `C07S.lean`,
`C08S.lean` prove that evaluating the generated bodies gives the hand-written models
(`Model/Systems.lean`, the flows of `Model/Integrators.lean`, `Model/Momentum.lean`,
`Constrained.project`), so that the theorems about those models are theorems about the source
text that is in the tree now.

Semantics (what is modelled, what is data)
* Values are dynamically shaped: scalars, vectors over the position index `n`, the constraint
  index `c`, the metric-parameter index `κ`, the four matrix shapes over `n`/`c`, a *matrix
  object* (what the code uses of a `mici.matrices` object: `.inv .sqrt .eigvec .eigval
  .log_abs_det .grad_log_abs_det .grad_quadratic_form_inv`), the two kinds of callables returned
  by user functions (`vjp_metric_func(state)`, `mhp_constr(state)`), pairs, `None`, and `err`
  (shape error / not modelled: every operation is strict in `err`).
* NumPy operators: `+ - *` by shape (scalar broadcasting), `/` is multiplication by `recip`
  (checked data, `x⁻¹` over a field), `@` by shape (dot product, matrix-vector, vector-matrix,
  matrix-matrix), `** 0.5`, `sin`, `cos` elementwise through the functions of the environment.
* `self.metric`, `self._metric_matrix_class(θ, …)`, the inverse and log|det| of the Gram matrix
  object, the user functions, the flag `dens_wrt_hausdorff`, the literal `0.5` and the normal
  draw of the generator are fields of the environment `Env`.
* Method calls `self.m(state, …)` are resolved through the generated MRO of the *dynamic* class
  (`super().m(…)` continues after the defining class), evaluated with fuel, and must be pure
  (a callee that assigns to `state.pos`/`state.mom` makes the call `err`).
* Statements: local assignment, `state.pos/mom (op)= e`, `local (op)= e`, `return e`,
  `if <flag or is-None test>: return e`.
-/
import Mathlib.Data.Matrix.Mul
import Mathlib.Data.Matrix.Diagonal
import Mathlib.LinearAlgebra.Matrix.Determinant.Basic

namespace MiciVerif.SysExpr
open Matrix

/-! ### names -/

/-- The classes of `systems.py` the translator knows (`unknown`: anything else, fail closed). -/
inductive Cls
  | System | TractableFlowSystem | EuclideanMetricSystem | GaussianEuclideanMetricSystem
  | ConstrainedTractableFlowSystem | ConstrainedEuclideanMetricSystem
  | DenseConstrainedEuclideanMetricSystem | GaussianDenseConstrainedEuclideanMetricSystem
  | RiemannianMetricSystem | ScalarRiemannianMetricSystem | DiagonalRiemannianMetricSystem
  | CholeskyFactoredRiemannianMetricSystem | DenseRiemannianMetricSystem
  | SoftAbsRiemannianMetricSystem | unknown
  deriving DecidableEq, Repr

/-- Method names. -/
inductive Meth
  | neg_log_dens | grad_neg_log_dens | h | h1 | h2 | dh1_dpos | dh2_dpos | dh2_dmom | dh_dpos
  | dh_dmom | h1_flow | h2_flow | dh2_flow_dmom | sample_momentum | project_onto_cotangent_space
  | constr | jacob_constr | jacob_constr_inner_product | gram | inv_gram | log_det_sqrt_gram
  | grad_log_det_sqrt_gram | mhp_constr | metric_func | vjp_metric_func | metric
  | hess_neg_log_dens | mtp_neg_log_dens | unknown
  deriving DecidableEq, Repr

/-- User functions stored by `__init__` (`self._neg_log_dens`, …), always applied to `state.pos`. -/
inductive UserFn
  | neg_log_dens | grad_neg_log_dens | constr | jacob_constr | mhp_constr | metric_func
  | vjp_metric_func | hess_neg_log_dens | mtp_neg_log_dens
  deriving DecidableEq, Repr

/-- Attributes of matrix objects / arrays. -/
inductive Attr
  | inv | sqrt | T | eigval | eigvec | log_abs_det | grad_log_abs_det
  deriving DecidableEq, Repr

/-- `matrices.Dense…Matrix(array)` wrappers (the class only matters for how `.inv` is computed). -/
inductive DenseKind | posDef | symmetric | square
  deriving DecidableEq, Repr

/-! ### syntax -/

inductive SExpr
  /-- a shape the translator does not represent (fail closed) -/
  | unknown (why : String)
  | noarg
  | noneLit
  /-- the literals `0.5`, `1.0`/`1` -/
  | half
  | one
  /-- `state.pos`, `state.mom` -/
  | pos
  | mom
  /-- parameter / local variable number `i` of the method -/
  | var (i : Nat)
  /-- `self.metric` (an attribute: Euclidean family) -/
  | metricAttr
  /-- `self._f(state.pos)` -/
  | user (f : UserFn) (x : SExpr)
  /-- `rng.standard_normal(state.pos.shape)` / `rng.normal(size=state.pos.shape)` -/
  | normal
  | attr (a : Attr) (e : SExpr)
  /-- `obj.grad_quadratic_form_inv(v)` -/
  | gradQuadFormInv (obj v : SExpr)
  | add (a b : SExpr)
  | sub (a b : SExpr)
  | mul (a b : SExpr)
  | div (a b : SExpr)
  | matmul (a b : SExpr)
  | neg (a : SExpr)
  /-- `a ** 0.5` -/
  | sqrtPow (a : SExpr)
  | sin (a : SExpr)
  | cos (a : SExpr)
  /-- `np.zeros_like(a)` -/
  | zerosLike (a : SExpr)
  /-- `np.array(a)` -/
  | copy (a : SExpr)
  /-- `matrices.IdentityMatrix(self.metric.shape[0])` -/
  | identityN
  /-- `matrices.EigendecomposedSymmetricMatrix(eigvec, eigval)` -/
  | eigMat (Q d : SExpr)
  | dense (k : DenseKind) (a : SExpr)
  /-- `self._metric_matrix_class(θ, <kw>)`; `kw = 0`: `**self._metric_kwargs`,
  `kw = 1`: `size=state.pos.shape[0]` -/
  | mkMetric (θ : SExpr) (kw : Nat)
  /-- `self.m(state?, a, b, c)` (the `state` argument is implicit; absent arguments are `noarg`) -/
  | call (m : Meth) (a b c : SExpr)
  /-- `super().m(state?, a, b, c)` -/
  | superCall (m : Meth) (a b c : SExpr)
  /-- `f(x)` for a local variable holding a callable -/
  | apply (f x : SExpr)
  /-- `(a, b)` -/
  | pair (a b : SExpr)
  deriving Repr

inductive Cond
  /-- `self.dens_wrt_hausdorff` -/
  | densWrtHausdorff
  /-- `v_i is None or v_i is v_j` -/
  | isNoneOrSame (i j : Nat)
  | unknown (why : String)
  deriving Repr

inductive Stmt
  | unknown (why : String)
  /-- `v_i = e` -/
  | assign (i : Nat) (e : SExpr)
  /-- `v_i += e`, `v_i -= e` -/
  | augAdd (i : Nat) (e : SExpr)
  | augSub (i : Nat) (e : SExpr)
  /-- `state.pos = e`, `state.pos += e`, `state.pos -= e` -/
  | setPos (e : SExpr)
  | addPos (e : SExpr)
  | subPos (e : SExpr)
  | setMom (e : SExpr)
  | addMom (e : SExpr)
  | subMom (e : SExpr)
  | ret (e : SExpr)
  /-- `if cond: return e` -/
  | ifRet (c : Cond) (e : SExpr)
  deriving Repr

/-- A method: number of parameters besides `self` and `state` (they are `var 0 … var (nparams-1)`),
and its body. -/
structure MethodDef where
  nparams : Nat
  body : List Stmt
  deriving Repr

/-- What the translator emits. -/
structure Table where
  mro : Cls → List Cls
  body : Cls → Meth → Option MethodDef

/-! ### values -/

/-- What the system code uses of a `mici.matrices` object of shape `n × n`. -/
structure MatObj (R : Type*) (n κ : Type*) where
  inv : Matrix n n R
  sqrt : Matrix n n R
  eigvec : Matrix n n R
  eigval : n → R
  logAbsDet : R
  gradLogAbsDet : κ → R
  gradQuadFormInv : (n → R) → κ → R

inductive Val (R : Type*) (n c κ : Type*)
  | sc (x : R)
  | vn (v : n → R)
  | vc (v : c → R)
  | vk (v : κ → R)
  | mnn (A : Matrix n n R)
  | mcn (A : Matrix c n R)
  | mnc (A : Matrix n c R)
  | mcc (A : Matrix c c R)
  | mobj (M : MatObj R n κ)
  | fnK (f : (κ → R) → n → R)
  | fnC (f : Matrix c n R → n → R)
  | pair (a b : Val R n c κ)
  | none
  | absent
  | err

/-- Everything that is data for the method bodies. -/
structure Env (R : Type*) (n c κ : Type*) where
  half : R
  recip : R → R
  sqrt : R → R
  sin : R → R
  cos : R → R
  logabs : R → R
  /-- `self.metric` -/
  metric : MatObj R n κ
  /-- `self._metric_matrix_class(θ, …)` -/
  metricClass : (κ → R) → MatObj R n κ
  /-- `.inv` of the Gram matrix object -/
  invCC : Matrix c c R → Matrix c c R
  densWrtHausdorff : Bool
  negLogDens : (n → R) → R
  gradNegLogDens : (n → R) → n → R
  constr : (n → R) → c → R
  jacobConstr : (n → R) → Matrix c n R
  mhpConstr : (n → R) → Matrix c n R → n → R
  metricFunc : (n → R) → κ → R
  vjpMetricFunc : (n → R) → (κ → R) → n → R
  hessNegLogDens : (n → R) → κ → R
  mtpNegLogDens : (n → R) → (κ → R) → n → R
  /-- the standard-normal draw -/
  z : n → R

section Eval
variable {R : Type*} [CommRing R] {n c κ : Type*} [Fintype n] [Fintype c] [DecidableEq n]
  [DecidableEq c]

namespace Val

def add : Val R n c κ → Val R n c κ → Val R n c κ
  | sc x, b => (match b with | sc y => sc (x + y) | _ => err)
  | vn x, b => (match b with | vn y => vn (x + y) | _ => err)
  | vc x, b => (match b with | vc y => vc (x + y) | _ => err)
  | vk x, b => (match b with | vk y => vk (x + y) | _ => err)
  | mnn x, b => (match b with | mnn y => mnn (x + y) | _ => err)
  | mcc x, b => (match b with | mcc y => mcc (x + y) | _ => err)
  | _, _ => err

def sub : Val R n c κ → Val R n c κ → Val R n c κ
  | sc x, b => (match b with | sc y => sc (x - y) | _ => err)
  | vn x, b => (match b with | vn y => vn (x - y) | _ => err)
  | vc x, b => (match b with | vc y => vc (x - y) | _ => err)
  | vk x, b => (match b with | vk y => vk (x - y) | _ => err)
  | mnn x, b => (match b with | mnn y => mnn (x - y) | _ => err)
  | mcc x, b => (match b with | mcc y => mcc (x - y) | _ => err)
  | _, _ => err

/-- NumPy `*`: scalar broadcasting and elementwise products. -/
def mul : Val R n c κ → Val R n c κ → Val R n c κ
  | sc x, b => (match b with
      | sc y => sc (x * y) | vn y => vn (x • y) | vc y => vc (x • y) | vk y => vk (x • y)
      | mnn y => mnn (x • y) | mcn y => mcn (x • y) | mnc y => mnc (x • y) | mcc y => mcc (x • y)
      | _ => err)
  | vn x, b => (match b with | vn y => vn (x * y) | sc y => vn (y • x) | _ => err)
  | vc x, b => (match b with | vc y => vc (x * y) | sc y => vc (y • x) | _ => err)
  | vk x, b => (match b with | vk y => vk (x * y) | sc y => vk (y • x) | _ => err)
  | mnn x, b => (match b with | sc y => mnn (y • x) | _ => err)
  | _, _ => err

/-- NumPy `/` with `recip` for `1/x`. -/
def div (recip : R → R) : Val R n c κ → Val R n c κ → Val R n c κ
  | sc x, b => (match b with
      | sc y => sc (x * recip y) | vn y => vn (fun i => x * recip (y i)) | _ => err)
  | vn x, b => (match b with
      | vn y => vn (fun i => x i * recip (y i)) | sc y => vn (fun i => x i * recip y) | _ => err)
  | _, _ => err

/-- NumPy `@`. -/
def matmul : Val R n c κ → Val R n c κ → Val R n c κ
  | vn x, b => (match b with | vn y => sc (x ⬝ᵥ y) | mnn y => vn (x ᵥ* y) | mnc y => vc (x ᵥ* y) | _ => err)
  | vc x, b => (match b with | vc y => sc (x ⬝ᵥ y) | mcn y => vn (x ᵥ* y) | mcc y => vc (x ᵥ* y) | _ => err)
  | mnn x, b => (match b with | vn y => vn (x *ᵥ y) | mnn y => mnn (x * y) | mnc y => mnc (x * y) | _ => err)
  | mcn x, b => (match b with | vn y => vc (x *ᵥ y) | mnn y => mcn (x * y) | mnc y => mcc (x * y) | _ => err)
  | mnc x, b => (match b with | vc y => vn (x *ᵥ y) | mcn y => mnn (x * y) | mcc y => mnc (x * y) | _ => err)
  | mcc x, b => (match b with | vc y => vc (x *ᵥ y) | mcn y => mcn (x * y) | mcc y => mcc (x * y) | _ => err)
  | _, _ => err

def neg : Val R n c κ → Val R n c κ
  | sc x => sc (-x) | vn x => vn (-x) | vc x => vc (-x) | vk x => vk (-x)
  | mnn x => mnn (-x) | mcn x => mcn (-x) | mnc x => mnc (-x) | mcc x => mcc (-x)
  | _ => err

/-- elementwise application of a scalar function -/
def map (f : R → R) : Val R n c κ → Val R n c κ
  | sc x => sc (f x) | vn x => vn (fun i => f (x i)) | vc x => vc (fun i => f (x i))
  | vk x => vk (fun i => f (x i))
  | _ => err

def zerosLike : Val R n c κ → Val R n c κ
  | sc _ => sc 0 | vn _ => vn 0 | vc _ => vc 0 | vk _ => vk 0
  | _ => err

/-- `np.array(x)` -/
def copy : Val R n c κ → Val R n c κ
  | sc x => sc x | vn x => vn x | vc x => vc x | vk x => vk x
  | _ => err

/-- continuation-passing identity that inspects the constructor (so that evaluation by `whnf`
evaluates the components of a tuple) -/
def strict (k : Val R n c κ → Val R n c κ) : Val R n c κ → Val R n c κ
  | sc x => k (sc x) | vn x => k (vn x) | vc x => k (vc x) | vk x => k (vk x)
  | mnn x => k (mnn x) | mcn x => k (mcn x) | mnc x => k (mnc x) | mcc x => k (mcc x)
  | mobj M => k (mobj M) | fnK f => k (fnK f) | fnC f => k (fnC f) | pair a b => k (pair a b)
  | none => k none | absent => k absent | err => k err

/-- `(a, b)` -/
def mkPair (a b : Val R n c κ) : Val R n c κ :=
  a.strict fun a' => b.strict fun b' => pair a' b'

def isNone : Val R n c κ → Bool
  | none => true
  | _ => false

end Val

/-- attribute access -/
def evalAttr (E : Env R n c κ) (a : Attr) : Val R n c κ → Val R n c κ
  | .mobj M => (match a with
      | .inv => .mnn M.inv | .sqrt => .mnn M.sqrt | .eigvec => .mnn M.eigvec | .eigval => .vn M.eigval
      | .log_abs_det => .sc M.logAbsDet | .grad_log_abs_det => .vk M.gradLogAbsDet
      | .T => .err)
  | .mnn A => (match a with | .T => .mnn Aᵀ | _ => .err)
  | .mcn A => (match a with | .T => .mnc Aᵀ | _ => .err)
  | .mnc A => (match a with | .T => .mcn Aᵀ | _ => .err)
  | .mcc A => (match a with
      | .T => .mcc Aᵀ | .inv => .mcc (E.invCC A) | .log_abs_det => .sc (E.logabs A.det)
      | _ => .err)
  | _ => .err

def evalUser (E : Env R n c κ) (f : UserFn) : Val R n c κ → Val R n c κ
  | .vn q => (match f with
      | .neg_log_dens => .sc (E.negLogDens q)
      | .grad_neg_log_dens => .vn (E.gradNegLogDens q)
      | .constr => .vc (E.constr q)
      | .jacob_constr => .mcn (E.jacobConstr q)
      | .mhp_constr => .fnC (E.mhpConstr q)
      | .metric_func => .vk (E.metricFunc q)
      | .vjp_metric_func => .fnK (E.vjpMetricFunc q)
      | .hess_neg_log_dens => .vk (E.hessNegLogDens q)
      | .mtp_neg_log_dens => .fnK (E.mtpNegLogDens q))
  | _ => .err

def evalApply : Val R n c κ → Val R n c κ → Val R n c κ
  | .fnK f, x => (match x with | .vk v => .vn (f v) | _ => .err)
  | .fnC f, x => (match x with | .mcn A => .vn (f A) | _ => .err)
  | _, _ => .err

def evalGradQuadFormInv : Val R n c κ → Val R n c κ → Val R n c κ
  | .mobj M, x => (match x with | .vn v => .vk (M.gradQuadFormInv v) | _ => .err)
  | _, _ => .err

def evalEigMat : Val R n c κ → Val R n c κ → Val R n c κ
  | .mnn Q, x => (match x with | .vn d => .mnn (Q * Matrix.diagonal d * Qᵀ) | _ => .err)
  | _, _ => .err

def evalDense : Val R n c κ → Val R n c κ
  | .mcc A => .mcc A
  | .mnn A => .mnn A
  | _ => .err

def evalMkMetric (E : Env R n c κ) : Val R n c κ → Val R n c κ
  | .vk θ => .mobj (E.metricClass θ)
  | _ => .err

/-- How method calls are evaluated: `callF isSuper m q p a b c`. -/
abbrev CallF (R : Type*) (n c κ : Type*) :=
  Bool → Meth → (n → R) → (n → R) → Val R n c κ → Val R n c κ → Val R n c κ → Val R n c κ

/-- Expression evaluation; `L` are the locals, `(q, p)` the current `state.pos`, `state.mom`. -/
def evalExpr (E : Env R n c κ) (callF : CallF R n c κ) (L : Nat → Val R n c κ) (q p : n → R) :
    SExpr → Val R n c κ
  | .unknown _ => .err
  | .noarg => .absent
  | .noneLit => .none
  | .half => .sc E.half
  | .one => .sc 1
  | .pos => .vn q
  | .mom => .vn p
  | .var i => L i
  | .metricAttr => .mobj E.metric
  | .user f x => evalUser E f (evalExpr E callF L q p x)
  | .normal => .vn E.z
  | .attr a e => evalAttr E a (evalExpr E callF L q p e)
  | .gradQuadFormInv o v => evalGradQuadFormInv (evalExpr E callF L q p o) (evalExpr E callF L q p v)
  | .add a b => (evalExpr E callF L q p a).add (evalExpr E callF L q p b)
  | .sub a b => (evalExpr E callF L q p a).sub (evalExpr E callF L q p b)
  | .mul a b => (evalExpr E callF L q p a).mul (evalExpr E callF L q p b)
  | .div a b => (evalExpr E callF L q p a).div E.recip (evalExpr E callF L q p b)
  | .matmul a b => (evalExpr E callF L q p a).matmul (evalExpr E callF L q p b)
  | .neg a => (evalExpr E callF L q p a).neg
  | .sqrtPow a => (evalExpr E callF L q p a).map E.sqrt
  | .sin a => (evalExpr E callF L q p a).map E.sin
  | .cos a => (evalExpr E callF L q p a).map E.cos
  | .zerosLike a => (evalExpr E callF L q p a).zerosLike
  | .copy a => (evalExpr E callF L q p a).copy
  | .identityN => .mnn 1
  | .eigMat Q d => evalEigMat (evalExpr E callF L q p Q) (evalExpr E callF L q p d)
  | .dense _ a => evalDense (evalExpr E callF L q p a)
  | .mkMetric θ _ => evalMkMetric E (evalExpr E callF L q p θ)
  | .call m a b c =>
      callF false m q p (evalExpr E callF L q p a) (evalExpr E callF L q p b) (evalExpr E callF L q p c)
  | .superCall m a b c =>
      callF true m q p (evalExpr E callF L q p a) (evalExpr E callF L q p b) (evalExpr E callF L q p c)
  | .apply f x => evalApply (evalExpr E callF L q p f) (evalExpr E callF L q p x)
  | .pair a b => Val.mkPair (evalExpr E callF L q p a) (evalExpr E callF L q p b)

/-- The state of a running method body. -/
structure Frame (R : Type*) (n c κ : Type*) where
  locals : Nat → Val R n c κ
  pos : n → R
  mom : n → R
  /-- `some v`: the body has returned `v` (`some err`: it failed) -/
  ret : Option (Val R n c κ)
  /-- the body assigned to `state.pos` / `state.mom` -/
  mutated : Bool

def setLocal (L : Nat → Val R n c κ) (i : Nat) (v : Val R n c κ) : Nat → Val R n c κ :=
  fun j => if j = i then v else L j

def evalCond (E : Env R n c κ) (L : Nat → Val R n c κ) : Cond → Option Bool
  | .densWrtHausdorff => some E.densWrtHausdorff
  | .isNoneOrSame i _ => if (L i).isNone then some true else Option.none
  | .unknown _ => Option.none

/-! The functions below destructure the frame by pattern matching (never by projections), so that
evaluating a method by `whnf`/`rfl` shares the already evaluated components. -/

/-- assign a vector value to a state variable -/
def Frame.setPos : Frame R n c κ → Val R n c κ → Frame R n c κ
  | ⟨L, _, p, r, _⟩, .vn v => ⟨L, v, p, r, true⟩
  | ⟨L, q, p, _, mt⟩, _ => ⟨L, q, p, some .err, mt⟩

def Frame.setMom : Frame R n c κ → Val R n c κ → Frame R n c κ
  | ⟨L, q, _, r, _⟩, .vn v => ⟨L, q, v, r, true⟩
  | ⟨L, q, p, _, mt⟩, _ => ⟨L, q, p, some .err, mt⟩

def Frame.setLoc : Frame R n c κ → Nat → Val R n c κ → Frame R n c κ
  | ⟨L, q, p, _, mt⟩, _, .err => ⟨L, q, p, some .err, mt⟩
  | ⟨L, q, p, r, mt⟩, i, v => ⟨setLocal L i v, q, p, r, mt⟩

def Frame.setRet : Frame R n c κ → Val R n c κ → Frame R n c κ
  | ⟨L, q, p, _, mt⟩, v => ⟨L, q, p, some v, mt⟩

/-- one statement (not executed once the body has returned) -/
def execStmt (E : Env R n c κ) (callF : CallF R n c κ) : Frame R n c κ → Stmt → Frame R n c κ
  | ⟨L, q, p, some r, mt⟩, _ => ⟨L, q, p, some r, mt⟩
  | ⟨L, q, p, Option.none, mt⟩, s =>
    let F : Frame R n c κ := ⟨L, q, p, Option.none, mt⟩
    match s with
    | .unknown _ => F.setRet .err
    | .assign i e => F.setLoc i (evalExpr E callF L q p e)
    | .augAdd i e => F.setLoc i ((L i).add (evalExpr E callF L q p e))
    | .augSub i e => F.setLoc i ((L i).sub (evalExpr E callF L q p e))
    | .setPos e => F.setPos (evalExpr E callF L q p e)
    | .addPos e => F.setPos ((Val.vn q).add (evalExpr E callF L q p e))
    | .subPos e => F.setPos ((Val.vn q).sub (evalExpr E callF L q p e))
    | .setMom e => F.setMom (evalExpr E callF L q p e)
    | .addMom e => F.setMom ((Val.vn p).add (evalExpr E callF L q p e))
    | .subMom e => F.setMom ((Val.vn p).sub (evalExpr E callF L q p e))
    | .ret e => F.setRet (evalExpr E callF L q p e)
    | .ifRet cnd e =>
      match evalCond E L cnd with
      | some true => F.setRet (evalExpr E callF L q p e)
      | some false => F
      | Option.none => F.setRet .err

def execBody (E : Env R n c κ) (callF : CallF R n c κ) (F : Frame R n c κ) (b : List Stmt) :
    Frame R n c κ :=
  b.foldl (execStmt E callF) F

/-- first class of `order` that defines `m` -/
def resolve (T : Table) (m : Meth) : List Cls → Option (Cls × MethodDef × List Cls)
  | [] => Option.none
  | C :: rest =>
    match T.body C m with
    | some d => some (C, d, rest)
    | Option.none => resolve T m rest

def initLocals (a₁ a₂ a₃ : Val R n c κ) : Nat → Val R n c κ :=
  fun j => if j = 0 then a₁ else if j = 1 then a₂ else if j = 2 then a₃ else .absent

/-- the value a call expression gets from the frame its callee ended in -/
def Frame.callResult : Frame R n c κ → Val R n c κ
  | ⟨_, _, _, _, true⟩ => .err
  | ⟨_, _, _, some v, false⟩ => v
  | ⟨_, _, _, Option.none, false⟩ => .none

/-- Run method `m`, looked up along `order` (a suffix of the MRO of the dynamic class `D`). -/
def runFrom (T : Table) (E : Env R n c κ) (D : Cls) :
    Nat → List Cls → Meth → (n → R) → (n → R) → Val R n c κ → Val R n c κ → Val R n c κ → Frame R n c κ
  | 0, _, _, q, p, _, _, _ => ⟨fun _ => .absent, q, p, some .err, false⟩
  | fuel + 1, order, m, q, p, a₁, a₂, a₃ =>
    match resolve T m order with
    | Option.none => ⟨fun _ => .absent, q, p, some .err, false⟩
    | some (_, d, rest) =>
      execBody E
        (fun sup m' q' p' b₁ b₂ b₃ =>
          (runFrom T E D fuel (if sup then rest else T.mro D) m' q' p' b₁ b₂ b₃).callResult)
        ⟨initLocals a₁ a₂ a₃, q, p, Option.none, false⟩ d.body

/-- `D().m(state, a₁, a₂, a₃)` with `state = (q, p)`. -/
def run (T : Table) (E : Env R n c κ) (D : Cls) (fuel : Nat) (m : Meth) (q p : n → R)
    (a₁ a₂ a₃ : Val R n c κ) : Frame R n c κ :=
  runFrom T E D fuel (T.mro D) m q p a₁ a₂ a₃

/-- the returned value of a value-returning method (`err` when it does not return) -/
def Frame.value : Frame R n c κ → Val R n c κ
  | ⟨_, _, _, some v, _⟩ => v
  | ⟨_, _, _, Option.none, _⟩ => .err

/-- what an in-place method (a flow) leaves behind: the new `(state.pos, state.mom)` when the body
ran to its end without returning a value, `err` otherwise -/
def Frame.state : Frame R n c κ → Val R n c κ
  | ⟨_, q, p, Option.none, _⟩ => .pair (.vn q) (.vn p)
  | ⟨_, _, _, some _, _⟩ => .err

/-- value of `D().m(state)` (fuel 16: the call graph of `systems.py` is less than 10 deep) -/
def Table.value (T : Table) (E : Env R n c κ) (D : Cls) (m : Meth) (q p : n → R) : Val R n c κ :=
  (run T E D 16 m q p .absent .absent .absent).value

/-- value of `D().m(state, a)` -/
def Table.value1 (T : Table) (E : Env R n c κ) (D : Cls) (m : Meth) (q p : n → R)
    (a : Val R n c κ) : Val R n c κ :=
  (run T E D 16 m q p a .absent .absent).value

/-- `(state.pos, state.mom)` after the in-place method `D().m(state, dt)` -/
def Table.flow (T : Table) (E : Env R n c κ) (D : Cls) (m : Meth) (t : R) (q p : n → R) :
    Val R n c κ :=
  (run T E D 16 m q p (.sc t) .absent .absent).state

/-- `{E with densWrtHausdorff := b}` -/
def Env.withFlag (E : Env R n c κ) (b : Bool) : Env R n c κ := { E with densWrtHausdorff := b }

end Eval

end MiciVerif.SysExpr
