/-
Model of the implicit integrators of `mici/integrators.py`:
`ImplicitLeapfrogIntegrator` (lines 504-555), `ImplicitMidpointIntegrator` (lines 655-692) and
`ConstrainedLeapfrogIntegrator` (lines 940-995) — line numbers as of repo commit 4c732fb.

* The fixed-point solver (`solve_fixed_point_direct` / `_steffensen`, or any user supplied one) is a
  PARAMETER `solve : (V → V) → V → Res V` (`func`, `x0` ↦ result or `ConvergenceError`).  It is a
  function: the same arguments give the same result (the real solvers are deterministic).
* The projection solver of the constrained integrator is a parameter
  `retr : K → V × V → V × V → Res (V × V)` (`time_step`, state after the unconstrained `h2_flow`,
  `state_prev` ↦ state with position retracted onto the manifold and momentum corrected).
* `reverse_check_norm(d) > reverse_check_tol` is a parameter `far : V → Bool`.
* Errors: `ConvergenceError` (raised inside a solver) and `NonReversibleStepError` (raised by a
  failed reverse check), both `IntegratorError`s.  A raised error aborts the whole `_step`
  (`Except` bind) and `Integrator.step` returns nothing — the caller's state is untouched because
  `step` works on a copy.
-/
import MiciVerif.Model.Integrators

namespace MiciVerif.Integrators

inductive IntErr
  | convergence
  | nonReversible
  deriving DecidableEq, Repr

abbrev Res (α : Type*) := Except IntErr α

section
variable {K V : Type*} [Field K] [AddCommGroup V] [Module K V]

/-! ### ImplicitLeapfrogIntegrator -/

/-- The system functions used by the implicit leapfrog integrator. -/
structure GLSystem (V : Type*) where
  /-- `dh1_dpos(q)` -/
  dh1 : V → V
  /-- `dh2_dpos(q, p)` -/
  dh2dq : V → V → V
  /-- `dh2_dmom(q, p)` -/
  dh2dp : V → V → V

variable (S : GLSystem V) (solve : (V → V) → V → Res V) (far : V → Bool)

/-- `_step_a`: `h1_flow`. -/
def glStepA (t : K) (x : V × V) : V × V := (x.1, x.2 - t • S.dh1 x.1)

/-- `_step_b_fwd`: `mom = solve(mom ↦ mom_init - t * dh2_dpos(pos, mom), mom_init)`. -/
def glStepBFwd (t : K) (x : V × V) : Res (V × V) := do
  let p ← solve (fun m => x.2 - t • S.dh2dq x.1 m) x.2
  pure (x.1, p)

/-- `_step_b_adj`: explicit update, then reverse check: run `_step_b_fwd(-t)` on a copy and
compare with the momentum before the update. -/
def glStepBAdj (t : K) (x : V × V) : Res (V × V) := do
  let y : V × V := (x.1, x.2 - t • S.dh2dq x.1 x.2)
  let back ← glStepBFwd S solve (-t) y
  if far (back.2 - x.2) then throw IntErr.nonReversible else pure y

/-- `_step_c_adj`: `pos = solve(pos ↦ pos_init + t * dh2_dmom(pos, mom), pos_init)`. -/
def glStepCAdj (t : K) (x : V × V) : Res (V × V) := do
  let q ← solve (fun r => x.1 + t • S.dh2dp r x.2) x.1
  pure (q, x.2)

/-- `_step_c_fwd`: explicit update, then reverse check with `_step_c_adj(-t)` on a copy. -/
def glStepCFwd (t : K) (x : V × V) : Res (V × V) := do
  let y : V × V := (x.1 + t • S.dh2dp x.1 x.2, x.2)
  let back ← glStepCAdj S solve (-t) y
  if far (back.1 - x.1) then throw IntErr.nonReversible else pure y

/-- `ImplicitLeapfrogIntegrator._step` (every sub-step uses `time_step / 2`). -/
def glStep (t : K) (x : V × V) : Res (V × V) := do
  let x₁ := glStepA S (t / 2) x
  let x₂ ← glStepBFwd S solve (t / 2) x₁
  let x₃ ← glStepCFwd S solve far (t / 2) x₂
  let x₄ ← glStepCAdj S solve (t / 2) x₃
  let x₅ ← glStepBAdj S solve far (t / 2) x₄
  pure (glStepA S (t / 2) x₅)

end

/-! ### `solve_fixed_point_direct` (solvers.py:47-94) -/

section
variable {K V : Type*} [Field K] [LinearOrder K] [Sub V]

/-- `solve_fixed_point_direct(func, x0, convergence_tol, divergence_tol, max_iters, norm)`:
```
for i in range(max_iters):
    x = func(x0); error = norm(x - x0)
    if error > divergence_tol or isnan(error): raise ConvergenceError
    if error < convergence_tol: return x
    x0 = x
raise ConvergenceError
```
(`fuel = max_iters`; over an exact field there are no NaNs and no `ValueError`s.) -/
def solveDirect (norm : V → K) (ctol dtol : K) : Nat → (V → V) → V → Res V
  | 0, _, _ => .error .convergence
  | fuel + 1, f, x0 =>
    let x := f x0
    let err := norm (x - x0)
    if err > dtol then .error .convergence
    else if err < ctol then .ok x
    else solveDirect norm ctol dtol fuel f x

/-- `reverse_check_norm(d) > reverse_check_tol`. -/
def farOf (norm : V → K) (tol : K) (d : V) : Bool := decide (norm d > tol)

end

/-- `maximum_norm`: `abs(vct).max()`. -/
def maxNorm {n : Nat} {K : Type*} [Field K] [LinearOrder K] (v : Fin n → K) : K :=
  (List.ofFn fun i => if v i < 0 then -v i else v i).foldl max 0

/-! ### ImplicitMidpointIntegrator -/

section
variable {K W : Type*} [Field K] [AddCommGroup W] [Module K W]

/- `W` is the space of concatenated `(pos, mom)` vectors (`np.concatenate` / `np.split`);
`f z = concatenate([dh_dmom(z), -dh_dpos(z)])` is the Hamiltonian vector field. -/
variable (f : W → W) (solve : (W → W) → W → Res W) (far : W → Bool)

/-- `_step_a_fwd`: implicit Euler, `z' = solve(y ↦ z + t f(y), z)`. -/
def imStepFwd (t : K) (z : W) : Res W := solve (fun y => z + t • f y) z

/-- `_step_a_adj`: explicit Euler, then reverse check with `_step_a_fwd(-t)` on a copy. -/
def imStepAdj (t : K) (z : W) : Res W := do
  let y := z + t • f z
  let back ← imStepFwd f solve (-t) y
  if far (back - z) then throw IntErr.nonReversible else pure y

/-- `ImplicitMidpointIntegrator._step`. -/
def imStep (t : K) (z : W) : Res W := do
  let z₁ ← imStepFwd f solve (t / 2) z
  imStepAdj f solve far (t / 2) z₁

end

/-! ### ConstrainedLeapfrogIntegrator -/

section
variable {K V : Type*} [Field K] [AddCommGroup V] [Module K V]

/-- The system functions used by the constrained leapfrog integrator. -/
structure ConSystem (K V : Type*) where
  /-- `dh1_dpos(q)` -/
  dh1 : V → V
  /-- `h2_flow(state, t)` (unconstrained) -/
  h2Flow : K → V × V → V × V
  /-- `project_onto_cotangent_space(mom, state)`: `proj q p` -/
  proj : V → V → V

variable (S : ConSystem K V) (retr : K → V × V → V × V → Res (V × V)) (far : V → Bool)

/-- `_h2_flow_retraction_onto_manifold(state, state_prev, t)`. -/
def conRetract (t : K) (x prev : V × V) : Res (V × V) := retr t (S.h2Flow t x) prev

/-- `_project_onto_cotangent_space`. -/
def conProject (x : V × V) : V × V := (x.1, S.proj x.1 x.2)

/-- `_step_a`: `h1_flow` then momentum projection. -/
def conStepA (t : K) (x : V × V) : V × V := conProject S (x.1, x.2 - t • S.dh1 x.1)

/-- One inner iteration of `_step_b` (lines 965-990): retract, (pre-evaluate `dh1_dpos`: no effect
on the values), project the momentum, reverse check on the positions. -/
def conInner (ti : K) (x : V × V) : Res (V × V) := do
  let y ← conRetract S retr ti x x
  let y := conProject S y
  let back ← conRetract S retr (-ti) y y
  if far (back.1 - x.1) then throw IntErr.nonReversible else pure y

/-- `_step_b`: `n_inner_step` inner iterations with `time_step / n_inner_step`. -/
def conStepB (nInner : Nat) (t : K) (x : V × V) : Res (V × V) :=
  (List.range nInner).foldlM (fun x _ => conInner S retr far (t / (nInner : K)) x) x

/-- `ConstrainedLeapfrogIntegrator._step`. -/
def conStep (nInner : Nat) (t : K) (x : V × V) : Res (V × V) := do
  let x₁ := conStepA S (1 / 2 * t) x
  let x₂ ← conStepB S retr far nInner t x₁
  pure (conStepA S (1 / 2 * t) x₂)

end

end MiciVerif.Integrators
