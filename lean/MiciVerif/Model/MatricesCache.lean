/-
C19 — model of the lazy caches of `mici.matrices.Matrix` objects.

An object is a pair of *immutable* constructor parameters `p : P` and a cache: a finite map from
slot names to `Option V` (`_transpose`, `_inv`, `_sqrt`, `_eigval`/`_eigvec`, `_factor`,
`_lu_and_piv`, `_hash`, `_array`, `_capacitance_matrix` in the code).  Every cached property of the
code has the shape

    if self._k is None: self._k = <construct k from the parameters>      (matrices.py:161-166,
    return self._k                                                        189-192, 246-256, 379-390,
                                                                          436-452, 469-479, ...)

and `<construct k>` may itself read other cached properties of the same object first (e.g.
`DenseSquareMatrix._construct_inv` reads `lu_and_piv`, `SymmetricMatrix.log_abs_det` reads
`eigval`), which fills those slots as a side effect.  `deps k` lists the slots filled on the way
(in fill order, transitively); `f k p` is the value the construction yields, a function of the
parameters only.

Core Lean only.
-/

namespace MiciVerif.MatricesCache

/-- The cache slots found in `mici.matrices` (used for the executable examples; the definitions and
theorems are generic in the slot type). -/
inductive Slot
  | transpose | inv | sqrt | eigval | eigvec | factor | luAndPiv | hash | array | capacitance
deriving DecidableEq, Repr

structure Obj (P K V : Type) where
  /-- constructor parameters: never written after construction -/
  p : P
  /-- lazily filled slots -/
  cache : K → Option V

variable {P K V : Type} [DecidableEq K]

/-- The freshly constructed object: all slots empty (`None`). -/
def fresh (p : P) : Obj P K V := ⟨p, fun _ => none⟩

/-- `if self._k is None: self._k = f k p`. -/
def fill (f : K → P → V) (k : K) (o : Obj P K V) : Obj P K V :=
  match o.cache k with
  | some _ => o
  | none => { o with cache := fun j => if j = k then some (f k o.p) else o.cache j }

/-- One access of the lazily computed attribute `k`: the slots `deps k` are filled on the way, then
`k` itself; the value now in slot `k` is returned. -/
def access (f : K → P → V) (deps : K → List K) (k : K) (o : Obj P K V) : V × Obj P K V :=
  let o' := fill f k ((deps k).foldl (fun o j => fill f j o) o)
  ((o'.cache k).getD (f k o'.p), o')

/-- State after a sequence of accesses (results discarded). -/
def run (f : K → P → V) (deps : K → List K) (ks : List K) (o : Obj P K V) : Obj P K V :=
  ks.foldl (fun o k => (access f deps k o).2) o

/-- Coherence invariant: every filled slot holds the value determined by the parameters. -/
def Coherent (f : K → P → V) (o : Obj P K V) : Prop :=
  ∀ k v, o.cache k = some v → v = f k o.p

/-- Slots touched by a sequence of accesses. -/
def touched (deps : K → List K) (ks : List K) : List K :=
  ks.flatMap fun k => deps k ++ [k]

end MiciVerif.MatricesCache
