/-
Model of the chain/stage orchestration of `mici.samplers`
(`_sample_chain`, `_sample_chains_sequential`, `_sample_chains_worker`,
`_sample_chains_parallel`, `_get_per_chain_rngs`, `MarkovChainMonteCarloMethod.sample_chains`).

Core Lean only.  Stage tables come from `MiciVerif.Model.Stagers` (C16).

What is abstract: the transitions / adapters / trace functions (`Kernel`): arbitrary deterministic
functions of the chain state, the transition parameters, the adapter state and the generator
position.  A generator is `(stream id, position)`; a transition reports how many draws it consumed.
What is concrete: everything `samplers.py` does around them — the per-chain loop writing statistics
then traces at `sample_index + offset`, the offset rule, the stage loop (zero-iteration stages
skipped), sequential hand-over of the *same* generator object / parallel hand-over of a *copy*
with (new code) or without (old code, `restore := false`) restoring the worker's final generator
state in the parent, workers taking chains from the queue in any order, collation sorted by chain
index, adapters' `finalize` drawing from the parent generators between stages, `KeyboardInterrupt`
raised by a user function inside a given transition / trace function of a given iteration.

Output arrays are `List (Option V)` (`none` = the fill value written by `_init_stats` /
`_init_traces`); a chain owns one array per transition (statistics) followed by one array per
trace function.
-/
import MiciVerif.Model.Stagers

namespace MiciVerif.Sampler
open MiciVerif.Stagers

/-- A NumPy generator as far as the sampler is concerned: which stream, how far advanced. -/
structure Rng where
  stream : Nat
  pos : Nat
  deriving DecidableEq, Repr

/-- Ghost record of one consumption of draws: `count` draws of `stream` starting at `start`. -/
structure Draw where
  stream : Nat
  start : Nat
  count : Nat
  deriving DecidableEq, Repr

/-- Result of `transition.sample(state, rng)` followed by the `adapter.update` calls for it. -/
structure TOut (S V A P : Type) where
  state : S
  stat : V
  draws : Nat
  adapt : A
  params : P

/-- The user-supplied parts. `P` are the (mutable) attributes of the transition objects. -/
structure Kernel (S V A P : Type) where
  /-- adapter states when the stage has no adapters (`adapters=None`) -/
  a0 : A
  /-- `adapter.initialize(state, transition)` for all adapters of a stage of the given kind -/
  init : Kind → S → P → A × P
  /-- the transitions, in `transitions.items()` order -/
  trans : List (Kind → P → A → S → Rng → TOut S V A P)
  /-- the trace functions -/
  traces : List (S → V)
  /-- `_finalize_adapters`: new parameters, chain states (mutated in place), draws taken from each
  generator of `per_chain_rngs` -/
  fin : Kind → List A → List S → P → List Rng → P × List S × List Nat

/-- One user-visible operation of a chain iteration. -/
inductive Op (S V A P : Type) where
  | trans (t : Kind → P → A → S → Rng → TOut S V A P)
  | trace (f : S → V)

/-- Operations of one iteration of a stage: all transitions, then (only if the stage has trace
functions) all trace functions.  Operation `j` owns array `j` of the chain. -/
def opsOf {S V A P} (K : Kernel S V A P) (st : Stage) : List (Op S V A P) :=
  K.trans.map .trans ++ (if st.traced then K.traces.map .trace else [])

/-- Chain-local variables of `_sample_chain` (`log` is a ghost history of generator use). -/
structure Ctx (S A P : Type) where
  state : S
  rng : Rng
  adapt : A
  params : P
  log : List Draw

abbrev Mem (V : Type) := List (List (Option V))

def cell {V} (m : Mem V) (j r : Nat) : Option (Option V) := (m[j]?).bind (·[r]?)

/-- `array_j[row] = v` -/
def writeCell {V} (m : Mem V) (j row : Nat) (v : V) : Mem V :=
  m.modify j (fun a => a.set row (some v))

structure Run (S V A P : Type) where
  ctx : Ctx S A P
  mem : Mem V
  /-- a `KeyboardInterrupt` has been raised and is propagating to the handler -/
  halted : Bool

/-- Operation `j` of local iteration `i` (samplers.py 510-543). -/
def execOp {S V A P} (st : Stage) (offset i j : Nat) (op : Op S V A P) (x : Run S V A P) :
    Run S V A P :=
  match op with
  | .trans t =>
    let o := t st.kind x.ctx.params x.ctx.adapt x.ctx.state x.ctx.rng
    { x with
      ctx := ⟨o.state, ⟨x.ctx.rng.stream, x.ctx.rng.pos + o.draws⟩, o.adapt, o.params,
              x.ctx.log ++ [⟨x.ctx.rng.stream, x.ctx.rng.pos, o.draws⟩]⟩
      mem := if st.stats then writeCell x.mem j (i + offset) o.stat else x.mem }
  | .trace f => { x with mem := writeCell x.mem j (i + offset) (f x.ctx.state) }

/-- The same with exception propagation: nothing runs once halted; the operation at which the
user function raises does not complete (its assignment `state, trans_stats = …` never happens). -/
def stepOp {S V A P} (st : Stage) (offset : Nat) (intr : Option (Nat × Nat)) (i j : Nat)
    (op : Op S V A P) (x : Run S V A P) : Run S V A P :=
  if x.halted then x
  else if intr = some (i, j) then { x with halted := true }
  else execOp st offset i j op x

def iterOps {S V A P} (st : Stage) (offset : Nat) (intr : Option (Nat × Nat)) (i : Nat) :
    Nat → List (Op S V A P) → Run S V A P → Run S V A P
  | _, [], x => x
  | j, op :: ops, x => iterOps st offset intr i (j + 1) ops (stepOp st offset intr i j op x)

/-- `for sample_index, _ in chain_iterator:` from `start`, `n` iterations. -/
def runIters {S V A P} (K : Kernel S V A P) (st : Stage) (offset : Nat)
    (intr : Option (Nat × Nat)) : Nat → Nat → Run S V A P → Run S V A P
  | _, 0, x => x
  | start, n + 1, x =>
    runIters K st offset intr (start + 1) n (iterOps st offset intr start 0 (opsOf K st) x)

/-- `_sample_chain` for one stage. `intr = some (i, j)`: a user function called by operation `j`
of iteration `i` raises `KeyboardInterrupt`. -/
def sampleChain {S V A P} (K : Kernel S V A P) (st : Stage) (offset : Nat)
    (intr : Option (Nat × Nat)) (p : P) (s : S) (rng : Rng) (log : List Draw) (mem : Mem V) :
    Run S V A P :=
  let ap := if st.kind = .main then (K.a0, p) else K.init st.kind s p
  runIters K st offset intr 0 st.n ⟨⟨s, rng, ap.1, ap.2, log⟩, mem, false⟩

/-! ### Stage level -/

/-- The parent's per-chain data: state handed to the next stage, generator in `per_chain_rngs`,
the chain's output arrays (in memory or files), ghost draw log. -/
structure Chain (S V : Type) where
  state : S
  rng : Rng
  mem : Mem V
  log : List Draw

/-- One `_sample_chain` output as seen by the caller. -/
structure Out (S A : Type) where
  idx : Nat
  state : S
  adapt : A
  /-- generator state at the end of the chain (the worker's copy in parallel mode) -/
  rng : Rng

structure Acc (S V A P : Type) where
  params : P
  outs : List (Out S A)
  chains : List (Chain S V)
  halted : Bool

def chainIntr (intr : Option (Nat × Nat × Nat)) (c : Nat) : Option (Nat × Nat) :=
  match intr with
  | some (c0, i, j) => if c0 = c then some (i, j) else none
  | none => none

/-- Body of the loop of `_sample_chains_sequential` (`break` after an interrupted chain). The
chain uses the parent's transition objects (`acc.params`) and generator object. -/
def seqStep {S V A P} (K : Kernel S V A P) (st : Stage) (offset : Nat)
    (intr : Option (Nat × Nat × Nat)) (acc : Acc S V A P) (c : Nat × Chain S V) : Acc S V A P :=
  if acc.halted then { acc with chains := acc.chains ++ [c.2] }
  else
    let r := sampleChain K st offset (chainIntr intr c.1) acc.params c.2.state c.2.rng c.2.log c.2.mem
    { params := r.ctx.params
      outs := acc.outs ++ [⟨c.1, r.ctx.state, r.ctx.adapt, r.ctx.rng⟩]
      chains := acc.chains ++ [⟨c.2.state, r.ctx.rng, r.mem, r.ctx.log⟩]
      halted := r.halted }

def stageSeq {S V A P} (K : Kernel S V A P) (st : Stage) (offset : Nat)
    (intr : Option (Nat × Nat × Nat)) (p : P) (chains : List (Chain S V)) : Acc S V A P :=
  (chains.zipIdx.map (fun ci => (ci.2, ci.1))).foldl (seqStep K st offset intr) ⟨p, [], [], false⟩

/-- What the parent can observe of one chain run by a worker: the returned output tuple, the
chain's files, (ghost) draw log, whether the chain was interrupted. -/
structure WOut (S V A : Type) where
  out : Out S A
  mem : Mem V
  log : List Draw
  halted : Bool

/-- `_sample_chains_worker`: a worker process owns a pickled copy of the transitions (`p`, threaded
through the chains it happens to take from the queue) and gets a pickled copy of each chain's
generator; output arrays are files shared with the parent.  Returns what it produced, chain by
chain; `break`s after an interrupted chain. -/
def workerRun {S V A P} (K : Kernel S V A P) (st : Stage) (offset : Nat)
    (intr : Option (Nat × Nat × Nat)) (chains : List (Chain S V)) :
    List Nat → P → List (WOut S V A)
  | [], _ => []
  | c :: todo, p =>
    match chains[c]? with
    | none => workerRun K st offset intr chains todo p
    | some ch =>
      let r := sampleChain K st offset (chainIntr intr c) p ch.state ch.rng ch.log ch.mem
      ⟨⟨c, r.ctx.state, r.ctx.adapt, r.ctx.rng⟩, r.mem, r.ctx.log, r.halted⟩ ::
        (if r.halted then [] else workerRun K st offset intr chains todo r.ctx.params)

/-- effect of a finished worker chain on the parent's view: files written, (ghost) log; the
parent's generator object is only touched by the restore step below -/
def applyRun {S V A} (chains : List (Chain S V)) (o : WOut S V A) : List (Chain S V) :=
  chains.modify o.out.idx (fun ch => { ch with mem := o.mem, log := o.log })

def insertOut {S A} (o : Out S A) : List (Out S A) → List (Out S A)
  | [] => [o]
  | b :: l => if o.idx ≤ b.idx then o :: b :: l else b :: insertOut o l

/-- `sorted(indexed_chain_outputs, key=index)` (a stable sort by chain index; written as an
insertion sort so that it evaluates by structural recursion) -/
def sortOuts {S A} (l : List (Out S A)) : List (Out S A) := l.foldr insertOut []

/-- `rngs[i].bit_generator.state = rng_state` -/
def restoreRng {S V A} (chains : List (Chain S V)) (o : Out S A) : List (Chain S V) :=
  chains.modify o.idx (fun ch => { ch with rng := o.rng })

/-- `_sample_chains_parallel`. `sched` lists, per worker, the chains it took from the queue, in
order.  `restore = false` is the code before the generator hand-back was added. The parent's
transition objects are not touched by the workers. -/
def stagePar {S V A P} (K : Kernel S V A P) (st : Stage) (offset : Nat)
    (intr : Option (Nat × Nat × Nat)) (restore : Bool) (sched : List (List Nat)) (p : P)
    (chains : List (Chain S V)) : Acc S V A P :=
  let res := (sched.map (fun todo => workerRun K st offset intr chains todo p)).flatten
  let outs := sortOuts (res.map (·.out))
  let chains1 := res.foldl applyRun chains
  let chains2 := if restore then outs.foldl restoreRng chains1 else chains1
  ⟨p, outs, chains2, res.any (·.halted)⟩

inductive Mode where
  | seq
  | par (restore : Bool) (sched : List (List Nat))
  deriving Repr

structure Sys (S V P : Type) where
  params : P
  chains : List (Chain S V)
  offset : Nat
  /-- `chain_states` (what is returned as `final_states`) -/
  finalStates : List S
  /-- the stage loop has returned because of a `KeyboardInterrupt` -/
  stopped : Bool

def setStates {S V} : List (Chain S V) → List S → List (Chain S V)
  | ch :: chs, s :: ss => { ch with state := s } :: setStates chs ss
  | chs, _ => chs

def advance {S V} : List (Chain S V) → List Nat → List (Chain S V)
  | ch :: chs, d :: ds =>
    { ch with rng := ⟨ch.rng.stream, ch.rng.pos + d⟩,
              log := ch.log ++ [⟨ch.rng.stream, ch.rng.pos, d⟩] } :: advance chs ds
  | chs, _ => chs

/-- Collate the outputs back into the parent's chain list: `chain_states` become the next initial
states (by position in the list, as `_zip_dict(init_state=chain_states, …)` does). -/
def afterStage {S V A P} (K : Kernel S V A P) (st : Stage) (sys : Sys S V P) (acc : Acc S V A P) :
    Sys S V P :=
  let states := acc.outs.map (·.state)
  if acc.halted then
    -- `if isinstance(exception, KeyboardInterrupt): return …` before finalizing adapters and
    -- before advancing the offset
    { params := acc.params, chains := setStates acc.chains states, offset := sys.offset,
      finalStates := states, stopped := true }
  else
  let f : P × List S × List Nat :=
    if st.kind ≠ .main ∧ acc.outs ≠ [] then
      K.fin st.kind (acc.outs.map (·.adapt)) states acc.params (acc.chains.map (·.rng))
    else (acc.params, states, [])
  { params := f.1
    chains := advance (setStates acc.chains f.2.1) f.2.2
    offset := if st.traced || st.stats then sys.offset + st.n else sys.offset
    finalStates := f.2.1
    stopped := false }

/-- Body of `for stage, _ in sampling_stages_pb` (samplers.py 1099-1138); `k` is the position of
the stage in the stage table, `intr = (stage, chain, iteration, operation)`. -/
def runStage {S V A P} (K : Kernel S V A P) (intr : Option (Nat × Nat × Nat × Nat))
    (sys : Sys S V P) (ksm : Nat × Stage × Mode) : Sys S V P :=
  let st := ksm.2.1
  if sys.stopped then sys
  else if st.n = 0 then sys
  else
    let ci : Option (Nat × Nat × Nat) :=
      match intr with
      | some (k0, c) => if k0 = ksm.1 then some c else none
      | none => none
    let acc := match ksm.2.2 with
      | .seq => stageSeq K st sys.offset ci sys.params sys.chains
      | .par restore sched => stagePar K st sys.offset ci restore sched sys.params sys.chains
    afterStage K st sys acc

/-- `_get_per_chain_rngs` (`bit_generator.jumped(i)`), `_init_stats`, `_init_traces`. -/
def initSys {S V A P} (K : Kernel S V A P) (p : P) (inits : List S) (nTrace : Nat) : Sys S V P :=
  { params := p
    chains := inits.zipIdx.map (fun si =>
      ⟨si.1, ⟨si.2, 0⟩, List.replicate (K.trans.length + K.traces.length) (List.replicate nTrace none), []⟩)
    offset := 0
    finalStates := inits
    stopped := false }

def runStages {S V A P} (K : Kernel S V A P) (intr : Option (Nat × Nat × Nat × Nat))
    (stages : List (Stage × Mode)) (sys : Sys S V P) : Sys S V P :=
  (stages.zipIdx.map (fun sm => (sm.2, sm.1))).foldl (runStage K intr) sys

/-- `n_trace_iter` -/
def nTraceIter (nWarm nMain : Nat) (traceWarm : Bool) : Nat :=
  if traceWarm then nWarm + nMain else nMain

/-- `MarkovChainMonteCarloMethod.sample_chains`. -/
def sampleChains {S V A P} (K : Kernel S V A P) (p : P) (inits : List S) (nWarm nMain : Nat)
    (traceWarm : Bool) (stages : List (Stage × Mode)) (intr : Option (Nat × Nat × Nat × Nat)) :
    Sys S V P :=
  runStages K intr stages (initSys K p inits (nTraceIter nWarm nMain traceWarm))

end MiciVerif.Sampler
