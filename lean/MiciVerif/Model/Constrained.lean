/-
Model of the constrained-dynamics code of mici:

* `ConstrainedEuclideanMetricSystem.project_onto_cotangent_space`   (systems.py:866-876)
* `solve_projection_onto_manifold_quasi_newton`                      (solvers.py:195-344)
* `solve_projection_onto_manifold_newton`                            (solvers.py:347-471)
* `solve_projection_onto_manifold_newton_with_line_search`           (solvers.py:474-625)
* `ConstrainedLeapfrogIntegrator._step_a/_step_b/_step`              (integrators.py)

over an arbitrary ordered field `K` (executed at `K = ℚ` by `Driver/C04.lean`).

Conventions
* Vectors/matrices that live in the *state* of a loop are materialised data (`Vec`, `Mat`:
  core `Vector`s), so that the interpreter evaluates every iterate exactly once; the algebra is
  Mathlib's (`Matrix.mulVec`, `*`, `ᵀ`) applied to their function views `.fn`.
* User functions and linear-algebra services are *oracles* returning `Except Fault _`
  (`ValueError` / `LinAlgError` of the Python code): constraint, Jacobian, flow-map derivative
  `dh2_flow_dmom`, matrix inverse (`….inv @ x`).  No theorem assumes anything about them unless
  it says so; the inverse is *checked data* where a theorem needs `G * Ginv = 1`.
* `mu` is the accumulated multiplier term *in position space* (`jacob_constr_prev.T @ λ`),
  exactly the variable `mu` of the Python code.
* IEEE NaN is outside the model (`np.isnan(error)` is `false` over a field).
-/
import Mathlib.Data.Matrix.Mul
import Mathlib.Data.Matrix.Basic
import Mathlib.Algebra.Order.Ring.Defs
import Mathlib.Algebra.Order.Field.Basic
import Mathlib.Algebra.Order.Ring.Abs
import Mathlib.Algebra.BigOperators.Fin

namespace MiciVerif.Constrained
open Matrix

/-! ### materialised vectors and matrices -/

abbrev Vec (K : Type*) (n : Nat) := Vector K n
abbrev Mat (K : Type*) (m n : Nat) := Vector (Vector K n) m

variable {K : Type*}

/-- function view of a materialised vector -/
def Vec.fn {n : Nat} (v : Vec K n) : Fin n → K := fun i => v[i.val]
/-- materialise -/
def vec {n : Nat} (f : Fin n → K) : Vec K n := Vector.ofFn f
/-- Mathlib-matrix view of a materialised matrix -/
def Mat.fn {m n : Nat} (A : Mat K m n) : Matrix (Fin m) (Fin n) K :=
  Matrix.of fun i j => (A[i.val])[j.val]
def mat {m n : Nat} (A : Matrix (Fin m) (Fin n) K) : Mat K m n :=
  Vector.ofFn fun i => Vector.ofFn fun j => A i j

@[simp] theorem fn_vec {n : Nat} (f : Fin n → K) : (vec f).fn = f := by
  funext i; simp [vec, Vec.fn]
@[simp] theorem fn_mat {m n : Nat} (A : Matrix (Fin m) (Fin n) K) : (mat A).fn = A := by
  funext i j; simp [mat, Mat.fn]
theorem vec_fn {n : Nat} (v : Vec K n) : vec v.fn = v := by
  apply Vector.ext; intro i hi; simp [vec, Vec.fn]
theorem Vec.fn_injective {n : Nat} {v w : Vec K n} (h : v.fn = w.fn) : v = w := by
  rw [← vec_fn v, ← vec_fn w, h]

/-! ### pure algebra: cotangent projection -/

section Project
variable {n c : Type*} [Fintype n] [Fintype c] [CommRing K]

/-- `mom - J.T @ (inv_gram @ (J @ (metric.inv @ mom)))`; `N` is `metric.inv`. -/
def project (J : Matrix c n K) (N : Matrix n n K) (Ginv : Matrix c c K) (p : n → K) : n → K :=
  p - Jᵀ *ᵥ (Ginv *ᵥ (J *ᵥ (N *ᵥ p)))

/-- The matrix of `project`: `P = 1 - Jᵀ Ginv J N`. -/
def projMatrix [DecidableEq n] (J : Matrix c n K) (N : Matrix n n K) (Ginv : Matrix c c K) :
    Matrix n n K :=
  1 - Jᵀ * Ginv * J * N

end Project

/-! ### outcomes -/

/-- An exception of the classes the solvers catch (`ValueError`, `LinAlgError`). -/
inductive Fault | valueError | linAlgError
  deriving DecidableEq, Repr

inductive Reason
  | diverged      -- "solver diverged"
  | fault         -- ValueError / LinAlgError caught and re-raised as ConvergenceError
  | maxIters      -- "did not converge in max_iters iterations"
  deriving DecidableEq, Repr

/-- Result of one projection solve.  The Python solvers mutate `state` in place, so the
position reached is observable also when they raise. -/
inductive Outcome (K : Type*) (n : Nat)
  /-- normal return: final position, momentum, accumulated `mu`, iteration index at return -/
  | ok (pos mom mu : Vec K n) (i : Nat)
  /-- `ConvergenceError` raised -/
  | convergenceError (r : Reason) (i : Nat) (pos : Vec K n)
  /-- `max_iters = 0`: the final error message formats the unbound local `error`
  (`UnboundLocalError`, *not* a `ConvergenceError`) — mirrored as it is. -/
  | unboundLocal

/-- result of the main loop of a solver -/
inductive LoopOut (K : Type*) (n : Nat)
  | converged (pos mu : Vec K n) (i : Nat)
  | failed (r : Reason) (i : Nat) (pos mu : Vec K n)

structure Tol (K : Type*) where
  ctol : K   -- constraint_tol
  ptol : K   -- position_tol
  dtol : K   -- divergence_tol

/-- The user functions / services a solver calls. -/
structure Oracles (K : Type*) (n c : Nat) where
  /-- `system.constr(state)` -/
  constr : Vec K n → Except Fault (Vec K c)
  /-- `system.jacob_constr(state)` -/
  jacob : Vec K n → Except Fault (Mat K c n)
  /-- `system.dh2_flow_dmom(state_prev, abs(time_step))` ↦ `(dpos_dmom, dmom_dmom)` -/
  flowD : Vec K n → K → Except Fault (Mat K n n × Mat K n n)
  /-- `jacob_constr_inner_product(…).inv` (used as `inv @ x`) -/
  inv : Mat K c c → Except Fault (Mat K c c)
  /-- `norm` applied to constraint values and to position increments -/
  normC : Vec K c → K
  normP : Vec K n → K

section Solvers
variable [Field K] [LinearOrder K] {n c : Nat}

/-- `np.sign` -/
def sgn (t : K) : K := if 0 < t then 1 else if t < 0 then -1 else 0

/-- `system.jacob_constr_inner_product(J1, Φ, J2)` = `J1 @ (Φ @ J2.T)` -/
def innerProduct (J1 : Mat K c n) (Φ : Mat K n n) (J2 : Mat K c n) : Mat K c c :=
  mat (J1.fn * (Φ.fn * J2.fnᵀ))

/-- `jacob_constr_prev.T @ (inv @ constr)` -/
def deltaMu (Jprev : Mat K c n) (Ginv : Mat K c c) (cv : Vec K c) : Vec K n :=
  let w := vec (Ginv.fn *ᵥ cv.fn)
  vec (Jprev.fnᵀ *ᵥ w.fn)

/-! #### quasi-Newton (solvers.py:307-344) -/

/-- Body of `for i in range(max_iters)`; first argument is the remaining fuel. -/
def qnLoop (O : Oracles K n c) (T : Tol K) (Jprev : Mat K c n) (Φqp : Mat K n n)
    (Ginv : Mat K c c) : Nat → Nat → Vec K n → Vec K n → LoopOut K n
  | 0, i, pos, mu => .failed .maxIters i pos mu
  | fuel + 1, i, pos, mu =>
    match O.constr pos with
    | .error _ => .failed .fault i pos mu
    | .ok cv =>
      let error := O.normC cv
      let dmu := deltaMu Jprev Ginv cv
      let dpos := vec (Φqp.fn *ᵥ dmu.fn)
      if error > T.dtol then .failed .diverged i pos mu
      else if error < T.ctol ∧ O.normP dpos < T.ptol then .converged pos mu i
      else qnLoop O T Jprev Φqp Ginv fuel (i + 1) (vec (pos.fn - dpos.fn)) (vec (mu.fn + dmu.fn))

/-- `state.mom -= np.sign(time_step) * dh2_flow_mom_dmom @ mu` and the translation of the loop
result into what the Python function does. -/
def finish (maxIters : Nat) (t : K) (mom : Vec K n) (Φpp : Mat K n n) : LoopOut K n → Outcome K n
  | .converged pos mu i => .ok pos (vec (mom.fn - sgn t • (Φpp.fn *ᵥ mu.fn))) mu i
  | .failed .maxIters i pos _ => if maxIters = 0 then .unboundLocal else .convergenceError .maxIters i pos
  | .failed r i pos _ => .convergenceError r i pos

def solveQuasiNewton (O : Oracles K n c) (T : Tol K) (maxIters : Nat) (t : K)
    (pos mom posPrev : Vec K n) : Outcome K n :=
  match O.jacob posPrev with
  | .error _ => .convergenceError .fault 0 pos
  | .ok Jprev =>
  match O.flowD posPrev |t| with
  | .error _ => .convergenceError .fault 0 pos
  | .ok (Φqp, Φpp) =>
  match O.inv (innerProduct Jprev Φqp Jprev) with
  | .error _ => .convergenceError .fault 0 pos
  | .ok Ginv =>
    finish maxIters t mom Φpp (qnLoop O T Jprev Φqp Ginv maxIters 0 pos (vec 0))

/-! #### Newton (solvers.py:430-471) -/

def newtonLoop (O : Oracles K n c) (T : Tol K) (Jprev : Mat K c n) (Φqp : Mat K n n) :
    Nat → Nat → Vec K n → Vec K n → LoopOut K n
  | 0, i, pos, mu => .failed .maxIters i pos mu
  | fuel + 1, i, pos, mu =>
    match O.jacob pos with
    | .error _ => .failed .fault i pos mu
    | .ok J =>
    match O.constr pos with
    | .error _ => .failed .fault i pos mu
    | .ok cv =>
      let error := O.normC cv
      match O.inv (innerProduct J Φqp Jprev) with
      | .error _ => .failed .fault i pos mu
      | .ok Ginv =>
        let dmu := deltaMu Jprev Ginv cv
        let dpos := vec (Φqp.fn *ᵥ dmu.fn)
        if error > T.dtol then .failed .diverged i pos mu
        else if error < T.ctol ∧ O.normP dpos < T.ptol then .converged pos mu i
        else newtonLoop O T Jprev Φqp fuel (i + 1) (vec (pos.fn - dpos.fn)) (vec (mu.fn + dmu.fn))

def solveNewton (O : Oracles K n c) (T : Tol K) (maxIters : Nat) (t : K)
    (pos mom posPrev : Vec K n) : Outcome K n :=
  match O.jacob posPrev with
  | .error _ => .convergenceError .fault 0 pos
  | .ok Jprev =>
  match O.flowD posPrev |t| with
  | .error _ => .convergenceError .fault 0 pos
  | .ok (Φqp, Φpp) =>
    finish maxIters t mom Φpp (newtonLoop O T Jprev Φqp maxIters 0 pos (vec 0))

/-! #### Newton with backtracking line search (solvers.py:565-625) -/

/-- The inner `for _ in range(max_line_search_iters): … else: …` loop.  Returns the position
the state is left at and the final `step_size`.  The `0` case is the `for … else` branch
(line search exhausted: position re-set with the *current* step size). -/
def lineSearch (O : Oracles K n c) (error : K) (posCurr δ : Vec K n) :
    Nat → K → Except (Fault × Vec K n) (Vec K n × K)
  | 0, α => .ok (vec (posCurr.fn + α • δ.fn), α)
  | k + 1, α =>
    let pos := vec (posCurr.fn + α • δ.fn)
    match O.constr pos with
    | .error e => .error (e, pos)   -- `state.pos` was already set to the trial position
    | .ok cv =>
      if O.normC cv < error then .ok (pos, α) else lineSearch O error posCurr δ k (α * (1 / 2))

/-- Outer loop; `last` is `step_size * delta_pos` of the previous iteration (only read when
`i > 0`). -/
def lsLoop (O : Oracles K n c) (T : Tol K) (maxLs : Nat) (Jprev : Mat K c n) (Φqp : Mat K n n) :
    Nat → Nat → Vec K n → Vec K n → Vec K n → LoopOut K n
  | 0, i, pos, mu, _ => .failed .maxIters i pos mu
  | fuel + 1, i, pos, mu, last =>
    match O.jacob pos with
    | .error _ => .failed .fault i pos mu
    | .ok J =>
    match O.constr pos with
    | .error _ => .failed .fault i pos mu
    | .ok cv =>
      let error := O.normC cv
      if 0 < i ∧ error > T.dtol then .failed .diverged i pos mu
      else if error < T.ctol ∧ (i = 0 ∨ O.normP last < T.ptol) then .converged pos mu i
      else
        match O.inv (innerProduct J Φqp Jprev) with
        | .error _ => .failed .fault i pos mu
        | .ok Ginv =>
          let dmu := deltaMu Jprev Ginv cv
          let δ := vec (-(Φqp.fn *ᵥ dmu.fn))
          match lineSearch O error pos δ maxLs 1 with
          | .error (_, posTrial) => .failed .fault i posTrial mu
          | .ok (pos', α) =>
            lsLoop O T maxLs Jprev Φqp fuel (i + 1) pos' (vec (mu.fn + α • dmu.fn)) (vec (α • δ.fn))

def solveNewtonLineSearch (O : Oracles K n c) (T : Tol K) (maxIters maxLs : Nat) (t : K)
    (pos mom posPrev : Vec K n) : Outcome K n :=
  match O.jacob posPrev with
  | .error _ => .convergenceError .fault 0 pos
  | .ok Jprev =>
  match O.flowD posPrev |t| with
  | .error _ => .convergenceError .fault 0 pos
  | .ok (Φqp, Φpp) =>
    finish maxIters t mom Φpp (lsLoop O T maxLs Jprev Φqp maxIters 0 pos (vec 0) (vec 0))

inductive SolverKind | quasiNewton | newton | newtonLineSearch
  deriving DecidableEq, Repr

def solve (kind : SolverKind) (O : Oracles K n c) (T : Tol K) (maxIters maxLs : Nat) (t : K)
    (pos mom posPrev : Vec K n) : Outcome K n :=
  match kind with
  | .quasiNewton => solveQuasiNewton O T maxIters t pos mom posPrev
  | .newton => solveNewton O T maxIters t pos mom posPrev
  | .newtonLineSearch => solveNewtonLineSearch O T maxIters maxLs t pos mom posPrev

/-! ### the constrained leapfrog step -/

/-- What the integrator needs on top of the solver oracles. -/
structure StepSys (K : Type*) (n c : Nat) extends Oracles K n c where
  /-- `metric.inv` as a dense matrix -/
  N : Mat K n n
  /-- `system.dh1_dpos(state)` (position only: `h1` depends on `pos` only) -/
  dh1 : Vec K n → Except Fault (Vec K n)
  /-- `system.h2_flow(state, dt)` -/
  h2flow : K → Vec K n × Vec K n → Except Fault (Vec K n × Vec K n)

inductive StepError
  /-- `ConvergenceError` from a projection solve -/
  | convergenceError (r : Reason)
  /-- `NonReversibleStepError` from the reverse check -/
  | nonReversible
  /-- `ValueError`/`LinAlgError` raised outside a solver: `Integrator.step` re-raises them as
  `IntegratorError` -/
  | integratorError
  /-- the solver's `UnboundLocalError` for `max_iters = 0` (escapes as it is) -/
  | unboundLocal
  deriving DecidableEq, Repr

inductive StepOutcome (K : Type*) (n : Nat)
  | ok (pos mom : Vec K n)
  | error (e : StepError)

/-- `system.project_onto_cotangent_space(mom, state)`; `gram(state).inv` through the inverse
oracle. -/
def projectCot (S : StepSys K n c) (pos mom : Vec K n) : Except Fault (Vec K n) :=
  match S.jacob pos with
  | .error e => .error e
  | .ok J =>
  match S.inv (innerProduct J S.N J) with
  | .error e => .error e
  | .ok Ginv => .ok (vec (project J.fn S.N.fn Ginv.fn mom.fn))

/-- `_step_a`: `h1_flow` then projection of the momentum. -/
def stepA (S : StepSys K n c) (dt : K) (pos mom : Vec K n) : Except Fault (Vec K n × Vec K n) :=
  match S.dh1 pos with
  | .error e => .error e
  | .ok g =>
  match projectCot S pos (vec (mom.fn - dt • g.fn)) with
  | .error e => .error e
  | .ok mom' => .ok (pos, mom')

structure StepCfg (K : Type*) where
  kind : SolverKind
  tol : Tol K
  maxIters : Nat
  maxLs : Nat
  revTol : K      -- reverse_check_tol

/-- `_h2_flow_retraction_onto_manifold` -/
def retract (S : StepSys K n c) (C : StepCfg K) (dt : K) (pos mom : Vec K n) :
    Except StepError (Vec K n × Vec K n) :=
  match S.h2flow dt (pos, mom) with
  | .error _ => .error .integratorError
  | .ok (pos1, mom1) =>
    match solve C.kind S.toOracles C.tol C.maxIters C.maxLs dt pos1 mom1 pos with
    | .ok pos2 mom2 _ _ => .ok (pos2, mom2)
    | .convergenceError r _ _ => .error (.convergenceError r)
    | .unboundLocal => .error .unboundLocal

/-- the `for i in range(n_inner_step)` loop of `_step_b` -/
def stepBLoop (S : StepSys K n c) (C : StepCfg K) (dt : K) :
    Nat → Vec K n → Vec K n → Except StepError (Vec K n × Vec K n)
  | 0, pos, mom => .ok (pos, mom)
  | k + 1, pos, mom =>
    match retract S C dt pos mom with
    | .error e => .error e
    | .ok (pos1, mom1) =>
    -- `dh1_dpos` is pre-evaluated at the last inner step (a fault there escapes)
    match (if k = 0 then (S.dh1 pos1).map (fun _ => ()) else .ok ()) with
    | .error _ => .error .integratorError
    | .ok _ =>
    match projectCot S pos1 mom1 with
    | .error _ => .error .integratorError
    | .ok mom2 =>
    match retract S C (-dt) pos1 mom2 with
    | .error e => .error e
    | .ok (posBack, _) =>
      if S.normP (vec (posBack.fn - pos.fn)) > C.revTol then .error .nonReversible
      else stepBLoop S C dt k pos1 mom2

/-- `Integrator.step` ∘ `_step`: `A(t/2) ∘ B(t) ∘ A(t/2)` with `B` made of `nInner` projected
sub-steps; `ValueError`/`LinAlgError` from any sub-step become `IntegratorError`. -/
def step (S : StepSys K n c) (C : StepCfg K) (nInner : Nat) (t : K) (pos mom : Vec K n) :
    StepOutcome K n :=
  match stepA S (t * (1 / 2)) pos mom with
  | .error _ => .error .integratorError
  | .ok (pos1, mom1) =>
  match stepBLoop S C (t / (nInner : K)) nInner pos1 mom1 with
  | .error e => .error e
  | .ok (pos2, mom2) =>
  match stepA S (t * (1 / 2)) pos2 mom2 with
  | .error _ => .error .integratorError
  | .ok (pos3, mom3) => .ok pos3 mom3

end Solvers


/-! ### executable instances (used by the drivers; `K = ℚ`)

Quadric constraints `c_k(q) = ½ qᵀ A_k q + b_k·q + d_k` (linear for `A_k = 0`; spheres,
ellipsoids, hyperboloids, … otherwise), the maximum norm, and a Gauss–Jordan inverse whose
result is *checked* (`A * X = 1` is decided) before it is handed out. -/

section Exec
variable {K : Type} [Field K] {n c : Nat}

structure Quadrics (K : Type*) (n c : Nat) where
  A : Vector (Mat K n n) c
  B : Mat K c n
  d : Vec K c

def Quadrics.constr (Q : Quadrics K n c) (q : Vec K n) : Vec K c :=
  Vector.ofFn fun k : Fin c =>
    (1 / 2) * (q.fn ⬝ᵥ (vec (Mat.fn (Q.A[k.val]) *ᵥ q.fn)).fn) + Vec.fn (Q.B[k.val]) ⬝ᵥ q.fn + Q.d[k.val]

def Quadrics.jacob (Q : Quadrics K n c) (q : Vec K n) : Mat K c n :=
  Vector.ofFn fun k : Fin c => vec (Mat.fn (Q.A[k.val]) *ᵥ q.fn + Vec.fn (Q.B[k.val]))

/-- matrix-Hessian product of the quadrics (Hessians are the constant `A_k`, assumed symmetric):
`mhp(m)_l = Σ_k Σ_j m[k,j] A_k[j,l]`. -/
def Quadrics.mhp (Q : Quadrics K n c) (m : Mat K c n) : Vec K n :=
  vec fun l => ∑ k : Fin c, (Vec.fn (m[k.val]) ᵥ* Mat.fn (Q.A[k.val])) l

/-- `maximum_norm` -/
def maxNorm [LinearOrder K] {m : Nat} (v : Vec K m) : K :=
  v.toList.foldl (fun a x => max a |x|) 0

/-- Gauss–Jordan elimination on the augmented matrix `[A | 1]` (first non-zero pivot). -/
def gaussJordan [DecidableEq K] (m : Nat) (A : Array (Array K)) : Option (Array (Array K)) :=
  haveI : Inhabited K := ⟨0⟩
  Id.run do
    let mut a : Array (Array K) :=
      A.mapIdx fun i row => row ++ (Array.range m).map fun j => if i = j then (1 : K) else 0
    for col in [0:m] do
      let mut piv : Option Nat := none
      for r in [col:m] do
        if piv.isNone && (a[r]!)[col]! ≠ 0 then piv := some r
      match piv with
      | none => return none
      | some r =>
        let tmp := a[r]!
        a := a.set! r a[col]!
        a := a.set! col tmp
        let p := (a[col]!)[col]!
        a := a.set! col ((a[col]!).map (· / p))
        for r2 in [0:m] do
          if r2 ≠ col then
            let f := (a[r2]!)[col]!
            if f ≠ 0 then
              a := a.set! r2 (Array.zipWith (fun x y => x - f * y) a[r2]! a[col]!)
    return some (a.map fun row => row.extract m (2 * m))

/-- Inverse as checked data: `X` is only returned after `A * X = 1` has been decided. -/
def checkedInv [DecidableEq K] {m : Nat} (A : Mat K m m) : Except Fault (Mat K m m) :=
  haveI : Inhabited K := ⟨0⟩
  match gaussJordan m (A.toArray.map (·.toArray)) with
  | none => .error .linAlgError
  | some X =>
    let Xm : Mat K m m := Vector.ofFn fun i => Vector.ofFn fun j => (X[i.val]!)[j.val]!
    if A.fn * Xm.fn = 1 then .ok Xm else .error .linAlgError

theorem checkedInv_correct [DecidableEq K] {m : Nat} (A X : Mat K m m)
    (h : checkedInv A = .ok X) : A.fn * X.fn = 1 := by
  unfold checkedInv at h
  split at h
  · cases h
  · simp only at h
    split_ifs at h with hc
    cases h
    exact hc

end Exec

end MiciVerif.Constrained
