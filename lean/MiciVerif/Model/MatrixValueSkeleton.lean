/-
Value-semantics machinery of `mici.matrices` / `mici.utils.hash_array`, as a deep embedding (builder B10; same
technique and the same types `Skel.E` / `Skel.S` as the sampler / transition / state skeletons).

* `tools/extractors/matrix_value_skeleton.py` translates the *current* source of `hash_array`,
  `_make_array_triangular`, the base-class `Matrix.__init__` / `transpose` / `__hash__` / `__getstate__` /
  `__eq__`, every lazy-cache property, the constructors that initialise the cache slots or freeze caller arrays,
  and the `_construct_*` methods that hand cached data to new objects into statement trees on every run
  (`Generated/MatrixValueSkeleton.lean`), plus tables over the whole module (`lazyDefs`, `matrixMembers`,
  `freezeSites`, `triangularCalls`, `noneStores`, `dropped`).
* `Skel.VExpected.*`: the trees the definitions of `Model/MatricesCache.lean` (`Cache:`) and the table semantics of
  `Model/MatricesEqTable.lean` (`EqT:`) were written against; every function carries a comment naming the
  definition / table field it justifies.  `Props/C19S.lean` proves `generated = expected` (kernel evaluation of
  the derived `DecidableEq`) and re-derives the individual facts from the generated trees.
* `Skel.VSem`: readings of the lazy-cache properties, of the `eigval` / `eigvec` pair, of `__getstate__` and of
  `hash_array` (see the section at the end of this file).

Core Lean only.
-/
import MiciVerif.Model.SamplerSkeleton
import MiciVerif.Model.MatricesCache

namespace MiciVerif.Skel

/-! ## The expected skeletons (clean-tree output of the extractor, annotated) -/

namespace VExpected


/-- parameters (and decorators) of `hash_array` (utils.py) -/
def hashArraySig : E :=
  (E.l [(.v "array")])

/-- body of `hash_array` (utils.py)

EqT: `ClassEntry.hashByValue` — array hashes are functions of the array VALUES, as `np.array_equal` is: integer / floating / bool arrays are cast to float64 (first `if`), then `+ 0.0` maps `-0.0` to `+0.0` (second `if`), and only then are the bytes (and dtype / shape / strides of the NORMALISED array) hashed.  Reading: `VSem.hashPass`. -/
def hashArray : S :=
  (S.b [
  .ifc (.op "and" (E.l [(.op "!=" (E.l [(.v "array.dtype"), (.v "np.float64")])), (.op "or" (E.l [(.call "np.issubdtype" (E.l [(.v "array.dtype"), (.v "np.integer")])), (.call "np.issubdtype" (E.l [(.v "array.dtype"), (.v "np.floating")])), (.op "==" (E.l [(.v "array.dtype"), (.v "np.bool_")]))]))]))
    (S.b [
      .assign (.v "array") (.call "array.astype" (E.l [(.v "np.float64")]))])
    (S.b []),
  .ifc (.op "==" (E.l [(.v "array.dtype"), (.v "np.float64")]))
    (S.b [
      .assign (.v "array") (.op "+" (E.l [(.v "array"), (.call "float" (E.l [(.s "0.0")]))]))])
    (S.b []),
  .ifc (.v "XXHASH_AVAILABLE")
    (S.b [
      .assign (.v "h") (.call "xxhash.xxh64" (E.l [])),
      .expr (.call "h.update" (E.l [(.attr (.call "array.view" (E.l [(.v "np.byte")])) "data")])),
      .expr (.call "h.update" (E.l [(.call "bytes" (E.l [(.src "f'{array.dtype}{array.shape}{array.strides}'"), (.s "utf-8")]))])),
      .ret (.call "h.intdigest" (E.l []))])
    (S.b []),
  .ret (.call "hash" (E.l [(.call "array.tobytes" (E.l []))]))])

/-- parameters (and decorators) of `_make_array_triangular` (matrices.py) -/
def makeArrayTriangularSig : E :=
  (E.l [(.v "array"), (.s "*"), (.v "lower")])

/-- body of `_make_array_triangular` (matrices.py)

Cache: parameters are never written after construction (`Obj.p`): `np.tril` / `np.triu` return NEW arrays, the caller's array is not touched. -/
def makeArrayTriangular : S :=
  (S.b [
  .ret (.ite (.v "lower") (.call "np.tril" (E.l [(.v "array")])) (.call "np.triu" (E.l [(.v "array")])))])

/-- parameters (and decorators) of `Matrix.__init__` (matrices.py) -/
def matrixInitSig : E :=
  (E.l [(.v "self"), (.v "shape"), (.kwstar (.v "kwargs"))])

/-- body of `Matrix.__init__` (matrices.py)

Cache: `fresh p` — `_hash` and `_transpose` start empty; EqT: `frozen` — every ndarray passed through `**kwargs` is set read-only BEFORE it is stored in `__dict__`. -/
def matrixInit : S :=
  (S.b [
  .assign (.v "self._shape") (.v "shape"),
  .assign (.v "self._hash") E.none,
  .assign (.v "self._transpose") E.none,
  .loop (.tup (E.l [(.v "k"), (.v "v")])) (.call "kwargs.items" (E.l []))
    (S.b [
      .ifc (.call "isinstance" (E.l [(.v "v"), (.v "np.ndarray")]))
        (S.b [
          .assign (.v "v.flags.writeable") (.v "False")])
        (S.b []),
      .assign (.sub (.v "self.__dict__") (.v "k")) (.v "v")])])

/-- parameters (and decorators) of `Matrix.transpose` (matrices.py) -/
def matrixTransposeSig : E :=
  (E.l [(.v "self"), (.kw "@" (.v "property"))])

/-- body of `Matrix.transpose` (matrices.py)

Cache: `fill f .transpose` then read the slot (`access` with `deps = []`).  Reading: `VSem.lazyPass`. -/
def matrixTranspose : S :=
  (S.b [
  .ifc (.op "is" (E.l [(.v "self._transpose"), E.none]))
    (S.b [
      .assign (.v "self._transpose") (.call "self._construct_transpose" (E.l []))])
    (S.b []),
  .ret (.v "self._transpose")])

/-- parameters (and decorators) of `Matrix.__hash__` (matrices.py) -/
def matrixHashSig : E :=
  (E.l [(.v "self")])

/-- body of `Matrix.__hash__` (matrices.py)

Cache: `fill f .hash` then read the slot: the hash is computed once (`_compute_hash`) and memoised.  Reading: `VSem.lazyPass`. -/
def matrixHash : S :=
  (S.b [
  .ifc (.op "is" (E.l [(.v "self._hash"), E.none]))
    (S.b [
      .assign (.v "self._hash") (.call "self._compute_hash" (E.l []))])
    (S.b []),
  .ret (.v "self._hash")])

/-- parameters (and decorators) of `Matrix.__getstate__` (matrices.py) -/
def matrixGetstateSig : E :=
  (E.l [(.v "self")])

/-- body of `Matrix.__getstate__` (matrices.py)

Cache / EqT `dunderOk`: pickling copies `__dict__` and drops ONLY the memoised hash (hash values are not stable across processes).  Reading: `VSem.getstatePass`. -/
def matrixGetstate : S :=
  (S.b [
  .assign (.v "state") (.call "self.__dict__.copy" (E.l [])),
  .assign (.sub (.v "state") (.s "_hash")) E.none,
  .ret (.v "state")])

/-- parameters (and decorators) of `Matrix.__eq__` (matrices.py) -/
def matrixEqSig : E :=
  (E.l [(.v "self"), (.v "other")])

/-- body of `Matrix.__eq__` (matrices.py)

EqT: `Model.eq` — identity, or SAME CLASS and then the per-class `_check_equality` (the fields of `Generated/MatrixEq.lean`). -/
def matrixEq : S :=
  (S.b [
  .ret (.op "or" (E.l [(.op "is" (E.l [(.v "other"), (.v "self")])), (.op "and" (E.l [(.op "==" (E.l [(.v "other.__class__"), (.v "self.__class__")])), (.call "self._check_equality" (E.l [(.v "other")]))]))]))])

/-- parameters (and decorators) of `ExplicitArrayMatrix.__init__` (matrices.py) -/
def explicitInitSig : E :=
  (E.l [(.v "self"), (.v "shape"), (.kwstar (.v "kwargs"))])

/-- body of `ExplicitArrayMatrix.__init__` (matrices.py)

EqT: `frozen` — `_array` is checked finite and handed to `Matrix.__init__` through kwargs (frozen there). -/
def explicitInit : S :=
  (S.b [
  .ifc (.op "not in" (E.l [(.s "_array"), (.v "kwargs")]))
    (S.b [
      .raise_ (.call "ValueError" (E.l [(.v "msg")])) E.none])
    (S.b []),
  .try_
    (S.b [
      .assign (.sub (.v "kwargs") (.s "_array")) (.call "np.asarray_chkfinite" (E.l [(.sub (.v "kwargs") (.s "_array"))]))])
    (S.b [
      .handler (.v "ValueError") "e"
        (S.b [
          .raise_ (.call "LinAlgError" (E.l [(.v "msg")])) (.v "e")])])
    (S.b [])
    (S.b []),
  .expr (.meth (.call "super" (E.l [])) "__init__" (E.l [(.v "shape"), (.kwstar (.v "kwargs"))]))])

/-- parameters (and decorators) of `ExplicitArrayMatrix.array` (matrices.py) -/
def explicitArraySig : E :=
  (E.l [(.v "self"), (.kw "@" (.v "property"))])

/-- body of `ExplicitArrayMatrix.array` (matrices.py)

Cache: `array` of an explicit-array matrix is the stored parameter itself (no slot). -/
def explicitArray : S :=
  (S.b [
  .ret (.v "self._array")])

/-- parameters (and decorators) of `ExplicitArrayMatrix._compute_hash` (matrices.py) -/
def explicitComputeHashSig : E :=
  (E.l [(.v "self")])

/-- body of `ExplicitArrayMatrix._compute_hash` (matrices.py)

EqT: `hashFields = [_array]`, through `hash_array`. -/
def explicitComputeHash : S :=
  (S.b [
  .ret (.call "hash_array" (E.l [(.v "self._array")]))])

/-- parameters (and decorators) of `ExplicitArrayMatrix._check_equality` (matrices.py) -/
def explicitCheckEqualitySig : E :=
  (E.l [(.v "self"), (.v "other")])

/-- body of `ExplicitArrayMatrix._check_equality` (matrices.py)

EqT: `eqFields = [array]`, `np.array_equal`. -/
def explicitCheckEquality : S :=
  (S.b [
  .ret (.call "np.array_equal" (E.l [(.v "self.array"), (.v "other.array")]))])

/-- parameters (and decorators) of `ImplicitArrayMatrix.__init__` (matrices.py) -/
def implicitInitSig : E :=
  (E.l [(.v "self"), (.v "shape"), (.kwstar (.v "kwargs"))])

/-- body of `ImplicitArrayMatrix.__init__` (matrices.py)

Cache: `fresh p` — slot `_array` starts empty. -/
def implicitInit : S :=
  (S.b [
  .expr (.meth (.call "super" (E.l [])) "__init__" (E.l [(.v "shape"), (.kwstar (.v "kwargs"))])),
  .assign (.v "self._array") E.none])

/-- parameters (and decorators) of `ImplicitArrayMatrix.array` (matrices.py) -/
def implicitArraySig : E :=
  (E.l [(.v "self"), (.kw "@" (.v "property"))])

/-- body of `ImplicitArrayMatrix.array` (matrices.py)

Cache: `fill f .array` then read; EqT: `frozenExplicit` — the constructed array is set read-only before it is returned.  Reading: `VSem.lazyPass` (frozen). -/
def implicitArray : S :=
  (S.b [
  .ifc (.op "is" (E.l [(.v "self._array"), E.none]))
    (S.b [
      .assign (.v "self._array") (.call "self._construct_array" (E.l [])),
      .assign (.v "self._array.flags.writeable") (.v "False")])
    (S.b []),
  .ret (.v "self._array")])

/-- parameters (and decorators) of `InvertibleMatrix.__init__` (matrices.py) -/
def invertibleInitSig : E :=
  (E.l [(.v "self"), (.v "shape"), (.kwstar (.v "kwargs"))])

/-- body of `InvertibleMatrix.__init__` (matrices.py)

Cache: `fresh p` — slot `_inv` starts empty. -/
def invertibleInit : S :=
  (S.b [
  .expr (.meth (.call "super" (E.l [])) "__init__" (E.l [(.v "shape"), (.kwstar (.v "kwargs"))])),
  .assign (.v "self._inv") E.none])

/-- parameters (and decorators) of `InvertibleMatrix.inv` (matrices.py) -/
def invertibleInvSig : E :=
  (E.l [(.v "self"), (.kw "@" (.v "property"))])

/-- body of `InvertibleMatrix.inv` (matrices.py)

Cache: `fill f .inv` then read.  Reading: `VSem.lazyPass`. -/
def invertibleInv : S :=
  (S.b [
  .ifc (.op "is" (E.l [(.v "self._inv"), E.none]))
    (S.b [
      .assign (.v "self._inv") (.call "self._construct_inv" (E.l []))])
    (S.b []),
  .ret (.v "self._inv")])

/-- parameters (and decorators) of `SymmetricMatrix.__init__` (matrices.py) -/
def symmetricInitSig : E :=
  (E.l [(.v "self"), (.v "shape"), (.kwstar (.v "kwargs"))])

/-- body of `SymmetricMatrix.__init__` (matrices.py)

Cache: slots `_eigval`, `_eigvec` start empty BEFORE `super().__init__` (so that kwargs may pre-fill them). -/
def symmetricInit : S :=
  (S.b [
  .assign (.v "self._eigval") E.none,
  .assign (.v "self._eigvec") E.none,
  .expr (.meth (.call "super" (E.l [])) "__init__" (E.l [(.v "shape"), (.kwstar (.v "kwargs"))]))])

/-- parameters (and decorators) of `SymmetricMatrix._compute_eigendecomposition` (matrices.py) -/
def symmetricComputeEigSig : E :=
  (E.l [(.v "self")])

/-- body of `SymmetricMatrix._compute_eigendecomposition` (matrices.py)

Cache: `fill f .eigval`, `fill f .eigvec` from ONE `eigh` call; EqT: `frozenExplicit` — `_eigval` read-only.  Reading: `VSem.eigPass`. -/
def symmetricComputeEig : S :=
  (S.b [
  .assign (.tup (E.l [(.v "self._eigval"), (.v "eigvec")])) (.call "nla.eigh" (E.l [(.v "self.array")])),
  .assign (.v "self._eigval.flags.writeable") (.v "False"),
  .assign (.v "self._eigvec") (.call "OrthogonalMatrix" (E.l [(.v "eigvec")]))])

/-- parameters (and decorators) of `SymmetricMatrix.eigval` (matrices.py) -/
def symmetricEigvalSig : E :=
  (E.l [(.v "self"), (.kw "@" (.v "property"))])

/-- body of `SymmetricMatrix.eigval` (matrices.py)

Cache: both slots are filled together iff one of them is empty, then `_eigval` is read.  Reading: `VSem.eigPass`. -/
def symmetricEigval : S :=
  (S.b [
  .ifc (.op "or" (E.l [(.op "is" (E.l [(.v "self._eigval"), E.none])), (.op "is" (E.l [(.v "self._eigvec"), E.none]))]))
    (S.b [
      .expr (.call "self._compute_eigendecomposition" (E.l []))])
    (S.b []),
  .ret (.v "self._eigval")])

/-- parameters (and decorators) of `SymmetricMatrix.eigvec` (matrices.py) -/
def symmetricEigvecSig : E :=
  (E.l [(.v "self"), (.kw "@" (.v "property"))])

/-- body of `SymmetricMatrix.eigvec` (matrices.py)

Cache: both slots are filled together iff one of them is empty, then `_eigvec` is read.  Reading: `VSem.eigPass`. -/
def symmetricEigvec : S :=
  (S.b [
  .ifc (.op "or" (E.l [(.op "is" (E.l [(.v "self._eigval"), E.none])), (.op "is" (E.l [(.v "self._eigvec"), E.none]))]))
    (S.b [
      .expr (.call "self._compute_eigendecomposition" (E.l []))])
    (S.b []),
  .ret (.v "self._eigvec")])

/-- parameters (and decorators) of `SymmetricMatrix._construct_transpose` (matrices.py) -/
def symmetricConstructTransposeSig : E :=
  (E.l [(.v "self")])

/-- body of `SymmetricMatrix._construct_transpose` (matrices.py)

Cache: `f .transpose p` of a symmetric matrix is the object itself. -/
def symmetricConstructTranspose : S :=
  (S.b [
  .ret (.v "self")])

/-- parameters (and decorators) of `PositiveDefiniteMatrix.__init__` (matrices.py) -/
def posdefInitSig : E :=
  (E.l [(.v "self"), (.v "shape"), (.kwstar (.v "kwargs"))])

/-- body of `PositiveDefiniteMatrix.__init__` (matrices.py)

Cache: `fresh p` — slot `_sqrt` starts empty. -/
def posdefInit : S :=
  (S.b [
  .assign (.v "self._sqrt") E.none,
  .expr (.meth (.call "super" (E.l [])) "__init__" (E.l [(.v "shape"), (.kwstar (.v "kwargs"))]))])

/-- parameters (and decorators) of `PositiveDefiniteMatrix.sqrt` (matrices.py) -/
def posdefSqrtSig : E :=
  (E.l [(.v "self"), (.kw "@" (.v "property"))])

/-- body of `PositiveDefiniteMatrix.sqrt` (matrices.py)

Cache: `fill f .sqrt` then read.  Reading: `VSem.lazyPass`. -/
def posdefSqrt : S :=
  (S.b [
  .ifc (.op "is" (E.l [(.v "self._sqrt"), E.none]))
    (S.b [
      .assign (.v "self._sqrt") (.call "self._construct_sqrt" (E.l []))])
    (S.b []),
  .ret (.v "self._sqrt")])

/-- parameters (and decorators) of `DenseDefiniteMatrix.__init__` (matrices.py) -/
def denseDefiniteInitSig : E :=
  (E.l [(.v "self"), (.v "array"), (.kw "factor" E.none), (.s "*"), (.kw "is_posdef" (.v "True"))])

/-- body of `DenseDefiniteMatrix.__init__` (matrices.py)

Cache: slot `_factor` is pre-filled by the optional constructor argument. -/
def denseDefiniteInit : S :=
  (S.b [
  .expr (.meth (.call "super" (E.l [])) "__init__" (E.l [(.sub (.v "array.shape") (.n 0)), (.kw "sign" (.ite (.v "is_posdef") (.n 1) (.n (-1)))), (.kw "_array" (.v "array"))])),
  .assign (.v "self._factor") (.v "factor")])

/-- parameters (and decorators) of `DenseDefiniteMatrix.factor` (matrices.py) -/
def denseDefiniteFactorSig : E :=
  (E.l [(.v "self"), (.kw "@" (.v "property"))])

/-- body of `DenseDefiniteMatrix.factor` (matrices.py)

Cache: `fill f .factor` then read (a failing Cholesky factorisation raises `LinAlgError`, leaving the slot empty).  Reading: `VSem.lazyPass` (guarded). -/
def denseDefiniteFactor : S :=
  (S.b [
  .ifc (.op "is" (E.l [(.v "self._factor"), E.none]))
    (S.b [
      .try_
        (S.b [
          .assign (.v "self._factor") (.call "TriangularMatrix" (E.l [(.call "nla.cholesky" (E.l [(.op "*" (E.l [(.v "self._sign"), (.v "self._array")]))])), (.kw "lower" (.v "True")), (.kw "make_triangular" (.v "False"))]))])
        (S.b [
          .handler (.v "nla.LinAlgError") "e"
            (S.b [
              .raise_ (.call "LinAlgError" (E.l [(.v "msg")])) (.v "e")])])
        (S.b [])
        (S.b [])])
    (S.b []),
  .ret (.v "self._factor")])

/-- parameters (and decorators) of `DenseSquareMatrix.__init__` (matrices.py) -/
def denseSquareInitSig : E :=
  (E.l [(.v "self"), (.v "array"), (.kw "lu_and_piv" E.none), (.kw "lu_transposed" E.none)])

/-- body of `DenseSquareMatrix.__init__` (matrices.py)

EqT: `frozenExplicit` — precomputed LU factors handed in by the caller are set read-only; Cache: slot `_lu_and_piv` pre-filled. -/
def denseSquareInit : S :=
  (S.b [
  .expr (.meth (.call "super" (E.l [])) "__init__" (E.l [(.v "array.shape"), (.kw "_array" (.v "array"))])),
  .ifc (.op "is not" (E.l [(.v "lu_and_piv"), E.none]))
    (S.b [
      .loop (.v "factor_array") (.v "lu_and_piv")
        (S.b [
          .assign (.v "factor_array.flags.writeable") (.v "False")])])
    (S.b []),
  .assign (.v "self._lu_and_piv") (.v "lu_and_piv"),
  .assign (.v "self._lu_transposed") (.v "lu_transposed")])

/-- parameters (and decorators) of `DenseSquareMatrix.lu_and_piv` (matrices.py) -/
def denseSquareLuAndPivSig : E :=
  (E.l [(.v "self"), (.kw "@" (.v "property"))])

/-- body of `DenseSquareMatrix.lu_and_piv` (matrices.py)

Cache: `fill f .luAndPiv` then read; EqT: `frozenExplicit` — both factor arrays read-only.  Reading: `VSem.lazyPass` (frozen). -/
def denseSquareLuAndPiv : S :=
  (S.b [
  .ifc (.op "is" (E.l [(.v "self._lu_and_piv"), E.none]))
    (S.b [
      .assign (.v "self._lu_and_piv") (.call "sla.lu_factor" (E.l [(.v "self._array"), (.kw "check_finite" (.v "False"))])),
      .loop (.v "array") (.v "self._lu_and_piv")
        (S.b [
          .assign (.v "array.flags.writeable") (.v "False")]),
      .assign (.v "self._lu_transposed") (.v "False")])
    (S.b []),
  .ret (.v "self._lu_and_piv")])

/-- parameters (and decorators) of `DenseSquareMatrix._construct_transpose` (matrices.py) -/
def denseSquareConstructTransposeSig : E :=
  (E.l [(.v "self")])

/-- body of `DenseSquareMatrix._construct_transpose` (matrices.py)

Cache: `deps .transpose = [.luAndPiv]` — the transpose shares the (frozen) LU factors. -/
def denseSquareConstructTranspose : S :=
  (S.b [
  .assign (.v "lu_and_piv") (.v "self.lu_and_piv"),
  .ret (.call "DenseSquareMatrix" (E.l [(.v "self._array.T"), (.v "lu_and_piv"), (.op "not" (E.l [(.v "self._lu_transposed")]))]))])

/-- parameters (and decorators) of `DenseSquareMatrix._construct_inv` (matrices.py) -/
def denseSquareConstructInvSig : E :=
  (E.l [(.v "self")])

/-- body of `DenseSquareMatrix._construct_inv` (matrices.py)

Cache: `deps .inv = [.luAndPiv]` — the inverse shares the (frozen) LU factors and the array. -/
def denseSquareConstructInv : S :=
  (S.b [
  .assign (.v "lu_and_piv") (.v "self.lu_and_piv"),
  .ret (.call "InverseLUFactoredSquareMatrix" (E.l [(.v "self._array"), (.kw "inv_lu_and_piv" (.v "lu_and_piv")), (.kw "inv_lu_transposed" (.v "self._lu_transposed"))]))])

/-- parameters (and decorators) of `InverseLUFactoredSquareMatrix.__init__` (matrices.py) -/
def inverseLUInitSig : E :=
  (E.l [(.v "self"), (.v "inv_array"), (.v "inv_lu_and_piv"), (.s "*"), (.v "inv_lu_transposed")])

/-- body of `InverseLUFactoredSquareMatrix.__init__` (matrices.py)

EqT: `frozenExplicit` — all three arrays read-only. -/
def inverseLUInit : S :=
  (S.b [
  .expr (.meth (.call "super" (E.l [])) "__init__" (E.l [(.v "inv_array.shape")])),
  .loop (.v "array") (.tup (E.l [(.v "inv_array"), (.star (.v "inv_lu_and_piv"))]))
    (S.b [
      .assign (.v "array.flags.writeable") (.v "False")]),
  .assign (.v "self._inv_array") (.v "inv_array"),
  .assign (.v "self._inv_lu_and_piv") (.v "inv_lu_and_piv"),
  .assign (.v "self._inv_lu_transposed") (.v "inv_lu_transposed")])

/-- parameters (and decorators) of `DenseSymmetricMatrix.__init__` (matrices.py) -/
def denseSymmetricInitSig : E :=
  (E.l [(.v "self"), (.v "array"), (.kw "eigvec" E.none), (.kw "eigval" E.none)])

/-- body of `DenseSymmetricMatrix.__init__` (matrices.py)

EqT: `frozenExplicit` — a precomputed `eigval` array is set read-only; `eigvec` is wrapped (frozen by `Matrix.__init__`). -/
def denseSymmetricInit : S :=
  (S.b [
  .expr (.meth (.call "super" (E.l [])) "__init__" (E.l [(.v "array.shape"), (.kw "_array" (.v "array"))])),
  .ifc (.call "isinstance" (E.l [(.v "eigvec"), (.v "np.ndarray")]))
    (S.b [
      .assign (.v "eigvec") (.call "OrthogonalMatrix" (E.l [(.v "eigvec")]))])
    (S.b []),
  .assign (.v "self._eigvec") (.v "eigvec"),
  .ifc (.call "isinstance" (E.l [(.v "eigval"), (.v "np.ndarray")]))
    (S.b [
      .assign (.v "eigval.flags.writeable") (.v "False")])
    (S.b []),
  .assign (.v "self._eigval") (.v "eigval")])

/-- parameters (and decorators) of `EigendecomposedSymmetricMatrix.__init__` (matrices.py) -/
def eigendecomposedInitSig : E :=
  (E.l [(.v "self"), (.v "eigvec"), (.v "eigval")])

/-- body of `EigendecomposedSymmetricMatrix.__init__` (matrices.py)

EqT: `frozenExplicit` — `eigval` read-only. -/
def eigendecomposedInit : S :=
  (S.b [
  .ifc (.call "isinstance" (E.l [(.v "eigvec"), (.v "np.ndarray")]))
    (S.b [
      .assign (.v "eigvec") (.call "OrthogonalMatrix" (E.l [(.v "eigvec")]))])
    (S.b []),
  .expr (.meth (.call "super" (E.l [])) "__init__" (E.l [(.v "eigvec.shape")])),
  .ifc (.call "isinstance" (E.l [(.v "eigval"), (.v "np.ndarray")]))
    (S.b [
      .assign (.v "eigval.flags.writeable") (.v "False")])
    (S.b []),
  .assign (.v "self._eigvec") (.v "eigvec"),
  .assign (.v "self._eigval") (.v "eigval"),
  .ifc (.op "or" (E.l [(.op "not" (E.l [(.call "isinstance" (E.l [(.v "eigval"), (.v "np.ndarray")]))])), (.op "==" (E.l [(.v "eigval.size"), (.n 1)]))]))
    (S.b [
      .assign (.v "self.diag_eigval") (.call "ScaledIdentityMatrix" (E.l [(.v "eigval")]))])
    (S.b [
      .assign (.v "self.diag_eigval") (.call "DiagonalMatrix" (E.l [(.v "eigval")]))])])

/-- parameters (and decorators) of `SoftAbsRegularizedPositiveDefiniteMatrix.__init__` (matrices.py) -/
def softabsInitSig : E :=
  (E.l [(.v "self"), (.v "symmetric_array"), (.v "softabs_coeff")])

/-- body of `SoftAbsRegularizedPositiveDefiniteMatrix.__init__` (matrices.py)

EqT: `frozenExplicit` — `unreg_eigval` read-only. -/
def softabsInit : S :=
  (S.b [
  .ifc (.op "<=" (E.l [(.v "softabs_coeff"), (.n 0)]))
    (S.b [
      .raise_ (.call "ValueError" (E.l [(.v "msg")])) E.none])
    (S.b []),
  .assign (.v "self._softabs_coeff") (.v "softabs_coeff"),
  .assign (.tup (E.l [(.v "self.unreg_eigval"), (.v "eigvec")])) (.call "nla.eigh" (E.l [(.v "symmetric_array")])),
  .assign (.v "self.unreg_eigval.flags.writeable") (.v "False"),
  .assign (.v "eigval") (.call "self.softabs" (E.l [(.v "self.unreg_eigval")])),
  .expr (.meth (.call "super" (E.l [])) "__init__" (E.l [(.v "eigvec"), (.v "eigval")]))])

/-- parameters (and decorators) of `TriangularMatrix.__init__` (matrices.py) -/
def triangularInitSig : E :=
  (E.l [(.v "self"), (.v "array"), (.s "*"), (.kw "lower" (.v "True")), (.kw "make_triangular" (.v "True"))])

/-- body of `TriangularMatrix.__init__` (matrices.py)

Cache: parameters — the masked COPY (`_make_array_triangular`) or, with `make_triangular=False`, the given array, frozen through kwargs. -/
def triangularInit : S :=
  (S.b [
  .assign (.v "array") (.ite (.v "make_triangular") (.call "_make_array_triangular" (E.l [(.v "array"), (.kw "lower" (.v "lower"))])) (.v "array")),
  .expr (.meth (.call "super" (E.l [])) "__init__" (E.l [(.v "array.shape"), (.kw "_array" (.v "array"))])),
  .assign (.v "self._lower") (.v "lower")])

/-- parameters (and decorators) of `TriangularMatrix._construct_inv` (matrices.py) -/
def triangularConstructInvSig : E :=
  (E.l [(.v "self")])

/-- body of `TriangularMatrix._construct_inv` (matrices.py)

Cache: `f .inv p` shares the frozen array, `make_triangular=False` (no second masking). -/
def triangularConstructInv : S :=
  (S.b [
  .ret (.call "InverseTriangularMatrix" (E.l [(.v "self.array"), (.kw "lower" (.v "self.lower")), (.kw "make_triangular" (.v "False"))]))])

/-- parameters (and decorators) of `TriangularMatrix._construct_transpose` (matrices.py) -/
def triangularConstructTransposeSig : E :=
  (E.l [(.v "self")])

/-- body of `TriangularMatrix._construct_transpose` (matrices.py)

Cache: `f .transpose p` — a view of the frozen array, `lower` flipped. -/
def triangularConstructTranspose : S :=
  (S.b [
  .ret (.call "TriangularMatrix" (E.l [(.v "self.array.T"), (.kw "lower" (.op "not" (E.l [(.v "self.lower")]))), (.kw "make_triangular" (.v "False"))]))])

/-- parameters (and decorators) of `InverseTriangularMatrix.__init__` (matrices.py) -/
def inverseTriangularInitSig : E :=
  (E.l [(.v "self"), (.v "inverse_array"), (.s "*"), (.kw "lower" (.v "True")), (.kw "make_triangular" (.v "True"))])

/-- body of `InverseTriangularMatrix.__init__` (matrices.py)

Cache: parameters — as `TriangularMatrix.__init__`, after `asarray_chkfinite`. -/
def inverseTriangularInit : S :=
  (S.b [
  .assign (.v "inverse_array") (.call "np.asarray_chkfinite" (E.l [(.v "inverse_array")])),
  .assign (.v "inverse_array") (.ite (.v "make_triangular") (.call "_make_array_triangular" (E.l [(.v "inverse_array"), (.kw "lower" (.v "lower"))])) (.v "inverse_array")),
  .expr (.meth (.call "super" (E.l [])) "__init__" (E.l [(.v "inverse_array.shape"), (.kw "_inverse_array" (.v "inverse_array"))])),
  .assign (.v "self._lower") (.v "lower")])

/-- parameters (and decorators) of `InverseTriangularMatrix._construct_inv` (matrices.py) -/
def inverseTriangularConstructInvSig : E :=
  (E.l [(.v "self")])

/-- body of `InverseTriangularMatrix._construct_inv` (matrices.py)

Cache: `f .inv p` shares the frozen array. -/
def inverseTriangularConstructInv : S :=
  (S.b [
  .ret (.call "TriangularMatrix" (E.l [(.v "self._inverse_array"), (.kw "lower" (.v "self.lower")), (.kw "make_triangular" (.v "False"))]))])

/-- parameters (and decorators) of `InverseTriangularMatrix._construct_transpose` (matrices.py) -/
def inverseTriangularConstructTransposeSig : E :=
  (E.l [(.v "self")])

/-- body of `InverseTriangularMatrix._construct_transpose` (matrices.py)

Cache: `f .transpose p` — a view of the frozen array, `lower` flipped. -/
def inverseTriangularConstructTranspose : S :=
  (S.b [
  .ret (.call "InverseTriangularMatrix" (E.l [(.v "self._inverse_array.T"), (.kw "lower" (.op "not" (E.l [(.v "self.lower")]))), (.kw "make_triangular" (.v "False"))]))])

/-- parameters (and decorators) of `SquareLowRankUpdateMatrix.capacitance_matrix` (matrices.py) -/
def squareLowRankCapacitanceSig : E :=
  (E.l [(.v "self"), (.kw "@" (.v "property"))])

/-- body of `SquareLowRankUpdateMatrix.capacitance_matrix` (matrices.py)

Cache: `fill f .capacitance` then read; `deps .capacitance = [inner.inv, square.inv]` (slots of the operand objects).  Reading: `VSem.lazyPass`. -/
def squareLowRankCapacitance : S :=
  (S.b [
  .ifc (.op "is" (E.l [(.v "self._capacitance_matrix"), E.none]))
    (S.b [
      .assign (.v "self._capacitance_matrix") (.call "DenseSquareMatrix" (E.l [(.op "+" (E.l [(.v "self.inner_square_matrix.inv.array"), (.call "{@}" (E.l [(.op "*" (E.l [(.v "self._sign"), (.v "self.right_factor_matrix")])), (.call "{@}" (E.l [(.v "self.square_matrix.inv"), (.v "self.left_factor_matrix.array")]))]))]))]))])
    (S.b []),
  .ret (.v "self._capacitance_matrix")])

/-- parameters (and decorators) of `SquareLowRankUpdateMatrix._construct_transpose` (matrices.py) -/
def squareLowRankConstructTransposeSig : E :=
  (E.l [(.v "self")])

/-- body of `SquareLowRankUpdateMatrix._construct_transpose` (matrices.py)

Cache: `f .transpose p` — a memoised capacitance matrix is handed over TRANSPOSED (`C(Aᵀ) = C(A)ᵀ`), an empty slot stays empty. -/
def squareLowRankConstructTranspose : S :=
  (S.b [
  .ret (.meth (.call "type" (E.l [(.v "self")])) "__call__" (E.l [(.v "self.right_factor_matrix.T"), (.v "self.left_factor_matrix.T"), (.v "self.square_matrix.T"), (.v "self.inner_square_matrix.T"), (.ite (.op "is not" (E.l [(.v "self._capacitance_matrix"), E.none])) (.v "self._capacitance_matrix.T") E.none), (.v "self._sign")]))])

/-- parameters (and decorators) of `SquareLowRankUpdateMatrix._construct_inv` (matrices.py) -/
def squareLowRankConstructInvSig : E :=
  (E.l [(.v "self")])

/-- body of `SquareLowRankUpdateMatrix._construct_inv` (matrices.py)

Cache: `deps .inv = [.capacitance]` — the inverse's inner matrix is the inverse capacitance matrix. -/
def squareLowRankConstructInv : S :=
  (S.b [
  .ret (.meth (.call "type" (E.l [(.v "self")])) "__call__" (E.l [(.call "{@}" (E.l [(.v "self.square_matrix.inv"), (.v "self.left_factor_matrix")])), (.call "{@}" (E.l [(.v "self.right_factor_matrix"), (.v "self.square_matrix.inv")])), (.v "self.square_matrix.inv"), (.v "self.capacitance_matrix.inv"), (.v "self.inner_square_matrix.inv"), (.call "{neg}" (E.l [(.v "self._sign")]))]))])

/-- parameters (and decorators) of `SymmetricLowRankUpdateMatrix.capacitance_matrix` (matrices.py) -/
def symmetricLowRankCapacitanceSig : E :=
  (E.l [(.v "self"), (.kw "@" (.v "property"))])

/-- body of `SymmetricLowRankUpdateMatrix.capacitance_matrix` (matrices.py)

Cache: `fill f .capacitance` then read.  Reading: `VSem.lazyPass`. -/
def symmetricLowRankCapacitance : S :=
  (S.b [
  .ifc (.op "is" (E.l [(.v "self._capacitance_matrix"), E.none]))
    (S.b [
      .assign (.v "self._capacitance_matrix") (.call "DenseSymmetricMatrix" (E.l [(.op "+" (E.l [(.v "self.inner_symmetric_matrix.inv.array"), (.call "{@}" (E.l [(.op "*" (E.l [(.v "self._sign"), (.v "self.factor_matrix.T")])), (.call "{@}" (E.l [(.v "self.symmetric_matrix.inv"), (.v "self.factor_matrix.array")]))]))]))]))])
    (S.b []),
  .ret (.v "self._capacitance_matrix")])

/-- parameters (and decorators) of `PositiveDefiniteLowRankUpdateMatrix.capacitance_matrix` (matrices.py) -/
def posdefLowRankCapacitanceSig : E :=
  (E.l [(.v "self"), (.kw "@" (.v "property"))])

/-- body of `PositiveDefiniteLowRankUpdateMatrix.capacitance_matrix` (matrices.py)

Cache: `fill f .capacitance` then read.  Reading: `VSem.lazyPass`. -/
def posdefLowRankCapacitance : S :=
  (S.b [
  .ifc (.op "is" (E.l [(.v "self._capacitance_matrix"), E.none]))
    (S.b [
      .assign (.v "self._capacitance_matrix") (.call "DensePositiveDefiniteMatrix" (E.l [(.op "+" (E.l [(.v "self.inner_pos_def_matrix.inv.array"), (.call "{@}" (E.l [(.op "*" (E.l [(.v "self._sign"), (.v "self.factor_matrix.T")])), (.call "{@}" (E.l [(.v "self.pos_def_matrix.inv"), (.v "self.factor_matrix.array")]))]))]))]))])
    (S.b []),
  .ret (.v "self._capacitance_matrix")])

/-- every definition, in any class of matrices.py, of a watched name (lazy properties, `T`, `__hash__`,
`__eq__`, pickling / copy / attribute hooks, `__slots__`): (class, decorators + `def name` | `stmt …`) -/
def lazyDefs : List (String × String) := [
  ("Matrix", "@property @abc.abstractmethod def array"),
  ("Matrix", "@property def transpose"),
  ("Matrix", "stmt T = transpose"),
  ("Matrix", "def __hash__"),
  ("Matrix", "def __getstate__"),
  ("Matrix", "def __eq__"),
  ("ExplicitArrayMatrix", "@property def array"),
  ("ImplicitArrayMatrix", "@property def array"),
  ("InvertibleMatrix", "@property def inv"),
  ("SymmetricMatrix", "def _compute_eigendecomposition"),
  ("SymmetricMatrix", "@property def eigval"),
  ("SymmetricMatrix", "@property def eigvec"),
  ("PositiveDefiniteMatrix", "@property def sqrt"),
  ("IdentityMatrix", "@property def eigval"),
  ("IdentityMatrix", "@property def eigvec"),
  ("ScaledIdentityMatrix", "@property def eigval"),
  ("ScaledIdentityMatrix", "@property def eigvec"),
  ("DiagonalMatrix", "@property def eigvec"),
  ("DiagonalMatrix", "@property def eigval"),
  ("_BaseTriangularFactoredDefiniteMatrix", "@property def factor"),
  ("DenseDefiniteMatrix", "@property def factor"),
  ("DenseSquareMatrix", "@property def lu_and_piv"),
  ("SquareBlockDiagonalMatrix", "@property def eigval"),
  ("SquareBlockDiagonalMatrix", "@property def eigvec"),
  ("SquareLowRankUpdateMatrix", "@property def capacitance_matrix"),
  ("SymmetricLowRankUpdateMatrix", "@property def capacitance_matrix"),
  ("PositiveDefiniteLowRankUpdateMatrix", "@property def capacitance_matrix")]

/-- members of `class Matrix`, in source order -/
def matrixMembers : List String :=
  ["stmt __array_priority__ = 1", "def __init__", "def __array__", "def __mul__", "def __rmul__", "def __truediv__", "def __neg__", "def __matmul__", "def __rmatmul__", "@property def shape", "@property @abc.abstractmethod def array", "@abc.abstractmethod def _left_matrix_multiply", "@abc.abstractmethod def _right_matrix_multiply", "@abc.abstractmethod def _scalar_multiply", "@property def transpose", "stmt T = transpose", "@abc.abstractmethod def _construct_transpose", "@property def diagonal", "def __str__", "def __repr__", "@abc.abstractmethod def _compute_hash", "def __hash__", "def __getstate__", "@abc.abstractmethod def _check_equality", "def __eq__"]

/-- every statement of matrices.py that mentions `writeable` / `setflags`: (function, enclosing `for`
headers, statement) -/
def freezeSites : List (String × String × String) := [
  ("Matrix.__init__", "for (k, v) in kwargs.items()", "v.flags.writeable = False"),
  ("ImplicitArrayMatrix.array", "", "self._array.flags.writeable = False"),
  ("SymmetricMatrix._compute_eigendecomposition", "", "self._eigval.flags.writeable = False"),
  ("DenseSquareMatrix.__init__", "for factor_array in lu_and_piv", "factor_array.flags.writeable = False"),
  ("DenseSquareMatrix.lu_and_piv", "for array in self._lu_and_piv", "array.flags.writeable = False"),
  ("InverseLUFactoredSquareMatrix.__init__", "for array in (inv_array, *inv_lu_and_piv)", "array.flags.writeable = False"),
  ("DenseSymmetricMatrix.__init__", "", "eigval.flags.writeable = False"),
  ("EigendecomposedSymmetricMatrix.__init__", "", "eigval.flags.writeable = False"),
  ("SoftAbsRegularizedPositiveDefiniteMatrix.__init__", "", "self.unreg_eigval.flags.writeable = False")]

/-- every call of `np.tril` / `np.triu` / `_make_array_triangular` in matrices.py and every in-place store
into a parameter of `_make_array_triangular`: (function, source) -/
def triangularCalls : List (String × String) := [
  ("_make_array_triangular", "np.tril(array)"),
  ("_make_array_triangular", "np.triu(array)"),
  ("TriangularMatrix.__init__", "_make_array_triangular(array, lower=lower)"),
  ("InverseTriangularMatrix.__init__", "_make_array_triangular(inverse_array, lower=lower)"),
  ("TriangularFactoredDefiniteMatrix.grad_quadratic_form_inv", "_make_array_triangular(-2 * np.outer(inv_vector, inv_factor_vector), lower=self.factor.lower)"),
  ("DenseSquareMatrix._scalar_multiply", "np.triu(old_lu)"),
  ("InverseLUFactoredSquareMatrix._scalar_multiply", "np.triu(old_inv_lu)")]

/-- every `self._x = None` of a constructor in matrices.py (the lazily filled slots): (class, attribute) -/
def noneStores : List (String × String) := [
  ("Matrix", "_hash"),
  ("Matrix", "_transpose"),
  ("ImplicitArrayMatrix", "_array"),
  ("InvertibleMatrix", "_inv"),
  ("SymmetricMatrix", "_eigval"),
  ("SymmetricMatrix", "_eigvec"),
  ("PositiveDefiniteMatrix", "_sqrt")]

/-- statements the extractor dropped: (function, allow-list entry, first line of the source) -/
def dropped : List (String × String × String) := [
  ("ExplicitArrayMatrix.__init__", "message text", "msg = '_array must be specified in kwargs'"),
  ("ExplicitArrayMatrix.__init__", "message text", "msg = 'Array is not finite.'"),
  ("DenseDefiniteMatrix.factor", "message text", "msg = 'Cholesky factorisation failed.'"),
  ("SoftAbsRegularizedPositiveDefiniteMatrix.__init__", "message text", "msg = 'softabs_coeff must be positive.'")]

end VExpected

/-! ## Readings of the value-semantics machinery on the model's state

`VSem.lazyShape?` recognises the one shape every lazy-cache property of `mici.matrices` has; `VSem.lazyPass`
executes it on `MatricesCache.Obj`.  `VSem.eigPass` reads the `eigval` / `eigvec` pair with its shared guard,
`VSem.getstatePass` reads `Matrix.__getstate__`, `VSem.hashPass` reads the normalisation part of
`utils.hash_array` on abstract arrays (dtype class + values with a signed zero).  `Props/C19S.lean` proves, for
the bodies generated from the current source, that these readings are the operations of `Model/MatricesCache.lean`
/ have the value-semantics properties the tables of `Model/MatricesEqTable.lean` assume. -/

namespace VSem
open MiciVerif.MatricesCache

/-- what `lazyShape?` found -/
structure LazyShape where
  /-- the expression stored in the slot -/
  construct : E
  /-- the stored array(s) are set read-only inside the `if`, after the store -/
  frozen : Bool
  /-- the store is inside a `try` all of whose handlers re-raise -/
  guarded : Bool
  /-- other attributes stored inside the `if` (`self._lu_transposed`) -/
  aux : List String
  deriving DecidableEq, Repr

/-- a statement allowed after the store: freezing the slot's array(s), or storing a constant in ANOTHER
attribute; `(freezes, aux)` -/
def postAct? (a : String) (s : S) : Option (Bool × List String) :=
  match s with
  | .assign (.v x) (.v c) =>
    if x = a ++ ".flags.writeable" ∧ c = "False" then some (true, [])
    else if x ≠ a ∧ x.startsWith "self._" ∧ ¬ x.startsWith (a ++ ".") ∧ (c = "False" ∨ c = "True") then some (false, [x])
    else Option.none
  | .loop (.v x) (.v it) body =>
    if it = a ∧ body = S.b [.assign (.v (x ++ ".flags.writeable")) (.v "False")] then some (true, []) else Option.none
  | _ => Option.none

def postActs? (a : String) : List S → Option (Bool × List String)
  | [] => some (false, [])
  | s :: l => (postAct? a s).bind fun r => (postActs? a l).map fun r' => (r.1 || r'.1, r.2 ++ r'.2)

/-- all handlers of the list consist of a single `raise` -/
def handlersReraise (h : S) : Bool :=
  h.stmts.all fun
    | .handler _ _ b => (match b.stmts with | [.raise_ _ _] => true | _ => false)
    | _ => false

/-- the store `self._k = <construct>`, possibly inside `try: … except …: raise …` -/
def storeAct? (a : String) (s : S) : Option (E × Bool) :=
  match s with
  | .assign (.v x) rhs => if x = a then some (rhs, false) else Option.none
  | .try_ b h e f =>
    (match b.stmts with
     | [.assign (.v x) rhs] =>
       if x = a ∧ handlersReraise h ∧ h.stmts ≠ [] ∧ e = S.b [] ∧ f = S.b [] then some (rhs, true) else Option.none
     | _ => Option.none)
  | _ => Option.none

/-- **The shape of a lazy-cache property** for the slot attribute `a` (`"self._inv"`):
`if a is None: a = <construct>; <freeze / aux stores>` followed by `return a` — nothing else. -/
def lazyShape? (a : String) (body : List S) : Option LazyShape :=
  match body with
  | [.ifc c t f, .ret r] =>
    if c = .op "is" (E.l [.v a, .none]) ∧ f = S.b [] ∧ r = .v a then
      match t.stmts with
      | st :: post =>
        (storeAct? a st).bind fun sr => (postActs? a post).map fun pr => ⟨sr.1, pr.1, sr.2, pr.2⟩
      | [] => Option.none
    else Option.none
  | _ => Option.none

variable {P K V : Type} [DecidableEq K]

/-- One access of a lazy property as the CODE does it: a filled slot is returned as it is (nothing else is
touched); an empty one is filled with `f k p` after the slots `deps k`, which evaluating the construct
expression reads, have been filled. -/
def lazyAccess (f : K → P → V) (deps : K → List K) (k : K) (o : Obj P K V) : V × Obj P K V :=
  match o.cache k with
  | some v => (v, o)
  | none =>
    let o1 := (deps k).foldl (fun o j => fill f j o) o
    (f k o1.p, { o1 with cache := fun j => if j = k then some (f k o1.p) else o1.cache j })

/-- **A lazy property read from its statement list** on the cache model: the `if` tests the slot, the store
puts `f k p` there (the construct expression's own reads of other lazy properties fill `deps k` first), the
freeze / aux statements do not change values, `return` reads the slot. -/
def lazyPass (a : String) (body : List S) (f : K → P → V) (deps : K → List K) (k : K) (o : Obj P K V) :
    Option (V × Obj P K V) :=
  (lazyShape? a body).bind fun _ =>
    let o' : Obj P K V :=
      match o.cache k with
      | some _ => o
      | none =>
        let o1 := (deps k).foldl (fun o j => fill f j o) o
        { o1 with cache := fun j => if j = k then some (f k o1.p) else o1.cache j }
    (o'.cache k).map fun v => (v, o')

/-! ### `eigval` / `eigvec` -/

/-- the two slots -/
structure EigSt (V : Type) where
  val : Option V
  vec : Option V
  deriving DecidableEq, Repr

inductive EigCond where
  | valNone | vecNone
  | or (a b : EigCond) | and (a b : EigCond) | not (a : EigCond)
  deriving DecidableEq, Repr

def eigCond? : E → Option EigCond
  | .op o (.cons a (.cons b .nil)) =>
    if o = "is" then
      (if a = .v "self._eigval" ∧ b = .none then some .valNone
       else if a = .v "self._eigvec" ∧ b = .none then some .vecNone else Option.none)
    else if o = "is not" then
      (if a = .v "self._eigval" ∧ b = .none then some (.not .valNone)
       else if a = .v "self._eigvec" ∧ b = .none then some (.not .vecNone) else Option.none)
    else if o = "or" then
      (match eigCond? a, eigCond? b with
       | some x, some y => some (.or x y)
       | _, _ => Option.none)
    else if o = "and" then
      (match eigCond? a, eigCond? b with
       | some x, some y => some (.and x y)
       | _, _ => Option.none)
    else Option.none
  | .op o (.cons a .nil) => if o = "not" then (eigCond? a).map .not else Option.none
  | _ => Option.none

def EigCond.eval {V : Type} (s : EigSt V) : EigCond → Bool
  | .valNone => s.val.isNone
  | .vecNone => s.vec.isNone
  | .or a b => a.eval s || b.eval s
  | .and a b => a.eval s && b.eval s
  | .not a => !a.eval s

/-- which of the two slots a statement of `_compute_eigendecomposition` stores; freezing `_eigval` is allowed -/
def computeStore? (s : S) : Option (Bool × Bool) :=
  match s with
  | .assign (.tup (.cons (.v x) (.cons (.v y) .nil))) (.call g _) =>
    if g = "nla.eigh" ∧ x = "self._eigval" ∧ y = "eigvec" then some (true, false) else Option.none
  | .assign (.v x) (.call g (.cons (.v y) .nil)) =>
    if x = "self._eigvec" ∧ g = "OrthogonalMatrix" ∧ y = "eigvec" then some (false, true) else Option.none
  | .assign (.v x) (.v c) => if x = "self._eigval.flags.writeable" ∧ c = "False" then some (false, false) else Option.none
  | _ => Option.none

/-- the slots `_compute_eigendecomposition` stores — both from the ONE `nla.eigh(self.array)` call -/
def computeStores : List S → Option (Bool × Bool)
  | [] => some (false, false)
  | s :: l => (computeStore? s).bind fun r => (computeStores l).map fun r' => (r.1 || r'.1, r.2 || r'.2)

inductive Which | val | vec
  deriving DecidableEq, Repr

def Which.attr : Which → String
  | .val => "self._eigval"
  | .vec => "self._eigvec"

def Which.proj {V : Type} (s : EigSt V) : Which → Option V
  | .val => s.val
  | .vec => s.vec

/-- the guard of an `eigval` / `eigvec` property body: `if <guard>: self._compute_eigendecomposition()` followed
by `return self._eigval` / `self._eigvec` -/
def eigShape? (w : Which) (body : List S) : Option EigCond :=
  match body with
  | [.ifc c t f, .ret r] =>
    if t = S.b [.expr (.call "self._compute_eigendecomposition" (E.l []))] ∧ f = S.b [] ∧ r = .v w.attr then eigCond? c
    else Option.none
  | _ => Option.none

/-- **`eigval` / `eigvec` read from their statement lists**: the guard is evaluated on the two slots; if it holds
`_compute_eigendecomposition` (read from ITS statement list) overwrites the slots it stores with the components
of one decomposition `dec`; the requested slot is returned. -/
def eigPass {V : Type} (w : Which) (body compute : List S) (dec : V × V) (s : EigSt V) : Option (V × EigSt V) :=
  (eigShape? w body).bind fun c => (computeStores compute).bind fun st =>
    let s' : EigSt V :=
      if c.eval s then ⟨if st.1 then some dec.1 else s.val, if st.2 then some dec.2 else s.vec⟩ else s
    (w.proj s').map fun v => (v, s')

/-! ### `Matrix.__getstate__` -/

inductive GAct where
  /-- `state = self.__dict__.copy()` -/
  | copyDict
  /-- `state["<name>"] = None` -/
  | dropSlot (name : String)
  /-- `return state` -/
  | returnState
  deriving DecidableEq, Repr

def gAct? (s : S) : Option GAct :=
  match s with
  | .assign (.v x) (.call g .nil) => if x = "state" ∧ g = "self.__dict__.copy" then some .copyDict else Option.none
  | .assign (.sub (.v x) (.s nm)) .none => if x = "state" then some (.dropSlot nm) else Option.none
  | .ret (.v x) => if x = "state" then some .returnState else Option.none
  | _ => Option.none

def gPlan : List S → Option (List GAct)
  | [] => some []
  | s :: l => (gAct? s).bind fun a => (gPlan l).map fun as => a :: as

/-- run the actions: `(state being built, returned)` -/
def runG (slotOf : String → Option K) (o : Obj P K V) : List GAct → Option (Obj P K V) → Option (Obj P K V)
  | [], _ => Option.none
  | .copyDict :: l, _ => runG slotOf o l (some o)
  | .dropSlot nm :: l, st =>
    match st, slotOf nm with
    | some s, some k => runG slotOf o l (some { s with cache := fun j => if j = k then Option.none else s.cache j })
    | _, _ => Option.none
  | .returnState :: _, st => st

/-- **`__getstate__` read from its statement list**: the pickled state as an object of the cache model
(`slotOf` maps attribute names to slots; dropping an attribute that is not a cache slot is rejected). -/
def getstatePass (body : List S) (slotOf : String → Option K) (o : Obj P K V) : Option (Obj P K V) :=
  (gPlan body).bind fun acts => runG slotOf o acts Option.none

/-! ### `utils.hash_array` -/

/-- dtype classes -/
inductive DType | f64 | f32 | int | bool | complex | object
  deriving DecidableEq, Repr

/-- array entries: exact numbers, plus the IEEE negative zero (which compares equal to `0`) -/
inductive Val | num (q : Int) | negZero
  deriving DecidableEq, Repr

structure Arr where
  dtype : DType
  vals : List Val
  deriving DecidableEq, Repr

/-- `x + 0.0` -/
def Val.addZero : Val → Val
  | .negZero => .num 0
  | v => v

/-- integer, floating and bool arrays hold real numbers (`np.array_equal` compares them by value) -/
def DType.real : DType → Bool
  | .f64 | .f32 | .int | .bool => true
  | _ => false

/-- `np.array_equal` on real arrays of one shape: equal values, `-0.0 == 0.0` -/
def Arr.valueEq (a b : Arr) : Prop := a.vals.map Val.addZero = b.vals.map Val.addZero

inductive HCond where
  | isF64 | isInteger | isFloating | isBool
  | or (a b : HCond) | and (a b : HCond) | not (a : HCond) | false_ | true_
  deriving DecidableEq, Repr

mutual
/-- a condition on `array.dtype` -/
def hcond? : E → Option HCond
  | .op o args =>
    if o = "or" then hcondOr? args
    else if o = "and" then hcondAnd? args
    else match args with
      | .cons a (.cons b .nil) =>
        if a = .v "array.dtype" ∧ b = .v "np.float64" then
          (if o = "==" then some .isF64 else if o = "!=" then some (.not .isF64) else Option.none)
        else if a = .v "array.dtype" ∧ b = .v "np.bool_" then
          (if o = "==" then some .isBool else if o = "!=" then some (.not .isBool) else Option.none)
        else Option.none
      | _ => Option.none
  | .call g (.cons a (.cons b .nil)) =>
    if g = "np.issubdtype" ∧ a = .v "array.dtype" then
      (if b = .v "np.integer" then some .isInteger else if b = .v "np.floating" then some .isFloating else Option.none)
    else Option.none
  | _ => Option.none
/-- n-ary `or` -/
def hcondOr? : E → Option HCond
  | .nil => some .false_
  | .cons h t =>
    match hcond? h, hcondOr? t with
    | some x, some y => some (.or x y)
    | _, _ => Option.none
  | _ => Option.none
/-- n-ary `and` -/
def hcondAnd? : E → Option HCond
  | .nil => some .true_
  | .cons h t =>
    match hcond? h, hcondAnd? t with
    | some x, some y => some (.and x y)
    | _, _ => Option.none
  | _ => Option.none
end

def HCond.eval (d : DType) : HCond → Bool
  | .isF64 => d = .f64
  | .isInteger => d = .int
  | .isFloating => d = .f64 || d = .f32
  | .isBool => d = .bool
  | .or a b => a.eval d || b.eval d
  | .and a b => a.eval d && b.eval d
  | .not a => !a.eval d
  | .false_ => false
  | .true_ => true

inductive HAct where
  /-- `if <c>: array = array.astype(np.float64)` -/
  | castIf (c : HCond)
  /-- `if <c>: array = array + 0.0` -/
  | addZeroIf (c : HCond)
  /-- `if XXHASH_AVAILABLE:` digest of `array.view(np.byte).data` and of dtype / shape / strides of `array` -/
  | digestXX
  /-- `return hash(array.tobytes())` -/
  | digestBuiltin
  deriving DecidableEq, Repr

/-- the xxhash block: everything it hashes is read from the variable `array` -/
def xxBlock : S :=
  .ifc (.v "XXHASH_AVAILABLE")
    (S.b [.assign (.v "h") (.call "xxhash.xxh64" (E.l [])),
          .expr (.call "h.update" (E.l [.attr (.call "array.view" (E.l [.v "np.byte"])) "data"])),
          .expr (.call "h.update" (E.l [.call "bytes" (E.l [.src "f'{array.dtype}{array.shape}{array.strides}'", .s "utf-8"])])),
          .ret (.call "h.intdigest" (E.l []))])
    (S.b [])

def hAct? (s : S) : Option HAct :=
  if s = xxBlock then some .digestXX
  else if s = .ret (.call "hash" (E.l [.call "array.tobytes" (E.l [])])) then some .digestBuiltin
  else match s with
    | .ifc c t f =>
      if f = S.b [] then
        if t = S.b [.assign (.v "array") (.call "array.astype" (E.l [.v "np.float64"]))] then (hcond? c).map .castIf
        else if t = S.b [.assign (.v "array") (.op "+" (E.l [.v "array", .call "float" (E.l [.s "0.0"])]))] then
          (hcond? c).map .addZeroIf
        else Option.none
      else Option.none
    | _ => Option.none

def hPlan : List S → Option (List HAct)
  | [] => some []
  | s :: l => (hAct? s).bind fun a => (hPlan l).map fun as => a :: as

/-- run the actions on the local variable `array`; the result is the array whose bytes (and dtype) are digested —
both digests read nothing else.  `astype(np.float64)` keeps the values (exact for the integers and floats the
matrix classes hold), `+ 0.0` maps `-0.0` to `0.0`. -/
def runH : List HAct → Arr → Bool → Option Arr
  | [], _, _ => Option.none
  | .castIf c :: l, a, _ => runH l (if c.eval a.dtype then ⟨.f64, a.vals⟩ else a) false
  | .addZeroIf c :: l, a, _ => runH l (if c.eval a.dtype then ⟨a.dtype, a.vals.map Val.addZero⟩ else a) false
  | .digestXX :: l, a, _ => runH l a true
  | .digestBuiltin :: _, a, xx => if xx then some a else Option.none

/-- **`hash_array` read from its statement list**: the (dtype class, values) that are digested. -/
def hashPass (body : List S) (a : Arr) : Option Arr :=
  (hPlan body).bind fun acts => runH acts a false

end VSem

end MiciVerif.Skel
