/-
Model of the Hamiltonian-system classes of `mici/systems.py`: the eight methods
`h1 h2 h dh1_dpos dh2_dpos dh2_dmom dh_dpos dh_dmom` of

* `EuclideanMetricSystem`, `GaussianEuclideanMetricSystem`
* `DenseConstrainedEuclideanMetricSystem` (both density conventions),
  `GaussianDenseConstrainedEuclideanMetricSystem`
* `RiemannianMetricSystem` with the metric classes used by `Scalar/Diagonal/CholeskyFactored/
  DenseRiemannianMetricSystem` (SoftAbs: through its spectral data)

written as the code writes them, over an arbitrary commutative ring `R` so that the *same*
definitions can be evaluated at `R = K` (values, executed over ℚ by the driver) and at
`R = K[ε]` (dual numbers: exact first-order derivatives, used by the theorems).

* `half` is the literal `0.5` (hypothesis `2 * half = 1` where needed).
* User functions (`neg_log_dens`, its gradient, `constr`, `jacob_constr`, `mhp_constr`,
  `metric_func`, `vjp_metric_func`) are parameters.
* `metric.inv`, the Gram inverse, the inverse of a Cholesky factor are checked data.
* `logabs` stands for `x ↦ log |x|` (transcendental; an uninterpreted parameter — only its
  logarithmic-derivative rule is ever assumed, see Props/C05).
-/
import Mathlib.Data.Matrix.Mul
import Mathlib.LinearAlgebra.Matrix.Determinant.Basic
import Mathlib.LinearAlgebra.Matrix.Trace

namespace MiciVerif.Systems
open Matrix

variable {R : Type*} [CommRing R] {n c κ : Type*} [Fintype n] [Fintype c] [Fintype κ]

/-- The eight methods of a `System` at a state `(q, p)`. -/
structure Methods (R : Type*) (n : Type*) where
  h1 : (n → R) → (n → R) → R
  h2 : (n → R) → (n → R) → R
  h : (n → R) → (n → R) → R
  dh1_dpos : (n → R) → (n → R) → n → R
  dh2_dpos : (n → R) → (n → R) → n → R
  dh2_dmom : (n → R) → (n → R) → n → R
  dh_dpos : (n → R) → (n → R) → n → R
  dh_dmom : (n → R) → (n → R) → n → R

/-- The documented relations between the total Hamiltonian and its two components. -/
def Methods.Consistent (m : Methods R n) : Prop :=
  (∀ q p, m.h q p = m.h1 q p + m.h2 q p) ∧
  (∀ q p, m.dh_dpos q p = m.dh1_dpos q p + m.dh2_dpos q p) ∧
  (∀ q p, m.dh_dmom q p = m.dh2_dmom q p)

/-- `½ pᵀ N p` -/
def kinetic (half : R) (N : Matrix n n R) (p : n → R) : R := half * (p ⬝ᵥ N *ᵥ p)

/-! ### Euclidean metric systems (systems.py:264-366) -/

/-- `EuclideanMetricSystem`; `N` is `metric.inv`.  `h2 = 0.5 * mom @ dh2_dmom`,
`dh2_dpos = zeros`, `dh_dpos` is overridden to return `dh1_dpos` only. -/
def euclidean (half : R) (N : Matrix n n R) (ell : (n → R) → R) (gradEll : (n → R) → n → R) :
    Methods R n where
  h1 := fun q _ => ell q
  h2 := fun _ p => half * (p ⬝ᵥ N *ᵥ p)
  h := fun q p => ell q + half * (p ⬝ᵥ N *ᵥ p)
  dh1_dpos := fun q _ => gradEll q
  dh2_dpos := fun _ _ => 0
  dh2_dmom := fun _ p => N *ᵥ p
  dh_dpos := fun q _ => gradEll q
  dh_dmom := fun _ p => N *ᵥ p

/-- `GaussianEuclideanMetricSystem` (systems.py:451-465):
`h2 = 0.5 * pos @ pos + 0.5 * mom @ metric.inv @ mom`, `dh2_dpos = pos`,
`dh_dpos = dh1_dpos + dh2_dpos`. -/
def gaussianEuclidean (half : R) (N : Matrix n n R) (ell : (n → R) → R)
    (gradEll : (n → R) → n → R) : Methods R n where
  h1 := fun q _ => ell q
  h2 := fun q p => half * (q ⬝ᵥ q) + half * (p ⬝ᵥ N *ᵥ p)
  h := fun q p => ell q + (half * (q ⬝ᵥ q) + half * (p ⬝ᵥ N *ᵥ p))
  dh1_dpos := fun q _ => gradEll q
  dh2_dpos := fun q _ => q
  dh2_dmom := fun _ p => N *ᵥ p
  dh_dpos := fun q _ => gradEll q + q
  dh_dmom := fun _ p => N *ᵥ p

/-! ### constrained systems (systems.py:804-876, 1013-1034) -/

/-- `gram(state)` = `jacob_constr @ metric.inv @ jacob_constr.T` -/
def gram (J : Matrix c n R) (N : Matrix n n R) : Matrix c c R := J * (N * Jᵀ)

/-- The Gram-determinant part of `h1`/`dh1_dpos` of a constrained system:
`log_det_sqrt_gram = 0.5 * gram.log_abs_det` and
`grad_log_det_sqrt_gram = mhp_constr(state)(inv_gram @ jacob_constr @ metric.inv)`.
`Ginv q` is the (checked) inverse of the Gram matrix at `q`. -/
structure ConstraintFns (R : Type*) (n c : Type*) where
  jacob : (n → R) → Matrix c n R
  /-- `mhp_constr(q)(m)` -/
  mhp : (n → R) → Matrix c n R → n → R
  Ginv : (n → R) → Matrix c c R

def logDetSqrtGram [DecidableEq c] (half : R) (logabs : R → R) (C : ConstraintFns R n c) (N : Matrix n n R)
    (q : n → R) : R :=
  half * logabs (gram (C.jacob q) N).det

def gradLogDetSqrtGram (C : ConstraintFns R n c) (N : Matrix n n R) (q : n → R) : n → R :=
  C.mhp q (C.Ginv q * C.jacob q * N)

/-- `DenseConstrainedEuclideanMetricSystem` with `dens_wrt_hausdorff`; kinetic part and
`dh_dpos` are inherited from `EuclideanMetricSystem` (`dh_dpos = dh1_dpos`). -/
def denseConstrained [DecidableEq c] (hausdorff : Bool) (half : R) (logabs : R → R) (N : Matrix n n R)
    (ell : (n → R) → R) (gradEll : (n → R) → n → R) (C : ConstraintFns R n c) : Methods R n :=
  let h1 : (n → R) → R := fun q => if hausdorff then ell q else ell q + logDetSqrtGram half logabs C N q
  let dh1 : (n → R) → n → R := fun q =>
    if hausdorff then gradEll q else gradEll q + gradLogDetSqrtGram C N q
  { h1 := fun q _ => h1 q
    h2 := fun _ p => half * (p ⬝ᵥ N *ᵥ p)
    h := fun q p => h1 q + half * (p ⬝ᵥ N *ᵥ p)
    dh1_dpos := fun q _ => dh1 q
    dh2_dpos := fun _ _ => 0
    dh2_dmom := fun _ p => N *ᵥ p
    dh_dpos := fun q _ => dh1 q
    dh_dmom := fun _ p => N *ᵥ p }

/-- `GaussianDenseConstrainedEuclideanMetricSystem`: Gaussian-split `h2`, `dh2_dpos`,
`dh_dpos`; `h1`, `dh1_dpos` of the constrained system with `dens_wrt_hausdorff = False`. -/
def gaussianDenseConstrained [DecidableEq c] (half : R) (logabs : R → R) (N : Matrix n n R)
    (ell : (n → R) → R) (gradEll : (n → R) → n → R) (C : ConstraintFns R n c) : Methods R n :=
  let h1 : (n → R) → R := fun q => ell q + logDetSqrtGram half logabs C N q
  let dh1 : (n → R) → n → R := fun q => gradEll q + gradLogDetSqrtGram C N q
  { h1 := fun q _ => h1 q
    h2 := fun q p => half * (q ⬝ᵥ q) + half * (p ⬝ᵥ N *ᵥ p)
    h := fun q p => h1 q + (half * (q ⬝ᵥ q) + half * (p ⬝ᵥ N *ᵥ p))
    dh1_dpos := fun q _ => dh1 q
    dh2_dpos := fun q _ => q
    dh2_dmom := fun _ p => N *ᵥ p
    dh_dpos := fun q _ => dh1 q + q
    dh_dmom := fun _ p => N *ᵥ p }

/-! ### Riemannian metric systems (systems.py:1378-1402) -/

/-- What `RiemannianMetricSystem` uses of a differentiable metric-matrix class with parameter
array indexed by `κ` (`()` for the scalar class, `n` for diagonal, `n × n` for
Cholesky-factored and dense). -/
structure MetricClass (R : Type*) (κ n : Type*) where
  /-- the matrix represented -/
  metric : (κ → R) → Matrix n n R
  /-- `.inv` as a dense matrix (checked data) -/
  inv : (κ → R) → Matrix n n R
  /-- `.grad_log_abs_det` -/
  gradLogAbsDet : (κ → R) → κ → R
  /-- `.grad_quadratic_form_inv(vector)` -/
  gradQuadFormInv : (κ → R) → (n → R) → κ → R

/-- `metric_func` and `vjp_metric_func`: `θ q` the parameter array, `jac q k i = ∂θ_k/∂q_i`;
`vjp(v)_i = Σ_k v_k ∂θ_k/∂q_i`. -/
structure MetricFns (R : Type*) (κ n : Type*) where
  θ : (n → R) → κ → R
  jac : (n → R) → κ → n → R

def MetricFns.vjp (F : MetricFns R κ n) (q : n → R) (v : κ → R) : n → R :=
  fun i => ∑ k, v k * F.jac q k i

/-- `RiemannianMetricSystem` (generic). -/
def riemannian [DecidableEq n] (half : R) (logabs : R → R) (ell : (n → R) → R)
    (gradEll : (n → R) → n → R) (Mc : MetricClass R κ n) (F : MetricFns R κ n) : Methods R n :=
  let h1 : (n → R) → R := fun q => ell q + half * logabs (Mc.metric (F.θ q)).det
  let h2 : (n → R) → (n → R) → R := fun q p => half * (p ⬝ᵥ Mc.inv (F.θ q) *ᵥ p)
  let dh1 : (n → R) → n → R := fun q => gradEll q + half • F.vjp q (Mc.gradLogAbsDet (F.θ q))
  let dh2 : (n → R) → (n → R) → n → R := fun q p => half • F.vjp q (Mc.gradQuadFormInv (F.θ q) p)
  { h1 := fun q _ => h1 q
    h2 := h2
    h := fun q p => h1 q + h2 q p
    dh1_dpos := fun q _ => dh1 q
    dh2_dpos := dh2
    dh2_dmom := fun q p => Mc.inv (F.θ q) *ᵥ p
    dh_dpos := fun q p => dh1 q + dh2 q p
    dh_dmom := fun q p => Mc.inv (F.θ q) *ᵥ p }

/-! #### the metric classes (matrices.py) — `Ninv`, `Linv` are checked inverses -/

/-- `PositiveScaledIdentityMatrix(s, size)`: `grad_log_abs_det = size / s`,
`grad_quadratic_form_inv(v) = -sum(v**2) / s**2`; `sinv` is `1/s`. -/
def scalarClass [DecidableEq n] (sinv : R → R) : MetricClass R Unit n where
  metric := fun θ => θ () • (1 : Matrix n n R)
  inv := fun θ => sinv (θ ()) • (1 : Matrix n n R)
  gradLogAbsDet := fun θ _ => (Fintype.card n : R) * sinv (θ ())
  gradQuadFormInv := fun θ v _ => -(∑ i, v i * v i) * (sinv (θ ()) * sinv (θ ()))

/-- `PositiveDiagonalMatrix(d)`: `grad_log_abs_det = 1 / d`,
`grad_quadratic_form_inv(v) = -(inv @ v)**2`. -/
def diagClass [DecidableEq n] (dinv : R → R) : MetricClass R n n where
  metric := fun θ => Matrix.diagonal θ
  inv := fun θ => Matrix.diagonal fun i => dinv (θ i)
  gradLogAbsDet := fun θ i => dinv (θ i)
  gradQuadFormInv := fun θ v i => -((dinv (θ i) * v i) * (dinv (θ i) * v i))

/-- `DensePositiveDefiniteMatrix(M)`: `grad_log_abs_det = inv.array`,
`grad_quadratic_form_inv(v) = -outer(inv @ v, inv @ v)`. -/
def denseClass (Ninv : (n × n → R) → Matrix n n R) : MetricClass R (n × n) n where
  metric := fun θ => Matrix.of fun i j => θ (i, j)
  inv := Ninv
  gradLogAbsDet := fun θ ij => Ninv θ ij.1 ij.2
  gradQuadFormInv := fun θ v ij => -((Ninv θ *ᵥ v) ij.1 * (Ninv θ *ᵥ v) ij.2)

/-- `TriangularFactoredPositiveDefiniteMatrix(L, factor_is_lower=True)`: the matrix is `L Lᵀ`,
`grad_log_abs_det = diag(2 / diag(L))`,
`grad_quadratic_form_inv(v) = tril(-2 * outer(inv @ v, L⁻¹ @ v))`.
`Linv θ` is the inverse of the factor, `dinv` is `x ↦ 1/x`; `lower i j` is `j ≤ i`. -/
def cholClass [DecidableEq n] (lower : n → n → Bool) (dinv : R → R) (Linv : (n × n → R) → Matrix n n R) :
    MetricClass R (n × n) n where
  metric := fun θ => (Matrix.of fun i j => θ (i, j)) * (Matrix.of fun i j => θ (i, j))ᵀ
  inv := fun θ => (Linv θ)ᵀ * Linv θ
  gradLogAbsDet := fun θ ij => if ij.1 = ij.2 then 2 * dinv (θ (ij.1, ij.1)) else 0
  gradQuadFormInv := fun θ v ij =>
    if lower ij.1 ij.2 then -2 * ((((Linv θ)ᵀ * Linv θ) *ᵥ v) ij.1 * (Linv θ *ᵥ v) ij.2) else 0

end MiciVerif.Systems
