/-
The standard model of floating-point arithmetic as an interpretation of the primitives of
`Model/LogRep.lean` (C20, "near machine precision").

`roundedPrims R : Prims XReal` gives every primitive *call* and every arithmetic operation the
exact real result times `(1 + δ)`, where `δ` is read from a perturbation environment
`R : Rounding u` whose entries are all bounded by the unit round-off `u`:

  `fl(exp x) = exp x · (1 + R.dExp x)`,  `fl(x + y) = (x + y) · (1 + R.dAdd x y)`, …

The environment is indexed by the arguments of the operation (a floating-point operation is a
deterministic function of its arguments), and it is *arbitrary* apart from the bound, so a
theorem `∀ R : Rounding u, …` is a statement about every arithmetic that satisfies the standard
model with unit round-off `u` — round-to-nearest IEEE doubles for `+ - * /` with
`u = 2^-53`, a libm whose `exp/log/log1p/expm1` are within 1 ulp with `u = 2^-52`.

What the model does NOT contain (and what every theorem about it therefore assumes):
* **no underflow and no overflow**: a result is never flushed to `0`, to a subnormal with fewer
  bits, or to `±inf`; `exp` never raises `OverflowError`;
* negation and comparisons are exact, `0.0` is exact, `LOG_2 = log(2.0)` is itself a rounded
  primitive call (`log 2 · (1 + R.dLog 2)`), so the branch point of `log1m_exp` is the
  *rounded* constant;
* the specials (`±inf`, `nan`, raised exception) behave as in `Lemmas/LogRepReal.lean`
  (`realPrims false`), only finite results are perturbed.

The definitions `log1pExp`, `log1mExp`, `logSumExp`, `logDiffExp`, `LogRepF.*` are NOT restated:
the theorems of `Props/C20R.lean` are about `LogRep.log1pExp (roundedPrims R)` etc., the very
definitions that are executed against the code (Driver/C20) and proved equal to the translated
source (Props/C20S).
-/
import MiciVerif.Lemmas.LogRepReal

namespace MiciVerif.LogRep

/-- A perturbation environment: one relative error per operation and argument tuple, all
bounded by the unit round-off `u`. -/
structure Rounding (u : ℝ) where
  dExp : ℝ → ℝ
  dLog : ℝ → ℝ
  dLog1p : ℝ → ℝ
  dExpm1 : ℝ → ℝ
  dAdd : ℝ → ℝ → ℝ
  dSub : ℝ → ℝ → ℝ
  dMul : ℝ → ℝ → ℝ
  dDiv : ℝ → ℝ → ℝ
  exp_le : ∀ x, |dExp x| ≤ u
  log_le : ∀ x, |dLog x| ≤ u
  log1p_le : ∀ x, |dLog1p x| ≤ u
  expm1_le : ∀ x, |dExpm1 x| ≤ u
  add_le : ∀ x y, |dAdd x y| ≤ u
  sub_le : ∀ x y, |dSub x y| ≤ u
  mul_le : ∀ x y, |dMul x y| ≤ u
  div_le : ∀ x y, |dDiv x y| ≤ u

/-- The exact arithmetic is a rounding environment for every `u ≥ 0`. -/
def Rounding.exact {u : ℝ} (hu : 0 ≤ u) : Rounding u where
  dExp _ := 0
  dLog _ := 0
  dLog1p _ := 0
  dExpm1 _ := 0
  dAdd _ _ := 0
  dSub _ _ := 0
  dMul _ _ := 0
  dDiv _ _ := 0
  exp_le _ := by simpa using hu
  log_le _ := by simpa using hu
  log1p_le _ := by simpa using hu
  expm1_le _ := by simpa using hu
  add_le _ _ := by simpa using hu
  sub_le _ _ := by simpa using hu
  mul_le _ _ := by simpa using hu
  div_le _ _ := by simpa using hu

/-- The environment in which only `exp` is perturbed, by the constant relative error `d`. -/
def Rounding.onlyExp {u : ℝ} (d : ℝ) (hd : |d| ≤ u) : Rounding u :=
  { Rounding.exact ((abs_nonneg d).trans hd) with
    dExp := fun _ => d
    exp_le := fun _ => hd }

/-- The environment in which only `expm1` is perturbed, by the constant relative error `d`. -/
def Rounding.onlyExpm1 {u : ℝ} (d : ℝ) (hd : |d| ≤ u) : Rounding u :=
  { Rounding.exact ((abs_nonneg d).trans hd) with
    dExpm1 := fun _ => d
    expm1_le := fun _ => hd }

namespace XReal

/-- a finite value times `(1 + d)`; specials are unchanged -/
noncomputable def scale (d : ℝ) : XReal → XReal
  | fin r => fin (r * (1 + d))
  | x => x

/-- a unary primitive with the relative error `d x` on finite arguments -/
noncomputable def rnd1 (d : ℝ → ℝ) (f : XReal → XReal) : XReal → XReal
  | fin r => scale (d r) (f (fin r))
  | x => f x

/-- a binary operation with the relative error `d x y` on finite arguments -/
noncomputable def rnd2 (d : ℝ → ℝ → ℝ) (f : XReal → XReal → XReal) : XReal → XReal → XReal
  | fin a, fin b => scale (d a b) (f (fin a) (fin b))
  | x, y => f x y

end XReal

/-- The primitives in the standard model of floating-point arithmetic with the perturbation
environment `R` (no underflow/overflow; negation, comparisons and `0.0` exact). -/
noncomputable def roundedPrims {u : ℝ} (R : Rounding u) : Prims XReal where
  exp := XReal.rnd1 R.dExp (XReal.exp false)
  expSat := XReal.rnd1 R.dExp (XReal.exp false)
  log := XReal.rnd1 R.dLog XReal.log
  log1p := XReal.rnd1 R.dLog1p (XReal.log1p false)
  expm1 := XReal.rnd1 R.dExpm1 (XReal.expm1 false)
  add := XReal.rnd2 R.dAdd XReal.add
  sub := XReal.rnd2 R.dSub XReal.sub
  mul := XReal.rnd2 R.dMul XReal.mul
  div := XReal.rnd2 R.dDiv XReal.div
  neg := XReal.neg
  lt := XReal.lt
  le := XReal.le
  eq := XReal.beq
  zero := .fin 0
  negInf := .negInf
  nan := .nan
  log2 := .fin (Real.log 2 * (1 + R.dLog 2))
  err := .err

/-- `log_sum_exp` WITHOUT ordering the operands (`val1 + log1p_exp(val2 - val1)` whichever is
larger; the argument "log1p_exp is stable for either sign" is tempting): not the code — kept only
to state that the ordering matters for accuracy (`Props.C20R.unordered_pivot_loses_accuracy`). -/
def logSumExpUnordered {F : Type} (P : Prims F) (val1 val2 : F) : F :=
  if P.eq val1 P.negInf then val2
  else P.add val1 (log1pExp P (P.sub val2 val1))

open Classical in
/-- The environment in which only the addition of the particular operands `(x, y)` is perturbed,
by `d`. -/
noncomputable def Rounding.onlyAddAt {u : ℝ} (x y d : ℝ) (hd : |d| ≤ u) : Rounding u :=
  { Rounding.exact ((abs_nonneg d).trans hd) with
    dAdd := fun a b => if a = x ∧ b = y then d else 0
    add_le := fun a b => by
      by_cases h : a = x ∧ b = y
      · simp only [h, and_self, if_true]; exact hd
      · simp only [h, if_false, abs_zero]; exact (abs_nonneg d).trans hd }

/-- A sequence of in-place additions `x += o₁; x += o₂; …` (left fold of `LogRepF.iadd`, the model
of `LogRepFloat.__iadd__`). -/
def LogRepF.iaddAll {F : Type} (P : Prims F) (x : LogRepF F) (os : List (Scalar F)) : LogRepF F :=
  os.foldl (fun acc o => acc.iadd P o) x

/-- the exact log-value after accumulating weights with log-values `ls` into a weight with
log-value `L`: `log(e^L + Σ e^l)`, as the iterated exact `log_sum_exp` -/
noncomputable def exactAcc (L : ℝ) : List ℝ → ℝ
  | [] => L
  | l :: ls => exactAcc (Real.log (Real.exp L + Real.exp l)) ls

theorem exp_exactAcc (L : ℝ) (ls : List ℝ) :
    Real.exp (exactAcc L ls) = Real.exp L + (ls.map Real.exp).sum := by
  induction ls generalizing L with
  | nil => simp [exactAcc]
  | cons l ls ih =>
    rw [exactAcc, ih, Real.exp_log (by positivity)]
    simp [add_assoc]

end MiciVerif.LogRep
