/-
Control skeleton of the chain / stage orchestration of `mici.samplers`, as a deep embedding.

* `Skel.E`, `Skel.S`: expression / statement trees.  `tools/extractors/sampler_skeleton.py`
  translates the *current* source of `_sample_chain`, `_sample_chains_sequential`,
  `_sample_chains_worker`, `_sample_chains_parallel`, `_finalize_adapters`,
  `_collate_chain_outputs`, `_update_chain_stats`, `_flush_memmap_chain_data` and
  `MarkovChainMonteCarloMethod.sample_chains` into such trees on every run
  (`Generated/SamplerSkeleton.lean`).
* `Skel.Expected.*`: the trees that the definitions of `Model/Sampler.lean` were written
  against.  Every node carries a comment naming the definition / field of `Model/Sampler.lean`
  (`M:`) it justifies, or says that the model abstracts from it (`not modelled`).
  `Props/C13S.lean`, `C14S.lean`, `C15S.lean`, `C16K.lean` prove `generated = expected` (kernel
  evaluation of the derived `DecidableEq`) and re-derive the individual facts from the generated
  trees with the queries defined below.
* `Skel.Sem`: a reading of statement lists as functions on the model's state (`Sampler.Sys`, `Run`,
  `Acc`): each recognised statement shape is mapped to the abstract action it stands for (anything
  else is rejected) and the actions are executed in source order.  Five readings: the stage-loop body
  of `sample_chains` (`stagePass`), the iteration body of `_sample_chain` (`iterPass`), the whole
  body of `_sample_chain` (`chainPass`), `_sample_chains_sequential` (`seqPass`) and the collation
  block of `_sample_chains_parallel` (`collatePass`).  The Props modules prove that the readings of
  the bodies *generated from the current source* are `Sampler.runStage`, `iterOps`, `sampleChain`,
  `stageSeq` and `stagePar … (restore := true)`, for every kernel, state, stage, mode, schedule and
  interrupt point (`sem_…` theorems).  What a reading assumes is visible in its definition: e.g.
  `adapters is not None` iff the stage is not the main stage, the chain iterator has `stage.n_iter`
  elements, `results.get()` are the workers' output lists.

Lists are encoded inside the inductives (`E.cons`/`E.nil`, `S.seq`/`S.skip`) so that `DecidableEq`
can be derived (Lean does not derive it for nested inductives); `E.l` / `S.b` build them from
ordinary lists and `E.items` / `S.stmts` read them back.

Core Lean only.
-/
import MiciVerif.Model.Sampler

namespace MiciVerif.Skel

/-- Expressions (conditions, arguments, assignment targets). -/
inductive E where
  /-- a (dotted) name: `stage.n_iter` -/
  | v (name : String)
  | n (k : Int)
  | s (lit : String)
  | none
  /-- `f(args)`, `f` a dotted name; `args` is an `E.l` list whose keyword arguments are `kw` -/
  | call (f : String) (args : E)
  /-- `obj.name(args)` where `obj` is not a dotted name -/
  | meth (obj : E) (name : String) (args : E)
  | attr (obj : E) (name : String)
  | sub (a i : E)
  /-- comparison / boolean / arithmetic operator applied to an `E.l` list -/
  | op (o : String) (args : E)
  /-- `a if c else b` -/
  | ite (c a b : E)
  | tup (items : E)
  | lst (items : E)
  /-- `*e` -/
  | star (e : E)
  /-- `name=e` -/
  | kw (name : String) (e : E)
  /-- `**e` -/
  | kwstar (e : E)
  /-- with-item `e as name` -/
  | as_ (e name : E)
  /-- comprehension / lambda / dict display / f-string: kept as exact normalised source text -/
  | src (text : String)
  | nil
  | cons (h t : E)
  /-- an expression the extractor does not understand (fail closed) -/
  | unk (text : String)
  deriving DecidableEq, Repr

/-- Statements. -/
inductive S where
  | skip
  | seq (h t : S)
  | expr (e : E)
  | assign (tgt e : E)
  | aug (tgt : E) (o : String) (e : E)
  | ifc (c : E) (t f : S)
  | loop (tgt iter : E) (body : S)
  | while_ (c : E) (body : S)
  /-- `handlers` is an `S.b` list of `handler` nodes -/
  | try_ (body handlers els fin : S)
  | handler (exc : E) (name : String) (body : S)
  | with_ (items : E) (body : S)
  | ret (e : E)
  | raise_ (e cause : E)
  | cont
  | brk
  /-- a statement the extractor does not understand (fail closed) -/
  | unknown (text : String)
  deriving DecidableEq, Repr

def E.l (xs : List E) : E := xs.foldr E.cons E.nil
def S.b (xs : List S) : S := xs.foldr S.seq S.skip

/-- inverse of `E.l` -/
def E.items : E → List E
  | .cons h t => h :: t.items
  | _ => []

/-- inverse of `S.b`: the statements of a block -/
def S.stmts : S → List S
  | .seq h t => h :: t.stmts
  | .skip => []
  | s => [s]

/-- no `unk` node -/
def E.known : E → Bool
  | .unk _ => false
  | .call _ a => a.known
  | .meth o _ a => o.known && a.known
  | .attr o _ => o.known
  | .sub a i => a.known && i.known
  | .op _ a => a.known
  | .ite c a b => c.known && a.known && b.known
  | .tup a => a.known
  | .lst a => a.known
  | .star e => e.known
  | .kw _ e => e.known
  | .kwstar e => e.known
  | .as_ e a => e.known && a.known
  | .cons h t => h.known && t.known
  | _ => true

/-- no `unknown` / `unk` node anywhere -/
def S.known : S → Bool
  | .unknown _ => false
  | .seq h t => h.known && t.known
  | .expr e => e.known
  | .assign t e => t.known && e.known
  | .aug t _ e => t.known && e.known
  | .ifc c t f => c.known && t.known && f.known
  | .loop t i b => t.known && i.known && b.known
  | .while_ c b => c.known && b.known
  | .try_ b h e f => b.known && h.known && e.known && f.known
  | .handler x _ b => x.known && b.known
  | .with_ i b => i.known && b.known
  | .ret e => e.known
  | .raise_ e c => e.known && c.known
  | _ => true

/-- the expression contains a call of the (dotted) function `f` -/
def E.calls (f : String) : E → Bool
  | .call g a => g == f || a.calls f
  | .meth o _ a => o.calls f || a.calls f
  | .attr o _ => o.calls f
  | .sub a i => a.calls f || i.calls f
  | .op _ a => a.calls f
  | .ite c a b => c.calls f || a.calls f || b.calls f
  | .tup a => a.calls f
  | .lst a => a.calls f
  | .star e => e.calls f
  | .kw _ e => e.calls f
  | .kwstar e => e.calls f
  | .as_ e a => e.calls f || a.calls f
  | .cons h t => h.calls f || t.calls f
  | _ => false

/-- the expression mentions the (dotted) name `x` as a variable -/
def E.uses (x : String) : E → Bool
  | .v y => y == x
  | .call _ a => a.uses x
  | .meth o _ a => o.uses x || a.uses x
  | .attr o _ => o.uses x
  | .sub a i => a.uses x || i.uses x
  | .op _ a => a.uses x
  | .ite c a b => c.uses x || a.uses x || b.uses x
  | .tup a => a.uses x
  | .lst a => a.uses x
  | .star e => e.uses x
  | .kw _ e => e.uses x
  | .kwstar e => e.uses x
  | .as_ e a => e.uses x || a.uses x
  | .cons h t => h.uses x || t.uses x
  | _ => false

/-- every statement node of the tree in source order (outer before inner), without the list
constructors -/
def S.all : S → List S
  | .skip => []
  | .seq h t => h.all ++ t.all
  | .ifc c t f => .ifc c t f :: (t.all ++ f.all)
  | .loop t i b => .loop t i b :: b.all
  | .while_ c b => .while_ c b :: b.all
  | .try_ b h e f => .try_ b h e f :: (b.all ++ h.all ++ e.all ++ f.all)
  | .handler x nm b => .handler x nm b :: b.all
  | .with_ i b => .with_ i b :: b.all
  | s => [s]

/-- the statement itself (not its nested blocks) mentions the name `x` -/
def S.usesHere (x : String) : S → Bool
  | .expr e => e.uses x
  | .assign t e => t.uses x || e.uses x
  | .aug t _ e => t.uses x || e.uses x
  | .ifc c _ _ => c.uses x
  | .loop t i _ => t.uses x || i.uses x
  | .while_ c _ => c.uses x
  | .with_ i _ => i.uses x
  | .ret e => e.uses x
  | .raise_ e c => e.uses x || c.uses x
  | _ => false

/-- the statement or one of its nested statements mentions the name `x` -/
def S.usesDeep (x : String) (s : S) : Bool := s.all.any (S.usesHere x)

/-- first call of `f` in the tree: its argument list -/
def E.argsOf (f : String) : E → Option E
  | .call g a => if g = f then some a else a.argsOf f
  | .meth o _ a => (o.argsOf f).or (a.argsOf f)
  | .attr o _ => o.argsOf f
  | .sub a i => (a.argsOf f).or (i.argsOf f)
  | .op _ a => a.argsOf f
  | .ite c a b => ((c.argsOf f).or (a.argsOf f)).or (b.argsOf f)
  | .tup a => a.argsOf f
  | .lst a => a.argsOf f
  | .star e => e.argsOf f
  | .kw _ e => e.argsOf f
  | .kwstar e => e.argsOf f
  | .as_ e a => (e.argsOf f).or (a.argsOf f)
  | .cons h t => (h.argsOf f).or (t.argsOf f)
  | _ => Option.none

/-- argument list of the first call of `f` made by a statement of the list (own expressions of
`expr` / `assign` / `ret` statements, nested blocks included) -/
def argsOfCall (f : String) (l : List S) : Option E :=
  (l.flatMap S.all).findSome? fun
    | .expr e => e.argsOf f
    | .assign _ e => e.argsOf f
    | .ret e => e.argsOf f
    | _ => Option.none

/-- the statement itself (not its nested blocks) calls `f` -/
def S.callsHere (f : String) : S → Bool
  | .expr e => e.calls f
  | .assign t e => t.calls f || e.calls f
  | .aug t _ e => t.calls f || e.calls f
  | .ifc c _ _ => c.calls f
  | .loop t i _ => t.calls f || i.calls f
  | .while_ c _ => c.calls f
  | .with_ i _ => i.calls f
  | .ret e => e.calls f
  | .raise_ e c => e.calls f || c.calls f
  | _ => false

/-- the statement or one of its nested statements calls `f` -/
def S.callsDeep (f : String) (s : S) : Bool := s.all.any (S.callsHere f)

/-- body (as a statement list) of the first `for … in <iter>` loop of the tree -/
def S.loopBody (iter : E) (s : S) : Option (List S) :=
  (s.all.findSome? fun
    | .loop _ i b => if i = iter then some b.stmts else Option.none
    | _ => Option.none)

/-- position of the first statement of a list satisfying `p` -/
def idx (p : S → Bool) (l : List S) : Option Nat :=
  let i := l.findIdx p
  if i < l.length then some i else Option.none

/-- value of keyword argument `name` in an argument list -/
def E.kwArg (name : String) (args : E) : Option E :=
  args.items.findSome? fun
    | .kw k e => if k = name then some e else Option.none
    | _ => Option.none

/-- targets assigned (`=` or augmented) anywhere in the list, in order -/
def assignsTo (x : E) (l : List S) : List S :=
  (l.flatMap S.all).filter fun
    | .assign t _ => t = x
    | .aug t _ _ => t = x
    | _ => false

/-! ## The expected skeletons (clean-tree output of the extractor, annotated) -/

namespace Expected

/-- parameters of `_sample_chain` -/
def sampleChainSig : E :=
  (E.l [(.v "init_state"), (.v "chain_iterator"), (.v "rng"), (.v "transitions"), (.s "*"), (.kw "trace_funcs" E.none), (.kw "chain_traces" E.none), (.kw "chain_stats" E.none), (.kw "load_memmaps" (.v "False")), (.kw "chain_index" (.n 0)), (.kw "sampling_index_offset" (.n 0)), (.kw "monitor_stats" E.none), (.kw "adapters" E.none)])

/-- body of `_sample_chain` -/
def sampleChain : S :=
  (S.b [
  -- M: argument `s` of `sampleChain` (conversion of dict / array initial states is not modelled)
  .assign (.v "state") (.call "_check_and_process_init_state" (E.l [(.v "init_state"), (.v "transitions")])),
  -- not modelled: `Mem` is the same value whether it lives in arrays or in files (workers pass
  -- load_memmaps=True)
  .ifc (.v "load_memmaps")
    (S.b [
      .assign (.v "chain_traces") (.call "_file_paths_to_memmaps" (E.l [(.v "chain_traces")])),
      .assign (.v "chain_stats") (.call "_file_paths_to_memmaps" (E.l [(.v "chain_stats")]))])
    (S.b []),
  -- M: `sampleChain`: `ap := if st.kind = .main then (K.a0, p) …` — a stage without adapters has the empty
  -- adapter state
  .assign (.v "adapter_states") (.src "{}"),
  .try_
    (S.b [
      -- M: `sampleChain`: `… else K.init st.kind s p` — every `adapter.initialize(state, transition)`,
      -- before the first iteration
      .ifc (.op "is not" (E.l [(.v "adapters"), E.none]))
        (S.b [
          .loop (.tup (E.l [(.v "trans_key"), (.v "adapter_list")])) (.call "adapters.items" (E.l []))
            (S.b [
              .assign (.sub (.v "adapter_states") (.v "trans_key")) (.lst (E.l [])),
              .loop (.v "adapter") (.v "adapter_list")
                (S.b [
                  .expr (.meth (.sub (.v "adapter_states") (.v "trans_key")) "append" (E.l [(.call "adapter.initialize" (E.l [(.v "state"), (.sub (.v "transitions") (.v "trans_key"))]))]))])])])
        (S.b [])])
    (S.b [
      -- not modelled (failed initialisation, exercised by the C16 / C17 harnesses): returns before any
      -- iteration
      .handler (.v "AdaptationError") "exception"
        (S.b [
          .ret (.tup (E.l [(.v "state"), (.v "adapter_states"), (.v "exception")]))])])
    (S.b [])
    (S.b []),
  .try_
    (S.b [
      -- M: `runIters K st offset intr 0 st.n`: the local iteration index starts at 0
      .assign (.v "sample_index") (.n 0),
      .with_ (E.l [(.v "chain_iterator")])
        (S.b [
          -- M: `runIters`: one pass per element of `chain_iterator` (`range(stage.n_iter)`, set in
          -- sample_chains)
          .loop (.tup (E.l [(.v "sample_index"), (.v "monitor_dict")])) (.v "chain_iterator")
            (S.b [
              -- M: `opsOf`: `K.trans.map .trans` come first, in `transitions.items()` order (`iterOps`
              -- numbers them j = 0, 1, …)
              .loop (.tup (E.l [(.v "trans_key"), (.v "transition")])) (.call "transitions.items" (E.l []))
                (S.b [
                  -- M: `execOp (.trans t)`: `o := t st.kind params adapt state rng` (same `rng` object for
                  -- the whole chain); `stepOp`: an interrupt inside leaves `state` unassigned
                  .assign (.tup (E.l [(.v "state"), (.v "trans_stats")])) (.call "transition.sample" (E.l [(.v "state"), (.v "rng")])),
                  -- M: `TOut.adapt` / `TOut.params`: the adapter updates belong to the transition's
                  -- operation, after `sample`
                  .ifc (.op "and" (E.l [(.op "is not" (E.l [(.v "adapters"), E.none])), (.op "in" (E.l [(.v "trans_key"), (.v "adapters")]))]))
                    (S.b [
                      .loop (.tup (E.l [(.v "adapter"), (.v "adapter_state")])) (.call "zip" (E.l [(.sub (.v "adapters") (.v "trans_key")), (.sub (.v "adapter_states") (.v "trans_key")), (.kw "strict" (.v "True"))]))
                        (S.b [
                          .expr (.call "adapter.update" (E.l [(.v "adapter_state"), (.v "state"), (.v "trans_stats"), (.v "transition")]))])])
                    (S.b []),
                  -- M: `execOp`: `mem := if st.stats then writeCell x.mem j (i + offset) o.stat else x.mem`
                  -- (`chain_stats is None` iff `not stage.record_stats`, see sample_chains)
                  .ifc (.op "is not" (E.l [(.v "chain_stats"), E.none]))
                    (S.b [
                      -- M: row `i + offset` = `sample_index + sampling_index_offset`
                      .expr (.call "_update_chain_stats" (E.l [(.op "+" (E.l [(.v "sample_index"), (.v "sampling_index_offset")])), (.v "chain_stats"), (.v "trans_key"), (.v "trans_stats")]))])
                    (S.b [])]),
              -- M: `opsOf`: `++ (if st.traced then K.traces.map .trace else [])` — after all transitions of
              -- the iteration
              .ifc (.op "and" (E.l [(.op "is not" (E.l [(.v "chain_traces"), E.none])), (.op "is not" (E.l [(.v "trace_funcs"), E.none]))]))
                (S.b [
                  .loop (.v "trace_func") (.v "trace_funcs")
                    (S.b [
                      .loop (.tup (E.l [(.v "key"), (.v "val")])) (.meth (.call "trace_func" (E.l [(.v "state")])) "items" (E.l []))
                        (S.b [
                          -- M: `execOp (.trace f)`: `writeCell x.mem j (i + offset) (f x.ctx.state)`
                          .assign (.sub (.sub (.v "chain_traces") (.v "key")) (.op "+" (E.l [(.v "sample_index"), (.v "sampling_index_offset")]))) (.v "val")])])])
                (S.b [])])])])
    (S.b [
      -- M: `stepOp`: `halted := true` and nothing else of the loop runs; the call still returns (C15
      -- `interrupt_prefix_chain`)
      .handler (.v "KeyboardInterrupt") "e"
        (S.b [
          .assign (.v "exception") (.v "e")])])
    (S.b [
      -- M: `Run.halted = false` after a complete loop
      .assign (.v "exception") E.none])
    (S.b [
      -- M: `Run.mem` is what the caller sees on every exit path — the flush sits in `finally`
      .expr (.call "_flush_memmap_chain_data" (E.l [(.v "chain_traces"), (.v "chain_stats")]))]),
  -- M: `Run.ctx.state`, `Run.ctx.adapt`, `Run.halted` (→ `Out.state`, `Out.adapt`, `Acc.halted`)
  .ret (.tup (E.l [(.v "state"), (.v "adapter_states"), (.v "exception")]))])

/-- parameters of `_sample_chains_sequential` -/
def sampleChainsSequentialSig : E :=
  (E.l [(.v "chain_iterators"), (.v "per_chain_kwargs"), (.kwstar (.v "common_kwargs"))])

/-- body of `_sample_chains_sequential` -/
def sampleChainsSequential : S :=
  (S.b [
  -- M: `stageSeq`: fold from `⟨p, [], [], false⟩` (`Acc.outs = []`)
  .assign (.v "chain_outputs") (.lst (E.l [])),
  .assign (.v "exception") E.none,
  -- M: `stageSeq`: `chains.zipIdx … foldl (seqStep …)` — chains in index order, one after the other
  .loop (.tup (E.l [(.v "chain_index"), (.tup (E.l [(.v "chain_iterator"), (.v "chain_kwargs")]))])) (.call "enumerate" (E.l [(.call "zip" (E.l [(.v "chain_iterators"), (.v "per_chain_kwargs"), (.kw "strict" (.v "True"))]))]))
    (S.b [
      -- M: `seqStep`: `sampleChain K st offset (chainIntr intr c) acc.params c.state c.rng …` —
      -- `**chain_kwargs` carries the parent's generator OBJECT (`rng=per_chain_rngs[c]`), so `chains := …
      -- ⟨c.state, r.ctx.rng, …⟩`; the transitions are the parent's objects (`params := r.ctx.params`)
      .assign (.tup (E.l [(.star (.v "outputs")), (.v "exception")])) (.call "_sample_chain" (E.l [(.kw "chain_iterator" (.v "chain_iterator")), (.kw "chain_index" (.v "chain_index")), (.kwstar (.v "chain_kwargs")), (.kwstar (.v "common_kwargs"))])),
      -- M: `seqStep`: `outs := acc.outs ++ [⟨c, state, adapt, rng⟩]` (AdaptationError not modelled)
      .ifc (.op "not" (E.l [(.call "isinstance" (E.l [(.v "exception"), (.v "AdaptationError")]))]))
        (S.b [
          .expr (.call "chain_outputs.append" (E.l [(.v "outputs")]))])
        (S.b []),
      -- M: `seqStep`: `if acc.halted then { acc with chains := acc.chains ++ [c] }` — later chains are not
      -- started
      .ifc (.call "isinstance" (E.l [(.v "exception"), (.v "KeyboardInterrupt")]))
        (S.b [
          .brk])
        (S.b [])]),
  -- M: `Acc.outs.map (·.state)`, `Acc.outs.map (·.adapt)`, `Acc.halted`
  .ret (.tup (E.l [(.star (.call "_collate_chain_outputs" (E.l [(.v "chain_outputs")]))), (.v "exception")]))])

/-- parameters of `_sample_chains_worker` -/
def sampleChainsWorkerSig : E :=
  (E.l [(.v "chain_queue"), (.v "iter_queue"), (.v "common_kwargs")])

/-- body of `_sample_chains_worker` -/
def sampleChainsWorker : S :=
  (S.b [
  .assign (.v "chain_outputs") (.lst (E.l [])),
  -- M: `workerRun … todo p`: `todo` = the chains this worker happens to take from the queue, in order
  .while_ (.op "not" (E.l [(.call "chain_queue.empty" (E.l []))]))
    (S.b [
      .try_
        (S.b [
          -- M: `workerRun`: `chains[c]?` — the unpickled `chain_kwargs` hold a COPY of the chain's
          -- generator
          .assign (.tup (E.l [(.v "chain_index"), (.v "n_iter"), (.v "chain_kwargs")])) (.call "chain_queue.get" (E.l [(.kw "block" (.v "False"))])),
          .with_ (E.l [(.v "context")])
            (S.b [
              -- M: `workerRun`: `sampleChain K st offset (chainIntr intr c) p ch.state ch.rng …`; `p` = the
              -- worker's own copy of `common_kwargs['transitions']`, threaded through its chains
              -- (`r.ctx.params`)
              .assign (.tup (E.l [(.star (.v "outputs")), (.v "exception")])) (.call "_sample_chain" (E.l [(.kw "chain_index" (.v "chain_index")), (.kw "chain_iterator" (.call "_ProxySequenceProgressBar" (E.l [(.call "range" (E.l [(.v "n_iter")])), (.v "chain_index"), (.v "iter_queue")]))), (.kw "load_memmaps" (.v "True")), (.kwstar (.v "chain_kwargs")), (.kwstar (.v "common_kwargs"))]))]),
          .ifc (.call "isinstance" (E.l [(.v "exception"), (.v "AdaptationError")]))
            (S.b [
              .expr (.call "iter_queue.put" (E.l [E.none]))])
            (S.b [
              -- M: `WOut.out.rng := r.ctx.rng` — the state reached by the worker's copy is sent back
              -- (`restore`)
              .assign (.v "rng_state") (.attr (.attr (.sub (.v "chain_kwargs") (.s "rng")) "bit_generator") "state"),
              -- M: `WOut.out = ⟨c, state, adapt, rng⟩` tagged with the chain index
              .expr (.call "chain_outputs.append" (E.l [(.tup (E.l [(.v "chain_index"), (.tup (E.l [(.star (.v "outputs")), (.v "rng_state")]))]))]))]),
          -- M: `workerRun`: `if r.halted then [] else workerRun …` (break) and `stagePar`: `res.any
          -- (·.halted)` (queue item)
          .ifc (.call "isinstance" (E.l [(.v "exception"), (.v "KeyboardInterrupt")]))
            (S.b [
              .expr (.call "iter_queue.put" (E.l [(.v "exception")])),
              .brk])
            (S.b [])])
        (S.b [
          .handler (.v "queue.Empty") ""
            (S.b []),
          .handler (.v "Exception") "exception"
            (S.b [
              .expr (.call "iter_queue.put" (E.l [(.v "exception")]))])])
        (S.b [])
        (S.b [])]),
  .ret (.v "chain_outputs")])

/-- parameters of `_sample_chains_parallel` -/
def sampleChainsParallelSig : E :=
  (E.l [(.v "chain_iterators"), (.v "per_chain_kwargs"), (.v "n_process"), (.kwstar (.v "common_kwargs"))])

/-- body of `_sample_chains_parallel` -/
def sampleChainsParallel : S :=
  (S.b [
  .assign (.v "n_iters") (.src "[len(it) for it in chain_iterators]"),
  .assign (.v "n_chain") (.call "len" (E.l [(.v "chain_iterators")])),
  -- M: `stagePar`: the parent's generator objects, by chain index (`Chain.rng`)
  .assign (.v "rngs") (.lst (E.l [])),
  .with_ (E.l [(.as_ (.call "_ignore_sigint_manager" (E.l [])) (.v "manager")), (.as_ (.call "_pool_context_manager" (E.l [(.v "n_process")])) (.v "pool"))])
    (S.b [
      .assign (.v "results") E.none,
      .assign (.v "exception") E.none,
      .try_
        (S.b [
          .assign (.v "iter_queue") (.call "manager.Queue" (E.l [])),
          .assign (.v "chain_queue") (.call "manager.Queue" (E.l [])),
          .loop (.tup (E.l [(.v "c"), (.tup (E.l [(.v "chain_kwargs"), (.v "n_iter")]))])) (.call "enumerate" (E.l [(.call "zip" (E.l [(.v "per_chain_kwargs"), (.v "n_iters"), (.kw "strict" (.v "True"))]))]))
            (S.b [
              .assign (.sub (.v "chain_kwargs") (.s "chain_stats")) (.call "_memmaps_to_file_paths" (E.l [(.sub (.v "chain_kwargs") (.s "chain_stats"))])),
              .assign (.sub (.v "chain_kwargs") (.s "chain_traces")) (.call "_memmaps_to_file_paths" (E.l [(.sub (.v "chain_kwargs") (.s "chain_traces"))])),
              -- M: `Chain.rng` of chain c is `chain_kwargs['rng']` = `per_chain_rngs[c]` (the object,
              -- before pickling)
              .expr (.call "rngs.append" (E.l [(.sub (.v "chain_kwargs") (.s "rng"))])),
              -- M: `stagePar`: workers get `chains` (pickled copies) — the parent's generators are
              -- untouched until the restore step
              .expr (.call "chain_queue.put" (E.l [(.tup (E.l [(.v "c"), (.v "n_iter"), (.v "chain_kwargs")]))]))]),
          -- M: `sched.map (fun todo => workerRun K st offset intr chains todo p)`: `n_process` workers,
          -- each with a copy of `p`
          .assign (.v "results") (.call "pool.starmap_async" (E.l [(.v "_sample_chains_worker"), (.src "[(chain_queue, iter_queue, common_kwargs) for p in range(n_process)]")])),
          .with_ (E.l [(.as_ (.call "ExitStack" (E.l [])) (.v "stack"))])
            (S.b [
              .assign (.v "pbars") (.src "[stack.enter_context(it) for it in chain_iterators]"),
              .assign (.v "chains_completed") (.n 0),
              .while_ (.op "not" (E.l [(.op "and" (E.l [(.call "iter_queue.empty" (E.l [])), (.op "==" (E.l [(.v "chains_completed"), (.v "n_chain")]))]))]))
                (S.b [
                  .assign (.v "iter_queue_item") (.call "iter_queue.get" (E.l [])),
                  .ifc (.op "is" (E.l [(.v "iter_queue_item"), E.none]))
                    (S.b [
                      .aug (.v "chains_completed") "+" (.n 1)])
                    (S.b [
                      -- M: `stagePar`: `halted := res.any (·.halted)` — an interrupted worker chain stops
                      -- the stage, no exception is re-raised
                      .ifc (.call "isinstance" (E.l [(.v "iter_queue_item"), (.v "KeyboardInterrupt")]))
                        (S.b [
                          .assign (.v "exception") (.v "iter_queue_item"),
                          .brk])
                        (S.b [
                          .ifc (.call "isinstance" (E.l [(.v "iter_queue_item"), (.v "Exception")]))
                            (S.b [
                              .raise_ (.call "RuntimeError" (E.l [(.v "msg")])) (.v "iter_queue_item")])
                            (S.b [
                              .assign (.tup (E.l [(.v "chain_index"), (.v "sample_index"), (.v "data_dict")])) (.v "iter_queue_item"),
                              .ifc (.op "==" (E.l [(.v "sample_index"), (.sub (.v "n_iters") (.v "chain_index"))]))
                                (S.b [
                                  .aug (.v "chains_completed") "+" (.n 1)])
                                (S.b [])])])])])])])
        (S.b [
          .handler (.tup (E.l [(.v "PicklingError"), (.v "AttributeError")])) "e"
            (S.b [
              .ifc (.op "and" (E.l [(.op "not" (E.l [(.v "MULTIPROCESS_AVAILABLE")])), (.op "or" (E.l [(.call "isinstance" (E.l [(.v "e"), (.v "PicklingError")])), (.op "in" (E.l [(.s "pickle"), (.call "str" (E.l [(.v "e")]))]))]))]))
                (S.b [
                  .raise_ (.call "RuntimeError" (E.l [(.v "msg")])) (.v "e")])
                (S.b []),
              .raise_ E.none E.none]),
          -- M: same: an interrupt delivered to the parent itself is recorded, not raised
          .handler (.v "KeyboardInterrupt") "e"
            (S.b [
              .assign (.v "exception") (.v "e")])])
        (S.b [])
        (S.b []),
      .ifc (.op "is not" (E.l [(.v "results"), E.none]))
        (S.b [
          -- M: `res := (sched.map …).flatten`
          .assign (.v "indexed_chain_outputs") (.src "[r for res in results.get() for r in res]"),
          .assign (.v "chain_outputs") (.lst (E.l [])),
          -- M: `outs := sortOuts (res.map (·.out))` — collation by chain index, whatever worker ran the
          -- chain
          .loop (.tup (E.l [(.v "i"), (.tup (E.l [(.star (.v "outp")), (.v "rng_state")]))])) (.call "sorted" (E.l [(.v "indexed_chain_outputs"), (.kw "key" (.src "lambda indexed_output: indexed_output[0]"))]))
            (S.b [
              -- M: `restoreRng`: `chains.modify o.idx (fun ch => { ch with rng := o.rng })` (`restore =
              -- true`; `false` = the code before the fix)
              .assign (.attr (.attr (.sub (.v "rngs") (.v "i")) "bit_generator") "state") (.v "rng_state"),
              .expr (.call "chain_outputs.append" (E.l [(.v "outp")]))])])
        (S.b [
          .assign (.v "chain_outputs") (.lst (E.l []))])]),
  -- M: `⟨p, outs, chains2, res.any (·.halted)⟩` — the parent's transitions `p` are unchanged
  .ret (.tup (E.l [(.star (.call "_collate_chain_outputs" (E.l [(.v "chain_outputs")]))), (.v "exception")]))])

/-- parameters of `_finalize_adapters` -/
def finalizeAdaptersSig : E :=
  (E.l [(.v "adapter_states_dict"), (.v "chain_states"), (.v "adapters"), (.v "transitions"), (.v "rngs")])

/-- body of `_finalize_adapters` -/
def finalizeAdapters : S :=
  (S.b [
  .loop (.tup (E.l [(.v "trans_key"), (.v "adapter_states_list")])) (.call "adapter_states_dict.items" (E.l []))
    (S.b [
      .loop (.tup (E.l [(.v "adapter_states"), (.v "adapter")])) (.call "zip" (E.l [(.v "adapter_states_list"), (.sub (.v "adapters") (.v "trans_key")), (.kw "strict" (.v "True"))]))
        (S.b [
          -- M: `K.fin st.kind adapts states params rngs`: all adapter states of all chains, the chain
          -- states, the parent's transition, the parent's per-chain generators
          .expr (.call "adapter.finalize" (E.l [(.v "adapter_states"), (.v "chain_states"), (.sub (.v "transitions") (.v "trans_key")), (.v "rngs")]))])])])

/-- parameters of `_collate_chain_outputs` -/
def collateChainOutputsSig : E :=
  (E.l [(.v "chain_outputs")])

/-- body of `_collate_chain_outputs` -/
def collateChainOutputs : S :=
  (S.b [
  .assign (.v "final_states_stack") (.lst (E.l [])),
  .assign (.v "adapt_states_stack") (.src "{}"),
  .loop (.tup (E.l [(.v "final_state"), (.v "adapt_states")])) (.v "chain_outputs")
    (S.b [
      -- M: `acc.outs.map (·.state)` in the order of `chain_outputs`
      .expr (.call "final_states_stack.append" (E.l [(.v "final_state")])),
      .loop (.tup (E.l [(.v "trans_key"), (.v "adapt_state_list")])) (.call "adapt_states.items" (E.l []))
        (S.b [
          -- M: `acc.outs.map (·.adapt)`; the result is empty iff no output carried adapter states
          -- (`afterStage`: `st.kind ≠ .main ∧ acc.outs ≠ []`)
          .ifc (.op "not in" (E.l [(.v "trans_key"), (.v "adapt_states_stack")]))
            (S.b [
              .assign (.sub (.v "adapt_states_stack") (.v "trans_key")) (.src "[[a] for a in adapt_state_list]")])
            (S.b [
              .loop (.tup (E.l [(.v "i"), (.v "adapt_state")])) (.call "enumerate" (E.l [(.v "adapt_state_list")]))
                (S.b [
                  .expr (.meth (.sub (.sub (.v "adapt_states_stack") (.v "trans_key")) (.v "i")) "append" (E.l [(.v "adapt_state")]))])])])]),
  .ret (.tup (E.l [(.v "final_states_stack"), (.v "adapt_states_stack")]))])

/-- parameters of `_update_chain_stats` -/
def updateChainStatsSig : E :=
  (E.l [(.v "sample_index"), (.v "chain_stats"), (.v "trans_key"), (.v "trans_stats")])

/-- body of `_update_chain_stats` -/
def updateChainStats : S :=
  (S.b [
  .ifc (.op "is not" (E.l [(.v "trans_stats"), E.none]))
    (S.b [
      .loop (.tup (E.l [(.v "key"), (.v "val")])) (.call "trans_stats.items" (E.l []))
        (S.b [
          -- M: `writeCell x.mem j row o.stat` (one array per statistic key; the model has one cell per
          -- transition)
          .assign (.sub (.sub (.sub (.v "chain_stats") (.v "trans_key")) (.v "key")) (.v "sample_index")) (.v "val")])])
    (S.b [])])

/-- parameters of `_flush_memmap_chain_data` -/
def flushMemmapChainDataSig : E :=
  (E.l [(.v "chain_traces"), (.v "chain_stats")])

/-- body of `_flush_memmap_chain_data` -/
def flushMemmapChainData : S :=
  (S.b [
  -- not modelled beyond `Run.mem` (flush of every memmap; exercised by the .npy read-back of the harness)
  .ifc (.op "is not" (E.l [(.v "chain_traces"), E.none]))
    (S.b [
      .loop (.v "trace") (.call "chain_traces.values" (E.l []))
        (S.b [
          .ifc (.call "hasattr" (E.l [(.v "trace"), (.s "flush")]))
            (S.b [
              .expr (.call "trace.flush" (E.l []))])
            (S.b [])])])
    (S.b []),
  .ifc (.op "is not" (E.l [(.v "chain_stats"), E.none]))
    (S.b [
      .loop (.v "trans_stats") (.call "chain_stats.values" (E.l []))
        (S.b [
          .loop (.v "stat") (.call "trans_stats.values" (E.l []))
            (S.b [
              .ifc (.call "hasattr" (E.l [(.v "stat"), (.s "flush")]))
                (S.b [
                  .expr (.call "stat.flush" (E.l []))])
                (S.b [])])])])
    (S.b [])])

/-- parameters of `MarkovChainMonteCarloMethod.sample_chains` -/
def sampleChainsSig : E :=
  (E.l [(.v "self"), (.v "n_warm_up_iter"), (.v "n_main_iter"), (.v "init_states"), (.s "*"), (.kw "trace_funcs" E.none), (.kw "adapters" E.none), (.kw "stager" E.none), (.kw "n_process" (.n 1)), (.kw "trace_warm_up" (.v "False")), (.kw "max_threads_per_process" E.none), (.kw "force_memmap" (.v "False")), (.kw "memmap_path" E.none), (.kw "monitor_stats" E.none), (.kw "display_progress" (.v "True")), (.kw "progress_bar_class" E.none)])

/-- body of `MarkovChainMonteCarloMethod.sample_chains` -/
def sampleChains : S :=
  (S.b [
  -- M: `Mode`: `n_process=None` means `os.cpu_count()` processes, decided before `n_process` is used
  -- (C13/C14 `nprocess_independent`)
  .ifc (.op "is" (E.l [(.v "n_process"), E.none]))
    (S.b [
      .assign (.v "n_process") (.call "os.cpu_count" (E.l []))])
    (S.b []),
  .assign (.v "n_chain") (.call "len" (E.l [(.v "init_states")])),
  -- M: `nTraceIter nWarm nMain traceWarm`
  .assign (.v "n_trace_iter") (.ite (.v "trace_warm_up") (.op "+" (E.l [(.v "n_warm_up_iter"), (.v "n_main_iter")])) (.v "n_main_iter")),
  .assign (.v "init_states") (.src "[_check_and_process_init_state(state, self.transitions) for state in init_states]"),
  -- not modelled (storage kind); exercised by the harness
  .assign (.v "use_memmap") (.op "or" (E.l [(.v "force_memmap"), (.op ">" (E.l [(.v "n_process"), (.n 1)]))])),
  .ifc (.op "and" (E.l [(.v "use_memmap"), (.op "is" (E.l [(.v "memmap_path"), E.none]))]))
    (S.b [
      .assign (.v "memmap_path_context") (.call "tempfile.TemporaryDirectory" (E.l []))])
    (S.b [
      .assign (.v "memmap_path_context") (.call "nullcontext" (E.l [(.v "memmap_path")]))]),
  .with_ (E.l [(.as_ (.v "memmap_path_context") (.v "memmap_path"))])
    (S.b [
      -- M: `initSys`: arrays `List.replicate nTrace none` (fill values) for the trace functions
      .assign (.v "traces") (.ite (.op "or" (E.l [(.op "is" (E.l [(.v "trace_funcs"), E.none])), (.op "==" (E.l [(.call "len" (E.l [(.v "trace_funcs")])), (.n 0)]))])) E.none (.call "_init_traces" (E.l [(.v "trace_funcs"), (.v "init_states"), (.v "n_trace_iter"), (.kw "use_memmap" (.v "use_memmap")), (.kw "memmap_path" (.v "memmap_path"))]))),
      -- M: `initSys`: the same for every transition, length `n_trace_iter`
      .assign (.v "stats") (.call "_init_stats" (E.l [(.v "self.transitions"), (.v "n_chain"), (.v "n_trace_iter"), (.kw "use_memmap" (.v "use_memmap")), (.kw "memmap_path" (.v "memmap_path"))])),
      -- M: `initSys`: `rng := ⟨chain index, 0⟩` — one stream per chain, created ONCE per call
      .assign (.v "per_chain_rngs") (.call "_get_per_chain_rngs" (E.l [(.v "self.rng"), (.v "n_chain")])),
      .assign (.v "per_chain_traces") (.ite (.op "is" (E.l [(.v "traces"), E.none])) (.op "*" (E.l [(.lst (E.l [E.none])), (.v "n_chain")])) (.call "list" (E.l [(.call "_zip_dict" (E.l [(.kwstar (.v "traces"))]))]))),
      .assign (.v "per_chain_stats") (.call "list" (E.l [(.call "_zip_dict" (E.l [(.kwstar (.src "{k: _zip_dict(**v) for k, v in stats.items()}"))]))])),
      .assign (.v "common_kwargs") (.src "{'transitions': self.transitions, 'monitor_stats': monitor_stats}"),
      -- M: `Mode.seq` iff `n_process == 1`, else `Mode.par`
      .ifc (.op "==" (E.l [(.v "n_process"), (.n 1)]))
        (S.b [
          .assign (.v "sample_chains_func") (.v "_sample_chains_sequential")])
        (S.b [
          .assign (.sub (.v "common_kwargs") (.s "n_process")) (.v "n_process"),
          .assign (.sub (.v "common_kwargs") (.s "max_threads_per_process")) (.v "max_threads_per_process"),
          .assign (.v "sample_chains_func") (.v "_sample_chains_parallel")]),
      -- M (Stagers): default stager: `warmUp` if no adapters or all fast, else `windowed` with default
      -- settings
      .ifc (.op "is" (E.l [(.v "stager"), E.none]))
        (S.b [
          .ifc (.op "or" (E.l [(.op "is" (E.l [(.v "adapters"), E.none])), (.call "all" (E.l [(.src "(a.is_fast for a_list in adapters.values() for a in a_list)")]))]))
            (S.b [
              .assign (.v "stager") (.call "WarmUpStager" (E.l []))])
            (S.b [
              .assign (.v "stager") (.call "WindowedWarmUpStager" (E.l []))])])
        (S.b []),
      -- M: `stages : List (Stage × Mode)` = the stager's table, in order
      .assign (.v "sampling_stages") (.call "stager.stages" (E.l [(.v "n_warm_up_iter"), (.v "n_main_iter"), (.v "adapters"), (.v "trace_funcs"), (.kw "trace_warm_up" (.v "trace_warm_up"))])),
      -- M: `initSys`: `finalStates := inits`, `Chain.state`
      .assign (.v "chain_states") (.v "init_states"),
      -- M: `initSys`: `offset := 0`
      .assign (.v "sampling_index_offset") (.n 0),
      .with_ (E.l [(.as_ (.call "sampling_stage_bar_class" (E.l [(.ite (.v "display_progress") (.v "sampling_stages") (.call "list" (E.l [(.call "sampling_stages.values" (E.l []))]))), (.s "Sampling stage"), (.kw "position" (.tup (E.l [(.n 0), (.op "+" (E.l [(.v "n_chain"), (.n 1)]))])))])) (.v "sampling_stages_pb"))])
        (S.b [
          .assign (.v "chain_iterators") (.call "_construct_chain_iterators" (E.l [(.n 1), (.v "progress_bar_class"), (.v "n_chain"), (.n 1)])),
          -- M: `runStages`: `foldl (runStage K intr) sys` over the stage table
          .loop (.tup (E.l [(.v "stage"), (.v "_")])) (.v "sampling_stages_pb")
            (S.b [
              -- M: `runStage`: `else if st.n = 0 then sys` — nothing is initialised, finalized or advanced
              -- (C13/C16 `empty_stage_noop`)
              .ifc (.op "==" (E.l [(.v "stage.n_iter"), (.n 0)]))
                (S.b [
                  .cont])
                (S.b []),
              -- M: `runIters … st.n`: every chain runs `stage.n_iter` iterations
              .loop (.v "chain_it") (.v "chain_iterators")
                (S.b [
                  .assign (.v "chain_it.sequence") (.call "range" (E.l [(.v "stage.n_iter")]))]),
              -- M: `runStage`: `acc := stageSeq/stagePar K st sys.offset ci sys.params sys.chains`:
              -- init_state = current chain states, rng = the per-call generators, traces passed iff
              -- `st.traced`, statistics iff `st.stats`, `offset`, `st.kind` (adapters)
              .assign (.tup (E.l [(.v "chain_states"), (.v "adapter_states"), (.v "exception")])) (.call "sample_chains_func" (E.l [(.kw "chain_iterators" (.v "chain_iterators")), (.kw "per_chain_kwargs" (.call "_zip_dict" (E.l [(.kw "init_state" (.v "chain_states")), (.kw "rng" (.v "per_chain_rngs")), (.kw "chain_traces" (.ite (.op "is not" (E.l [(.v "stage.trace_funcs"), E.none])) (.v "per_chain_traces") (.op "*" (E.l [(.lst (E.l [E.none])), (.v "n_chain")])))), (.kw "chain_stats" (.ite (.v "stage.record_stats") (.v "per_chain_stats") (.op "*" (E.l [(.lst (E.l [E.none])), (.v "n_chain")]))))]))), (.kw "sampling_index_offset" (.v "sampling_index_offset")), (.kw "trace_funcs" (.v "stage.trace_funcs")), (.kw "adapters" (.v "stage.adapters")), (.kwstar (.v "common_kwargs"))])),
              -- M: `afterStage`: `if acc.halted then { … offset := sys.offset, finalStates := states,
              -- stopped := true }` — before finalize and before the offset moves; `runStage`: `if
              -- sys.stopped then sys` (the return leaves the loop)
              .ifc (.call "isinstance" (E.l [(.v "exception"), (.v "KeyboardInterrupt")]))
                (S.b [
                  .ret (.call "MCMCSampleChainsOutputs" (E.l [(.v "chain_states"), (.v "traces"), (.v "stats")]))])
                (S.b []),
              -- M: `afterStage`: `if st.kind ≠ .main ∧ acc.outs ≠ [] then K.fin st.kind adapts states
              -- acc.params (acc.chains.map (·.rng))`
              .ifc (.op ">" (E.l [(.call "len" (E.l [(.v "adapter_states")])), (.n 0)]))
                (S.b [
                  .expr (.call "_finalize_adapters" (E.l [(.v "adapter_states"), (.v "chain_states"), (.v "stage.adapters"), (.v "self.transitions"), (.v "per_chain_rngs")]))])
                (S.b []),
              -- M: `afterStage`: `offset := if st.traced || st.stats then sys.offset + st.n else
              -- sys.offset`
              .ifc (.op "or" (E.l [(.op "is not" (E.l [(.v "stage.trace_funcs"), E.none])), (.v "stage.record_stats")]))
                (S.b [
                  .aug (.v "sampling_index_offset") "+" (.v "stage.n_iter")])
                (S.b [])])])]),
  -- M: `Sys.finalStates`, `Sys.chains.map (·.mem)`
  .ret (.call "MCMCSampleChainsOutputs" (E.l [(.v "chain_states"), (.v "traces"), (.v "stats")]))])

/-- statements the extractor dropped: (function, allow-list entry, first line of the source) -/
def dropped : List (String × String × String) := [
  ("_sample_chain", "logging", "logger.exception(f'Initialisation of {type(adapter).__name__} for chain {chain_index + 1} failed.')"),
  ("_sample_chain", "logging", "logger.exception(f'Sampling manually interrupted for chain {chain_index + 1} at iteration {sample_in"),
  ("_sample_chain", "progress display / thread pool", "if monitor_stats is not None:"),
  ("_sample_chains_worker", "logging", "logger.exception('Exception encountered in chain worker process')"),
  ("_sample_chains_worker", "progress display / thread pool", "max_threads = common_kwargs.pop('max_threads_per_process', None)"),
  ("_sample_chains_worker", "progress display / thread pool", "context = threadpool_limits(limits=max_threads) if THREADPOOLCTL_AVAILABLE else nullcontext()"),
  ("_sample_chains_parallel", "message text", "msg = 'Error encountered while trying to run chains on multipleprocesses in parallel. The inbuilt mu"),
  ("_sample_chains_parallel", "message text", "msg = 'Unhandled exception in chain worker process.'"),
  ("_sample_chains_parallel", "progress display / thread pool", "pbars[chain_index].update(sample_index, data_dict)"),
  ("sample_chains", "progress display / thread pool", "if not display_progress:")]

end Expected

/-! ## A reading of statement lists as functions on the model's state

`Sem.…Plan` functions recognise the statements of a body and map each to the abstract action it
stands for (anything unrecognised: `none`); `Sem.run…Acts` execute the actions IN THE ORDER OF THE
SOURCE on the model's state.  The `sem_…` theorems of `Props/C13S`, `C14S`, `C15S`, `C16K` prove that
for the bodies generated from the current source the result is the model function. -/

namespace Sem
open MiciVerif.Sampler MiciVerif.Stagers

/-- conditions on the current stage -/
inductive Cond where
  /-- `stage.trace_funcs is not None` (model: `st.traced`) -/
  | traced
  /-- `stage.record_stats` (model: `st.stats`) -/
  | stats
  | or (a b : Cond)
  | and (a b : Cond)
  deriving DecidableEq, Repr

def Cond.eval (st : Stage) : Cond → Bool
  | .traced => st.traced
  | .stats => st.stats
  | .or a b => a.eval st || b.eval st
  | .and a b => a.eval st && b.eval st

def cond? : E → Option Cond
  | .v "stage.record_stats" => some .stats
  | .op "is not" (.cons (.v "stage.trace_funcs") (.cons .none .nil)) => some .traced
  | .op "or" (.cons a (.cons b .nil)) => (cond? a).bind fun x => (cond? b).map fun y => .or x y
  | .op "and" (.cons a (.cons b .nil)) => (cond? a).bind fun x => (cond? b).map fun y => .and x y
  | _ => Option.none

/-- `X if c else [None] * n_chain`: the per-chain arrays `X` are handed over iff `c` -/
def arraysIf? (arrays : String) : E → Option Cond
  | .ite c (.v x) (.op "*" (.cons (.lst (.cons .none .nil)) (.cons (.v "n_chain") .nil))) =>
    if x = arrays then cond? c else Option.none
  | _ => Option.none

/-- abstract actions of the stage-loop body -/
inductive StageAct where
  /-- `if stage.n_iter == 0: continue` -/
  | skipIfNoIterations
  /-- `for chain_it in chain_iterators: chain_it.sequence = range(stage.n_iter)` -/
  | setIterations
  /-- `chain_states, adapter_states, exception = sample_chains_func(…)` with: the current chain
  states and the per-call generators, trace arrays iff `traces`, statistics arrays iff `stats`, the
  current offset, the stage's trace functions and adapters, the chain iterators set up before -/
  | runChains (traces statistics : Cond)
  /-- `if isinstance(exception, KeyboardInterrupt): return MCMCSampleChainsOutputs(chain_states, traces, stats)` -/
  | returnIfInterrupted
  /-- `if len(adapter_states) > 0: _finalize_adapters(adapter_states, chain_states, stage.adapters,
  self.transitions, per_chain_rngs)` -/
  | finalizeIfStates
  /-- `if c: sampling_index_offset += stage.n_iter` -/
  | advanceOffsetIf (c : Cond)
  deriving DecidableEq, Repr

def stageAct? (s : S) : Option StageAct :=
  if s = .ifc (.op "==" (E.l [.v "stage.n_iter", .n 0])) (S.b [.cont]) (S.b []) then some .skipIfNoIterations
  else if s = .loop (.v "chain_it") (.v "chain_iterators")
      (S.b [.assign (.v "chain_it.sequence") (.call "range" (E.l [.v "stage.n_iter"]))]) then some .setIterations
  else if s = .ifc (.call "isinstance" (E.l [.v "exception", .v "KeyboardInterrupt"]))
      (S.b [.ret (.call "MCMCSampleChainsOutputs" (E.l [.v "chain_states", .v "traces", .v "stats"]))]) (S.b [])
    then some .returnIfInterrupted
  else if s = .ifc (.op ">" (E.l [.call "len" (E.l [.v "adapter_states"]), .n 0]))
      (S.b [.expr (.call "_finalize_adapters" (E.l [.v "adapter_states", .v "chain_states", .v "stage.adapters",
        .v "self.transitions", .v "per_chain_rngs"]))]) (S.b [])
    then some .finalizeIfStates
  else match s with
    | .ifc c t f =>
      if t = S.b [.aug (.v "sampling_index_offset") "+" (.v "stage.n_iter")] ∧ f = S.b [] then
        (cond? c).map .advanceOffsetIf
      else Option.none
    | .assign tgt (.call "sample_chains_func" args) =>
      if tgt = .tup (E.l [.v "chain_states", .v "adapter_states", .v "exception"]) then
        match args.items with
        | [.kw "chain_iterators" (.v "chain_iterators"),
           .kw "per_chain_kwargs" (.call "_zip_dict" z),
           .kw "sampling_index_offset" (.v "sampling_index_offset"),
           .kw "trace_funcs" (.v "stage.trace_funcs"),
           .kw "adapters" (.v "stage.adapters"),
           .kwstar (.v "common_kwargs")] =>
          match z.items with
          | [.kw "init_state" (.v "chain_states"), .kw "rng" (.v "per_chain_rngs"),
             .kw "chain_traces" tr, .kw "chain_stats" stt] =>
            (arraysIf? "per_chain_traces" tr).bind fun a =>
              (arraysIf? "per_chain_stats" stt).map fun b => .runChains a b
          | _ => Option.none
        | _ => Option.none
      else Option.none
    | _ => Option.none

/-- the actions of a stage-loop body, in source order; `none` if a statement is not recognised -/
def stagePlan : List S → Option (List StageAct)
  | [] => some []
  | s :: l => (stageAct? s).bind fun a => (stagePlan l).map fun as => a :: as

/-- local variables of one pass of the stage loop -/
structure StageVars (St V A P : Type) where
  params : P
  chains : List (Chain St V)
  /-- `sampling_index_offset` -/
  offset : Nat
  /-- `chain_states` -/
  states : List St
  /-- the collated outputs of this stage's `sample_chains_func` call (`adapter_states`) -/
  outs : List (Out St A)
  /-- draws `_finalize_adapters` took from the per-chain generators -/
  draws : List Nat
  /-- `isinstance(exception, KeyboardInterrupt)` -/
  halted : Bool
  /-- length of the chain iterators' `sequence` -/
  iters : Nat
  /-- one of the variables of `sample_chains` has been assigned in this pass -/
  dirty : Bool

/-- how a pass ends -/
inductive Exit (St V A P : Type) where
  /-- `continue` / end of the body -/
  | next (v : StageVars St V A P)
  /-- `return` -/
  | ret (v : StageVars St V A P)

/-- `sample_chains_func(…)`: `_sample_chains_sequential` or `_sample_chains_parallel` -/
def runMode {St V A P} (K : Kernel St V A P) (st : Stage) (mode : Mode) (offset : Nat)
    (ci : Option (Nat × Nat × Nat)) (p : P) (chains : List (Chain St V)) : Acc St V A P :=
  match mode with
  | .seq => stageSeq K st offset ci p chains
  | .par restore sched => stagePar K st offset ci restore sched p chains

/-- the interrupt point restricted to stage `k` -/
def stageIntr (intr : Option (Nat × Nat × Nat × Nat)) (k : Nat) : Option (Nat × Nat × Nat) :=
  match intr with
  | some (k0, c) => if k0 = k then some c else Option.none
  | Option.none => Option.none

/-- Execute the actions in order.  `runChains` runs the chains for the number of iterations the
iterators were set to, with trace functions iff the trace arrays are handed over and the stage has
trace functions, and statistics iff the statistics arrays are handed over. -/
def runStageActs {St V A P} (K : Kernel St V A P) (st : Stage) (mode : Mode)
    (ci : Option (Nat × Nat × Nat)) : List StageAct → StageVars St V A P → Exit St V A P
  | [], v => .next v
  | .skipIfNoIterations :: l, v => if st.n = 0 then .next v else runStageActs K st mode ci l v
  | .setIterations :: l, v => runStageActs K st mode ci l { v with iters := st.n }
  | .runChains tr stt :: l, v =>
    let st' : Stage := ⟨v.iters, st.kind, tr.eval st && st.traced, stt.eval st⟩
    let acc := runMode K st' mode v.offset ci v.params v.chains
    runStageActs K st mode ci l
      { v with params := acc.params, chains := acc.chains, states := acc.outs.map (·.state),
               outs := acc.outs, halted := acc.halted, dirty := true }
  | .returnIfInterrupted :: l, v => if v.halted then .ret v else runStageActs K st mode ci l v
  | .finalizeIfStates :: l, v =>
    if st.kind ≠ .main ∧ v.outs ≠ [] then
      let f := K.fin st.kind (v.outs.map (·.adapt)) v.states v.params (v.chains.map (·.rng))
      runStageActs K st mode ci l { v with params := f.1, states := f.2.1, draws := f.2.2, dirty := true }
    else runStageActs K st mode ci l v
  | .advanceOffsetIf c :: l, v =>
    runStageActs K st mode ci l
      (if c.eval st then { v with offset := v.offset + st.n, dirty := true } else v)

/-- What a pass leaves in the variables of `sample_chains`, as the model's `Sys`: a pass that assigned
nothing leaves the state as it is; the chain states become the next initial states and the per-chain
generator objects have been advanced by what `finalize` drew; a `return` stops the run. -/
def closePass {St V A P} (sys : Sys St V P) : Exit St V A P → Sys St V P
  | .next v =>
    if v.dirty then
      { params := v.params, chains := advance (setStates v.chains v.states) v.draws,
        offset := v.offset, finalStates := v.states, stopped := false }
    else sys
  | .ret v =>
    { params := v.params, chains := setStates v.chains v.states, offset := v.offset,
      finalStates := v.states, stopped := true }

/-- One pass of `for stage, _ in sampling_stages_pb` read from a statement list: a pass that has been
left by `return` ends the loop (`sys.stopped`); otherwise the actions run, in source order, on the
variables of `sample_chains`. -/
def stagePass {St V A P} (body : List S) (K : Kernel St V A P) (intr : Option (Nat × Nat × Nat × Nat))
    (sys : Sys St V P) (ksm : Nat × Stage × Mode) : Option (Sys St V P) :=
  (stagePlan body).map fun acts =>
    if sys.stopped then sys
    else
      closePass sys (runStageActs K ksm.2.1 ksm.2.2 (stageIntr intr ksm.1) acts
        ⟨sys.params, sys.chains, sys.offset, sys.finalStates, [], [], false, 0, false⟩)

end Sem

namespace Sem
open MiciVerif.Sampler MiciVerif.Stagers

/-! ### the iteration body of `_sample_chain` -/

/-- row expressions -/
inductive Row where
  /-- `sample_index + sampling_index_offset` -/
  | indexPlusOffset
  /-- `sample_index` -/
  | index
  deriving DecidableEq, Repr

def Row.eval (i offset : Nat) : Row → Nat
  | .indexPlusOffset => i + offset
  | .index => i

def row? : E → Option Row
  | .op "+" (.cons (.v "sample_index") (.cons (.v "sampling_index_offset") .nil)) => some .indexPlusOffset
  | .v "sample_index" => some .index
  | _ => Option.none

/-- actions on one transition -/
inductive TransAct where
  /-- `state, trans_stats = transition.sample(state, rng)` -/
  | sample
  /-- `if adapters is not None and trans_key in adapters: for … : adapter.update(adapter_state, state, trans_stats, transition)` -/
  | adapt
  /-- `if chain_stats is not None: _update_chain_stats(<row>, chain_stats, trans_key, trans_stats)` -/
  | writeStats (row : Row)
  deriving DecidableEq, Repr

/-- actions of one iteration -/
inductive IterAct where
  /-- `for trans_key, transition in transitions.items(): …` -/
  | forTransitions (acts : List TransAct)
  /-- `if chain_traces is not None and trace_funcs is not None: for trace_func in trace_funcs:
  for key, val in trace_func(state).items(): chain_traces[key][<row>] = val` -/
  | forTraces (row : Row)
  deriving DecidableEq, Repr

def transAct? (s : S) : Option TransAct :=
  if s = .assign (.tup (E.l [.v "state", .v "trans_stats"])) (.call "transition.sample" (E.l [.v "state", .v "rng"]))
    then some .sample
  else if s = .ifc (.op "and" (E.l [.op "is not" (E.l [.v "adapters", .none]), .op "in" (E.l [.v "trans_key", .v "adapters"])]))
      (S.b [.loop (.tup (E.l [.v "adapter", .v "adapter_state"]))
        (.call "zip" (E.l [.sub (.v "adapters") (.v "trans_key"), .sub (.v "adapter_states") (.v "trans_key"),
                           .kw "strict" (.v "True")]))
        (S.b [.expr (.call "adapter.update" (E.l [.v "adapter_state", .v "state", .v "trans_stats", .v "transition"]))])])
      (S.b [])
    then some .adapt
  else match s with
    | .ifc c (.seq (.expr (.call "_update_chain_stats" args)) .skip) .skip =>
      if c = .op "is not" (E.l [.v "chain_stats", .none]) then
        match args.items with
        | [r, .v "chain_stats", .v "trans_key", .v "trans_stats"] => (row? r).map .writeStats
        | _ => Option.none
      else Option.none
    | _ => Option.none

def transPlan : List S → Option (List TransAct)
  | [] => some []
  | s :: l => (transAct? s).bind fun a => (transPlan l).map fun as => a :: as

def iterAct? (s : S) : Option IterAct :=
  match s with
  | .loop t i b =>
    if t = .tup (E.l [.v "trans_key", .v "transition"]) ∧ i = .call "transitions.items" (E.l []) then
      (transPlan b.stmts).map .forTransitions
    else Option.none
  | .ifc c (.seq (.loop (.v "trace_func") (.v "trace_funcs")
        (.seq (.loop kv it (.seq (.assign (.sub (.sub (.v "chain_traces") (.v "key")) r) (.v "val")) .skip)) .skip)) .skip)
      .skip =>
    if c = .op "and" (E.l [.op "is not" (E.l [.v "chain_traces", .none]), .op "is not" (E.l [.v "trace_funcs", .none])])
        ∧ kv = .tup (E.l [.v "key", .v "val"])
        ∧ it = .meth (.call "trace_func" (E.l [.v "state"])) "items" (E.l []) then
      (row? r).map .forTraces
    else Option.none
  | _ => Option.none

/-- the actions of an iteration body, in source order; `none` if a statement is not recognised -/
def iterPlan : List S → Option (List IterAct)
  | [] => some []
  | s :: l => (iterAct? s).bind fun a => (iterPlan l).map fun as => a :: as

/-- The actions on transition `t` (operation `j` of iteration `i`), in order.  A `KeyboardInterrupt`
at `(i, j)` is raised by a user function inside `transition.sample`: the assignment does not happen
and nothing after it runs.  `o` is the pending result of `sample` (with the adapter updates it
leads to). -/
def runTransActs {St V A P} (st : Stage) (offset : Nat) (intr : Option (Nat × Nat)) (i j : Nat)
    (t : Kind → P → A → St → Rng → TOut St V A P) :
    List TransAct → Option (TOut St V A P) → Run St V A P → Option (Run St V A P)
  | [], _, x => some x
  | .sample :: l, _, x =>
    if x.halted then some x
    else if intr = some (i, j) then some { x with halted := true }
    else
      let o := t st.kind x.ctx.params x.ctx.adapt x.ctx.state x.ctx.rng
      runTransActs st offset intr i j t l (some o)
        { x with ctx := ⟨o.state, ⟨x.ctx.rng.stream, x.ctx.rng.pos + o.draws⟩, x.ctx.adapt, x.ctx.params,
                         x.ctx.log ++ [⟨x.ctx.rng.stream, x.ctx.rng.pos, o.draws⟩]⟩ }
  | .adapt :: l, o?, x =>
    if x.halted then some x
    else match o? with
      | some o => runTransActs st offset intr i j t l (some o)
          { x with ctx := { x.ctx with adapt := o.adapt, params := o.params } }
      | Option.none => Option.none
  | .writeStats r :: l, o?, x =>
    if x.halted then some x
    else match o? with
      | some o => runTransActs st offset intr i j t l (some o)
          { x with mem := if st.stats then writeCell x.mem j (r.eval i offset) o.stat else x.mem }
      | Option.none => Option.none

def runTransLoop {St V A P} (st : Stage) (offset : Nat) (intr : Option (Nat × Nat)) (i : Nat)
    (acts : List TransAct) :
    List (Kind → P → A → St → Rng → TOut St V A P) → Nat → Run St V A P → Option (Run St V A P × Nat)
  | [], j, x => some (x, j)
  | t :: ts, j, x =>
    (runTransActs st offset intr i j t acts Option.none x).bind (runTransLoop st offset intr i acts ts (j + 1))

def runTraceLoop {St V A P} (offset : Nat) (intr : Option (Nat × Nat)) (i : Nat) (r : Row) :
    List (St → V) → Nat → Run St V A P → Run St V A P × Nat
  | [], j, x => (x, j)
  | f :: fs, j, x =>
    runTraceLoop offset intr i r fs (j + 1)
      (if x.halted then x
       else if intr = some (i, j) then { x with halted := true }
       else { x with mem := writeCell x.mem j (r.eval i offset) (f x.ctx.state) })

/-- Execute the actions of an iteration in order; operations are numbered in execution order. -/
def runIterActs {St V A P} (K : Kernel St V A P) (st : Stage) (offset : Nat) (intr : Option (Nat × Nat))
    (i : Nat) : List IterAct → Nat → Run St V A P → Option (Run St V A P)
  | [], _, x => some x
  | .forTransitions acts :: l, j, x =>
    (runTransLoop st offset intr i acts K.trans j x).bind fun xj => runIterActs K st offset intr i l xj.2 xj.1
  | .forTraces r :: l, j, x =>
    if st.traced then
      let xj := runTraceLoop offset intr i r K.traces j x
      runIterActs K st offset intr i l xj.2 xj.1
    else runIterActs K st offset intr i l j x

/-- Iteration `i` of `for sample_index, monitor_dict in chain_iterator` read from a statement list. -/
def iterPass {St V A P} (body : List S) (K : Kernel St V A P) (st : Stage) (offset : Nat)
    (intr : Option (Nat × Nat)) (i : Nat) (x : Run St V A P) : Option (Run St V A P) :=
  (iterPlan body).bind fun acts => runIterActs K st offset intr i acts 0 x

end Sem

namespace Sem
open MiciVerif.Sampler MiciVerif.Stagers

/-! ### the whole body of `_sample_chain` -/

/-- abstract actions of the body of `_sample_chain` -/
inductive ChainAct where
  /-- `state = _check_and_process_init_state(init_state, transitions)` -/
  | initState
  /-- `if load_memmaps: chain_traces = _file_paths_to_memmaps(chain_traces); chain_stats = …` -/
  | loadMemmaps
  /-- `adapter_states = {}` -/
  | emptyAdapterStates
  /-- `try: if adapters is not None: for …: adapter_states[trans_key] = []; for adapter in …:
  adapter_states[trans_key].append(adapter.initialize(state, transitions[trans_key]))
  except AdaptationError as exception: return state, adapter_states, exception` -/
  | initAdapters
  /-- `try: sample_index = 0; with chain_iterator: for sample_index, monitor_dict in chain_iterator: <acts>
  except KeyboardInterrupt as e: exception = e  else: exception = None
  finally: _flush_memmap_chain_data(chain_traces, chain_stats)` -/
  | iterate (acts : List IterAct)
  /-- `return state, adapter_states, exception` -/
  | returnTriple
  deriving DecidableEq, Repr

def chainAct? (s : S) : Option ChainAct :=
  if s = .assign (.v "state") (.call "_check_and_process_init_state" (E.l [.v "init_state", .v "transitions"]))
    then some .initState
  else if s = .ifc (.v "load_memmaps")
      (S.b [.assign (.v "chain_traces") (.call "_file_paths_to_memmaps" (E.l [.v "chain_traces"])),
            .assign (.v "chain_stats") (.call "_file_paths_to_memmaps" (E.l [.v "chain_stats"]))]) (S.b [])
    then some .loadMemmaps
  else if s = .assign (.v "adapter_states") (.src "{}") then some .emptyAdapterStates
  else if s = .try_
      (S.b [.ifc (.op "is not" (E.l [.v "adapters", .none]))
        (S.b [.loop (.tup (E.l [.v "trans_key", .v "adapter_list"])) (.call "adapters.items" (E.l []))
          (S.b [.assign (.sub (.v "adapter_states") (.v "trans_key")) (.lst (E.l [])),
                .loop (.v "adapter") (.v "adapter_list")
                  (S.b [.expr (.meth (.sub (.v "adapter_states") (.v "trans_key")) "append"
                    (E.l [.call "adapter.initialize" (E.l [.v "state", .sub (.v "transitions") (.v "trans_key")])]))])])])
        (S.b [])])
      (S.b [.handler (.v "AdaptationError") "exception"
        (S.b [.ret (.tup (E.l [.v "state", .v "adapter_states", .v "exception"]))])])
      (S.b []) (S.b [])
    then some .initAdapters
  else if s = .ret (.tup (E.l [.v "state", .v "adapter_states", .v "exception"])) then some .returnTriple
  else match s with
    | .try_ (.seq a0 (.seq (.with_ w (.seq (.loop t it ib) .skip)) .skip)) h e f =>
      if a0 = .assign (.v "sample_index") (.n 0) ∧ w = E.l [.v "chain_iterator"]
          ∧ t = .tup (E.l [.v "sample_index", .v "monitor_dict"]) ∧ it = .v "chain_iterator"
          ∧ h = S.b [.handler (.v "KeyboardInterrupt") "e" (S.b [.assign (.v "exception") (.v "e")])]
          ∧ e = S.b [.assign (.v "exception") .none]
          ∧ f = S.b [.expr (.call "_flush_memmap_chain_data" (E.l [.v "chain_traces", .v "chain_stats"]))] then
        (iterPlan ib.stmts).map .iterate
      else Option.none
    | _ => Option.none

def chainPlan : List S → Option (List ChainAct)
  | [] => some []
  | s :: l => (chainAct? s).bind fun a => (chainPlan l).map fun as => a :: as

/-- The `for` loop over the chain iterator inside the `try`: an iteration that ends with a pending
`KeyboardInterrupt` leaves the loop (the handler records it); iterations are numbered from `start`. -/
def loopIters {St V A P} (K : Kernel St V A P) (st : Stage) (offset : Nat) (intr : Option (Nat × Nat))
    (acts : List IterAct) : Nat → Nat → Run St V A P → Option (Run St V A P)
  | _, 0, x => some x
  | start, n + 1, x =>
    if x.halted then some x
    else (runIterActs K st offset intr start acts 0 x).bind (loopIters K st offset intr acts (start + 1) n)

/-- local variables of `_sample_chain` -/
structure ChainVars (St V A P : Type) where
  /-- `adapter_states` and the transition attributes `initialize` may set; `none` before
  `adapter_states = {}` -/
  ap : Option (A × P)
  /-- what the loop left (`state`, generator, adapter states, arrays, pending interrupt) -/
  run : Option (Run St V A P)
  /-- value handed to `return` -/
  result : Option (Run St V A P)

/-- Execute the actions of the body in order.  `adapters is not None` iff the stage is not the main
stage; the chain iterator has `st.n` elements (set by the stage loop). -/
def runChainActs {St V A P} (K : Kernel St V A P) (st : Stage) (offset : Nat) (intr : Option (Nat × Nat))
    (p : P) (s : St) (rng : Rng) (log : List Draw) (mem : Mem V) :
    List ChainAct → ChainVars St V A P → Option (ChainVars St V A P)
  | [], v => some v
  | .initState :: l, v => runChainActs K st offset intr p s rng log mem l v
  | .loadMemmaps :: l, v => runChainActs K st offset intr p s rng log mem l v
  | .emptyAdapterStates :: l, v => runChainActs K st offset intr p s rng log mem l { v with ap := some (K.a0, p) }
  | .initAdapters :: l, v =>
    match v.ap with
    | some ap =>
      runChainActs K st offset intr p s rng log mem l
        { v with ap := some (if st.kind = .main then ap else K.init st.kind s p) }
    | Option.none => Option.none
  | .iterate acts :: l, v =>
    match v.ap with
    | some ap =>
      (loopIters K st offset intr acts 0 st.n ⟨⟨s, rng, ap.1, ap.2, log⟩, mem, false⟩).bind fun r =>
        runChainActs K st offset intr p s rng log mem l { v with run := some r }
    | Option.none => Option.none
  | .returnTriple :: _, v => some { v with result := v.run }

/-- `_sample_chain` read from its statement list: the returned `(state, adapter_states, exception)`
together with the arrays and the generator as the caller sees them afterwards. -/
def chainPass {St V A P} (body : List S) (K : Kernel St V A P) (st : Stage) (offset : Nat)
    (intr : Option (Nat × Nat)) (p : P) (s : St) (rng : Rng) (log : List Draw) (mem : Mem V) :
    Option (Run St V A P) :=
  (chainPlan body).bind fun acts =>
    (runChainActs K st offset intr p s rng log mem acts ⟨Option.none, Option.none, Option.none⟩).bind (·.result)

end Sem

namespace Sem
open MiciVerif.Sampler MiciVerif.Stagers

/-! ### `_sample_chains_sequential` -/

/-- actions of the body of the loop over the chains -/
inductive SeqAct where
  /-- `*outputs, exception = _sample_chain(chain_iterator=chain_iterator, chain_index=chain_index,
  **chain_kwargs, **common_kwargs)`: the chain runs on the caller's objects (generator, arrays,
  transitions), no copies -/
  | runChain
  /-- `if not isinstance(exception, AdaptationError): chain_outputs.append(outputs)` -/
  | appendOutputs
  /-- `if isinstance(exception, KeyboardInterrupt): break` -/
  | breakIfInterrupted
  deriving DecidableEq, Repr

/-- actions of the function body -/
inductive SeqFnAct where
  /-- `chain_outputs = []` -/
  | noOutputs
  /-- `exception = None` -/
  | noException
  /-- `for chain_index, (chain_iterator, chain_kwargs) in enumerate(zip(chain_iterators,
  per_chain_kwargs, strict=True)): <acts>` -/
  | forChains (acts : List SeqAct)
  /-- `return (*_collate_chain_outputs(chain_outputs), exception)` -/
  | returnCollated
  deriving DecidableEq, Repr

def seqAct? (s : S) : Option SeqAct :=
  if s = .assign (.tup (E.l [.star (.v "outputs"), .v "exception"]))
      (.call "_sample_chain" (E.l [.kw "chain_iterator" (.v "chain_iterator"), .kw "chain_index" (.v "chain_index"),
                                   .kwstar (.v "chain_kwargs"), .kwstar (.v "common_kwargs")]))
    then some .runChain
  else if s = .ifc (.op "not" (E.l [.call "isinstance" (E.l [.v "exception", .v "AdaptationError"])]))
      (S.b [.expr (.call "chain_outputs.append" (E.l [.v "outputs"]))]) (S.b [])
    then some .appendOutputs
  else if s = .ifc (.call "isinstance" (E.l [.v "exception", .v "KeyboardInterrupt"])) (S.b [.brk]) (S.b [])
    then some .breakIfInterrupted
  else Option.none

def seqPlan : List S → Option (List SeqAct)
  | [] => some []
  | s :: l => (seqAct? s).bind fun a => (seqPlan l).map fun as => a :: as

def seqFnAct? (s : S) : Option SeqFnAct :=
  if s = .assign (.v "chain_outputs") (.lst (E.l [])) then some .noOutputs
  else if s = .assign (.v "exception") .none then some .noException
  else if s = .ret (.tup (E.l [.star (.call "_collate_chain_outputs" (E.l [.v "chain_outputs"])), .v "exception"]))
    then some .returnCollated
  else match s with
    | .loop t it b =>
      if t = .tup (E.l [.v "chain_index", .tup (E.l [.v "chain_iterator", .v "chain_kwargs"])])
          ∧ it = .call "enumerate" (E.l [.call "zip" (E.l [.v "chain_iterators", .v "per_chain_kwargs",
                                                          .kw "strict" (.v "True")])]) then
        (seqPlan b.stmts).map .forChains
      else Option.none
    | _ => Option.none

def seqFnPlan : List S → Option (List SeqFnAct)
  | [] => some []
  | s :: l => (seqFnAct? s).bind fun a => (seqFnPlan l).map fun as => a :: as

/-- variables of `_sample_chains_sequential` as the model sees them -/
structure SeqVars (St V A P : Type) where
  /-- the (caller's) transition objects -/
  params : P
  /-- `chain_outputs` -/
  outs : List (Out St A)
  /-- the caller's per-chain data for the chains the loop has passed -/
  chains : List (Chain St V)
  /-- `isinstance(exception, KeyboardInterrupt)` -/
  halted : Bool
  /-- the loop has been left by `break` -/
  broke : Bool

/-- the body of the loop for chain `c` with the caller's data `ch`; `cur` is the pending output -/
def runSeqActs {St V A P} (K : Kernel St V A P) (st : Stage) (offset : Nat)
    (intr : Option (Nat × Nat × Nat)) (c : Nat) :
    List SeqAct → Chain St V → Option (Out St A) → SeqVars St V A P → SeqVars St V A P × Chain St V
  | [], ch, _, v => (v, ch)
  | .runChain :: l, ch, _, v =>
    let r := sampleChain K st offset (chainIntr intr c) v.params ch.state ch.rng ch.log ch.mem
    runSeqActs K st offset intr c l ⟨ch.state, r.ctx.rng, r.mem, r.ctx.log⟩
      (some ⟨c, r.ctx.state, r.ctx.adapt, r.ctx.rng⟩) { v with params := r.ctx.params, halted := r.halted }
  | .appendOutputs :: l, ch, cur, v =>
    runSeqActs K st offset intr c l ch cur { v with outs := v.outs ++ cur.toList }
  | .breakIfInterrupted :: l, ch, cur, v =>
    if v.halted then ({ v with broke := true }, ch) else runSeqActs K st offset intr c l ch cur v

/-- one pass of the `for` loop; after `break` the remaining chains are not touched -/
def seqLoopStep {St V A P} (K : Kernel St V A P) (st : Stage) (offset : Nat)
    (intr : Option (Nat × Nat × Nat)) (acts : List SeqAct) (v : SeqVars St V A P) (c : Nat × Chain St V) :
    SeqVars St V A P :=
  if v.broke then { v with chains := v.chains ++ [c.2] }
  else
    let r := runSeqActs K st offset intr c.1 acts c.2 Option.none v
    { r.1 with chains := r.1.chains ++ [r.2] }

def runSeqFnActs {St V A P} (K : Kernel St V A P) (st : Stage) (offset : Nat)
    (intr : Option (Nat × Nat × Nat)) (chains : List (Chain St V)) :
    List SeqFnAct → SeqVars St V A P → Option (Acc St V A P)
  | [], _ => Option.none
  | .noOutputs :: l, v => runSeqFnActs K st offset intr chains l { v with outs := [] }
  | .noException :: l, v => runSeqFnActs K st offset intr chains l { v with halted := false }
  | .forChains acts :: l, v =>
    runSeqFnActs K st offset intr chains l
      ((chains.zipIdx.map (fun ci => (ci.2, ci.1))).foldl (seqLoopStep K st offset intr acts) v)
  | .returnCollated :: _, v => some ⟨v.params, v.outs, v.chains, v.halted⟩

/-- `_sample_chains_sequential` read from its statement list -/
def seqPass {St V A P} (body : List S) (K : Kernel St V A P) (st : Stage) (offset : Nat)
    (intr : Option (Nat × Nat × Nat)) (p : P) (chains : List (Chain St V)) : Option (Acc St V A P) :=
  (seqFnPlan body).bind fun acts => runSeqFnActs K st offset intr chains acts ⟨p, [], [], false, false⟩

end Sem

namespace Sem
open MiciVerif.Sampler MiciVerif.Stagers

/-! ### collation of the workers' outputs in `_sample_chains_parallel` -/

/-- actions of the loop over the sorted worker outputs -/
inductive CollateAct where
  /-- `rngs[i].bit_generator.state = rng_state` -/
  | restoreRng
  /-- `chain_outputs.append(outp)` -/
  | appendOutput
  deriving DecidableEq, Repr

def collateAct? (s : S) : Option CollateAct :=
  if s = .assign (.attr (.attr (.sub (.v "rngs") (.v "i")) "bit_generator") "state") (.v "rng_state") then some .restoreRng
  else if s = .expr (.call "chain_outputs.append" (E.l [.v "outp"])) then some .appendOutput
  else Option.none

def collateActs? : List S → Option (List CollateAct)
  | [] => some []
  | s :: l => (collateAct? s).bind fun a => (collateActs? l).map fun as => a :: as

/-- Recognise
`if results is not None: indexed_chain_outputs = [r for res in results.get() for r in res];
chain_outputs = []; for i, (*outp, rng_state) in sorted(indexed_chain_outputs, key=lambda
indexed_output: indexed_output[0]): <acts>  else: chain_outputs = []`. -/
def collatePlan? : S → Option (List CollateAct)
  | .ifc c (.seq a1 (.seq a2 (.seq (.loop t it b) .skip))) f =>
    if c = .op "is not" (E.l [.v "results", .none])
        ∧ a1 = .assign (.v "indexed_chain_outputs") (.src "[r for res in results.get() for r in res]")
        ∧ a2 = .assign (.v "chain_outputs") (.lst (E.l []))
        ∧ t = .tup (E.l [.v "i", .tup (E.l [.star (.v "outp"), .v "rng_state"])])
        ∧ it = .call "sorted" (E.l [.v "indexed_chain_outputs",
                                    .kw "key" (.src "lambda indexed_output: indexed_output[0]")])
        ∧ f = S.b [.assign (.v "chain_outputs") (.lst (E.l []))] then
      collateActs? b.stmts
    else Option.none
  | _ => Option.none

/-- the loop body for one worker output `o = (i, (*outp, rng_state))` -/
def runCollateActs {St V A} : List CollateAct → Out St A → List (Out St A) × List (Chain St V) →
    List (Out St A) × List (Chain St V)
  | [], _, x => x
  | .restoreRng :: l, o, x => runCollateActs l o (x.1, Sampler.restoreRng x.2 o)
  | .appendOutput :: l, o, x => runCollateActs l o (x.1 ++ [o], x.2)

/-- The collation block read from its statement: `results.get()` are the per-worker output lists
(`perWorker`), `chains` the parent's per-chain data after the workers wrote their files, `halted`
whether an interrupt was recorded, `p` the parent's (untouched) transition objects. -/
def collatePass {St V A P} (stmt : S) (p : P) (perWorker : List (List (WOut St V A)))
    (chains : List (Chain St V)) (halted : Bool) : Option (Acc St V A P) :=
  (collatePlan? stmt).map fun acts =>
    let x := (sortOuts (perWorker.flatten.map (·.out))).foldl (fun x o => runCollateActs acts o x) ([], chains)
    ⟨p, x.1, x.2, halted⟩

end Sem

end MiciVerif.Skel
