/-
Model of `mici.transitions` integration transitions at the level of an integrator *orbit*.

* `Dist K α` — finite distributions with exact weights in an ordered field `K`.
* `metropolis` — `MetropolisIntegrationTransition._sample_n_step` (static and random length).
* `TTree K` — the portion of the orbit a dynamic transition can see once its direction draws
  are fixed: a binary tree whose leaves are orbit points (weight, "not divergent" flag) and
  whose inner nodes carry the success flag of the integrator step joining the two halves and
  the termination-criterion flag of that sub-tree (including the extra sub-tree checks).
  `climb`/`final` mirror `DynamicIntegrationTransition.sample` + `_build_tree` for the
  direction sequence that makes the tree `t` the trajectory tree; `dynamic` mixes over the
  `2^D` direction sequences exactly as the `rng.uniform() < 0.5` draws do.

The weight conventions of the two subclasses (`LogRepFloat(exp(-h))` and the slice
indicator) both instantiate `w`; `ratio num den = min (num / den) 1` covers both
`_weight_ratio` implementations (with `x / 0 = 0`, and `num = 0` whenever `den = 0`).
-/
import Mathlib.Algebra.Order.Field.Basic
import Mathlib.Algebra.Order.Field.Rat

namespace MiciVerif.Transitions

/-! ### finite distributions -/

abbrev Dist (K α : Type) := List (α × K)

namespace Dist
variable {K α β : Type} [Field K]

def pure (a : α) : Dist K α := [(a, 1)]

def bind (d : Dist K α) (f : α → Dist K β) : Dist K β :=
  List.flatMap (fun (x : α × K) => List.map (fun (y : β × K) => (y.1, x.2 * y.2)) (f x.1)) d

def map (f : α → β) (d : Dist K α) : Dist K β := List.map (fun (x : α × K) => (f x.1, x.2)) d

/-- `rng.uniform() < p` : `true` with probability `p`. -/
def bernoulli (p : K) : Dist K Bool := [(true, p), (false, 1 - p)]

/-- `rng.integers(lo, hi)`: uniform on `[lo, hi)` (what NumPy draws; the docstring of
`MetropolisRandomIntegrationTransition` says inclusive, the model follows the code). -/
def uniformRange (lo hi : Nat) : Dist K Nat :=
  List.map (fun k => (lo + k, 1 / ((hi - lo : Nat) : K))) (List.range (hi - lo))

/-- expectation of `g` -/
def expect (d : Dist K α) (g : α → K) : K := (List.map (fun (x : α × K) => x.2 * g x.1) d).sum

def prob [DecidableEq α] (d : Dist K α) (x : α) : K := expect d (fun a => if a = x then 1 else 0)

end Dist

open Dist

variable {K : Type} [Field K] [LinearOrder K]

/-- `_weight_ratio(numerator, denominator)` of both dynamic transitions, and the Metropolis
acceptance probability `exp(min(0, h_init - h_final)) = min(1, w_final / w_init)`. -/
def ratio (num den : K) : K := min (num / den) 1

/-! ### Metropolis transitions -/

/-- Orbit seen by a Metropolis transition: `w i` = `exp(-h)` of orbit point `i` (0 if the
energy is NaN/+inf), `pathOk i n` = the `n` integrator steps joining `i` and `i+n` all succeed
(same flag in both directions: C02). State = (orbit index, direction). -/
structure MOrbit (K : Type) where
  w : Int → K
  pathOk : Int → Nat → Bool

/-- `_sample_n_step(state, n_step, rng)` -/
def metropolis (o : MOrbit K) (n : Nat) (s : Int × Bool) : Dist K (Int × Bool) :=
  let (i, fwd) := s
  let lo := if fwd then i else i - n       -- left end of the integrated segment
  let j := if fwd then i + n else i - n
  if o.pathOk lo n then
    -- proposal (j, ¬fwd); accepted → direction flipped again → (j, fwd); rejected → (i, ¬fwd)
    Dist.map (fun acc => if acc then (j, fwd) else (i, !fwd)) (bernoulli (ratio (o.w j) (o.w i)))
  else
    Dist.pure (i, !fwd)

/-- `MetropolisRandomIntegrationTransition.sample` -/
def metropolisRandom (o : MOrbit K) (lo hi : Nat) (s : Int × Bool) : Dist K (Int × Bool) :=
  Dist.bind (uniformRange lo hi) (fun n => metropolis o n s)

/-! ### Statistics of the Metropolis transitions

`_sample_n_step` reports `n_step` = the loop index at which `integrator.step` raised (the number
of steps that succeeded) or `n`, and `accept_stat` = the acceptance probability, 0 after an
integrator error.  To express "the step that failed" the orbit is refined to single steps:
`stepOk e` = the integrator step joining orbit points `e` and `e + 1` succeeds (in either
direction: C02). -/

structure MOrbitS (K : Type) where
  w : Int → K
  stepOk : Int → Bool

/-- all `n` steps joining `lo … lo + n` succeed -/
def MOrbitS.pathOk (o : MOrbitS K) (lo : Int) (n : Nat) : Bool :=
  (List.range n).all (fun t => o.stepOk (lo + (t : Int)))

def MOrbitS.toOrbit (o : MOrbitS K) : MOrbit K := ⟨o.w, o.pathOk⟩

/-- Number of `integrator.step` calls that succeed before the first failure (at most `n`),
starting at orbit point `i` in direction `fwd`: the value of `_s` in the `except` branch. -/
def stepsTaken (o : MOrbitS K) (fwd : Bool) : Nat → Int → Nat
  | 0, _ => 0
  | n + 1, i =>
    if o.stepOk (if fwd then i else i - 1) then
      1 + stepsTaken o fwd n (if fwd then i + 1 else i - 1)
    else 0

/-- `(n_step, accept_stat, integration_error)` of `_sample_n_step(state, n, rng)`. -/
def metropolisStats (o : MOrbitS K) (n : Nat) (s : Int × Bool) : Nat × K × Bool :=
  let taken := stepsTaken o s.2 n s.1
  let j := if s.2 then s.1 + n else s.1 - n
  if taken < n then (taken, 0, true) else (n, ratio (o.w j) (o.w s.1), false)

/-! ### Dynamic (NUTS-like) transitions -/

inductive TTree (K : Type) where
  | leaf (w : K) (ok : Bool) : TTree K
  | node (l r : TTree K) (edgeOk term : Bool) : TTree K
  deriving Repr

namespace TTree

def size : TTree K → Nat
  | leaf _ _ => 1
  | node l r _ _ => l.size + r.size

/-- `Σ_k w_k * g k` over the leaves (offsets from the left end). -/
def wsum : TTree K → (Nat → K) → K
  | leaf w _, g => w * g 0
  | node l r _ _, g => l.wsum g + r.wsum (fun k => g (k + l.size))

/-- total weight of the (sub-)tree: `_SubTree.weight` -/
def W (t : TTree K) : K := t.wsum (fun _ => 1)

/-- `_build_tree` does not terminate on this sub-tree: every leaf is reached by a successful
step and is not divergent, and no sub-tree of depth ≥ 1 (including itself) satisfies the
termination criterion. -/
def valid : TTree K → Bool
  | leaf _ ok => ok
  | node l r e τ => l.valid && r.valid && e && !τ

/-- termination flag of the tree as a whole (leaves are never checked) -/
def termFlag : TTree K → Bool
  | leaf _ _ => false
  | node _ _ _ τ => τ

/-- everything strictly inside is fine (the tree can become the current trajectory tree) -/
def good : TTree K → Bool
  | leaf _ ok => ok
  | node l r e _ => l.valid && r.valid && e

/-- all weights are non-negative -/
def Nonneg : TTree K → Prop
  | leaf w _ => 0 ≤ w
  | node l r _ _ => l.Nonneg ∧ r.Nonneg

/-- leaves of positive weight are not divergent (slice: `u ≤ exp(-h)` ⇒ `h + log u ≤ 0 ≤ Δ`) -/
def PosOk : TTree K → Prop
  | leaf w ok => 0 < w → ok = true
  | node l r _ _ => l.PosOk ∧ r.PosOk

/-- Proposal carried by a sub-tree freshly built by `_build_tree` in direction `fwd`
(`fwd = true`: built left to right, so the *outer* half is the right one):
`proposal = outer_proposal if rng.uniform() < W_outer / W_tree else inner_proposal`. -/
def propose (fwd : Bool) : TTree K → Dist K Nat
  | leaf _ _ => Dist.pure 0
  | node l r _ _ =>
    let wOuter := if fwd then r.W else l.W
    Dist.bind (bernoulli (ratio wOuter (l.W + r.W))) (fun pickOuter =>
      if pickOuter = fwd then Dist.map (· + l.size) (propose fwd r) else propose fwd l)

end TTree

open TTree

inductive Res where
  | stopped (c : Nat)   -- the tree expansion stopped below the top; `c` is the chain state
  | top (c : Nat)       -- the whole tree became the trajectory tree with current sample `c`
  deriving DecidableEq, Repr

def Res.val : Res → Nat
  | .stopped c => c
  | .top c => c

/-- One iteration of the `for depth in range(max_tree_depth)` loop of `sample`, when the
current trajectory tree is `cur` with current sample `c` (offset inside `cur`) and the
direction drawn is the one towards the sibling `sib`.  Offsets of the result are relative to
the parent `(cur, sib)` resp. `(sib, cur)`. -/
def stepUp (cur sib : TTree K) (curIsLeft : Bool) (edgeOk : Bool) (c : Nat) : Dist K Res :=
  let here := if curIsLeft then c else c + sib.size
  if cur.termFlag then Dist.pure (.stopped here)        -- `break` after the previous merge
  else if !(edgeOk && sib.valid) then Dist.pure (.stopped here)   -- `_build_tree` terminated
  else
    Dist.bind (bernoulli (ratio sib.W cur.W)) (fun acc =>
      if acc then
        Dist.map (fun k => Res.top (if curIsLeft then k + cur.size else k)) (propose curIsLeft sib)
      else Dist.pure (.top here))

/-- The transition from the leaf at offset `start` when the direction draws are the ones
that make `t` the maximal trajectory tree. -/
def climb : (t : TTree K) → (start : Nat) → Dist K Res
  | leaf _ _, _ => Dist.pure (.top 0)
  | node l r e _, start =>
    if start < l.size then
      Dist.bind (climb l start) (fun res => match res with
        | .stopped c => Dist.pure (.stopped c)
        | .top c => stepUp l r true e c)
    else
      Dist.bind (climb r (start - l.size)) (fun res => match res with
        | .stopped c => Dist.pure (.stopped (c + l.size))
        | .top c => stepUp r l false e c)

/-- next chain state (offset in `t`) -/
def final (t : TTree K) (start : Nat) : Dist K Nat := Dist.map Res.val (climb t start)

/-! ### Statistics reported by a dynamic transition (deterministic given tree and start) -/

/-- How a `_build_tree` call ended. -/
inductive BuildEnd | ok | crit | err
  deriving DecidableEq, Repr

/-- Leaves visited by `_build_tree` on `t` in direction `fwd`, in visiting order (offsets of
the leaves whose integrator step succeeded: exactly those are counted in `n_step`), and how
the build ended: `ok`, terminated by the criterion, or by an integrator error / divergence.
Mirrors the depth-first order of `_build_tree`: inner half first, then the connecting step
into the outer half. -/
def buildVisit (fwd : Bool) : TTree K → (entryOk : Bool) → List Nat × BuildEnd
  | leaf _ ok, entryOk =>
    if entryOk then ([0], if ok then .ok else .err) else ([], .err)
  | node l r e τ, entryOk =>
    if fwd then
      let ri := buildVisit fwd l entryOk
      if ri.2 ≠ .ok then ri else
      let ro := buildVisit fwd r e
      let vo := ro.1.map (· + l.size)
      if ro.2 ≠ .ok then (ri.1 ++ vo, ro.2) else
      (ri.1 ++ vo, if τ then .crit else .ok)
    else
      let ri := buildVisit fwd r entryOk
      let vi := ri.1.map (· + l.size)
      if ri.2 ≠ .ok then (vi, ri.2) else
      let ro := buildVisit fwd l e
      if ro.2 ≠ .ok then (vi ++ ro.1, ro.2) else
      (vi ++ ro.1, if τ then .crit else .ok)

/-- Leaves visited over the whole transition (besides the start), whether the expansion is
still going on when `t` has become the trajectory tree, the number of loop iterations
executed and whether an integrator error / divergence was met. -/
def visited : (t : TTree K) → (start : Nat) → List Nat × Bool × Nat × Bool
  | leaf _ _, _ => ([], true, 0, false)
  | node l r e _, start =>
    if start < l.size then
      let p := visited l start
      if !p.2.1 then p else
      if l.termFlag then (p.1, false, p.2.2.1, p.2.2.2) else
      let b := buildVisit true r e
      (p.1 ++ b.1.map (· + l.size), b.2 = .ok, p.2.2.1 + 1, b.2 = .err)
    else
      let p := visited r (start - l.size)
      let v := p.1.map (· + l.size)
      if !p.2.1 then (v, false, p.2.2.1, p.2.2.2) else
      if r.termFlag then (v, false, p.2.2.1, p.2.2.2) else
      let b := buildVisit false l e
      (v ++ b.1, b.2 = .ok, p.2.2.1 + 1, b.2 = .err)

/-- weight of the leaf at an offset (0 outside) -/
def TTree.weightAt : TTree K → Nat → K
  | .leaf w _, _ => w
  | .node l r _ _, k => if k < l.size then l.weightAt k else r.weightAt (k - l.size)

/-- `n_step` as the code counts it: one increment per successful leaf of `_build_tree`. -/
def nStep (t : TTree K) (start : Nat) : Nat := (visited t start).1.length

/-- `accept_stat`: 0 if an error flag is set, else the mean over the visited leaves of
`min(1, w_leaf / w_start)` (0 when nothing was visited). -/
def acceptStat (t : TTree K) (start : Nat) : K :=
  let v := visited t start
  if v.2.2.2 then 0 else
  if v.1.length = 0 then 0 else
  ((v.1.map (fun k => ratio (t.weightAt k) (t.weightAt start))).sum) / (v.1.length : K)

/-! ### The orbit on ℤ and the mixture over direction draws -/

/-- What a dynamic transition can observe of an orbit: weights, divergence flags, success of
the step between `i` and `i+1`, and the termination criterion of the block `[a, a + 2^m)`. -/
structure DOrbit (K : Type) where
  w : Int → K
  ok : Int → Bool
  edgeOk : Int → Bool
  term : Int → Nat → Bool

/-- perfect tree of depth `m` over the orbit points `[a, a + 2^m)` -/
def treeOf (o : DOrbit K) : Nat → Int → TTree K
  | 0, a => .leaf (o.w a) (o.ok a)
  | m + 1, a => .node (treeOf o m a) (treeOf o m (a + 2 ^ m)) (o.edgeOk (a + 2 ^ m - 1)) (o.term a (m + 1))

/-- `DynamicIntegrationTransition.sample` from orbit point `i` with `max_tree_depth = D`:
the `D` fair direction draws place `i` at a uniformly distributed offset `k` of the maximal
tree `[i - k, i - k + 2^D)`. -/
def dynamic (o : DOrbit K) (D : Nat) (i : Int) : Dist K Int :=
  Dist.bind (uniformRange 0 (2 ^ D)) (fun k =>
    Dist.map (fun (c : Nat) => i - (k : Int) + (c : Int)) (final (treeOf o D (i - k)) k))

end MiciVerif.Transitions
