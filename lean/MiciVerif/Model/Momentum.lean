/-
Model of the momentum updates of mici:

* `EuclideanMetricSystem.sample_momentum`            `metric.sqrt @ rng.standard_normal(…)`
* `RiemannianMetricSystem.sample_momentum`           `metric(state).sqrt @ rng.normal(…)`
* `ConstrainedTractableFlowSystem.sample_momentum`   the former followed by
                                                     `project_onto_cotangent_space`
* `IndependentMomentumTransition.sample`, `CorrelatedMomentumTransition.sample`
                                                     (transitions.py:129-198)

over a commutative ring / field `K`.  The square root `L = metric.sqrt` and the Crank–Nicolson
coefficient `a = (1 - c²)**0.5` are *checked data* (`L Lᵀ = M`, `a² = 1 - c²` are hypotheses of
the theorems).  Gaussian laws are represented by their second moments: finite weighted samples
`(w i, z i)`, `i : ι`.
-/
import MiciVerif.Model.Constrained
import Mathlib.Algebra.BigOperators.Group.Finset.Basic

namespace MiciVerif.Momentum
open Matrix MiciVerif.Constrained

variable {K : Type*}

section Sample
variable [CommRing K] {n c : Type*} [Fintype n] [Fintype c]

/-- `metric.sqrt @ z` -/
def sampleMomentum (L : Matrix n n K) (z : n → K) : n → K := L *ᵥ z

/-- constrained systems: draw, then project onto the cotangent space -/
def sampleMomentumConstrained (J : Matrix c n K) (N : Matrix n n K) (Ginv : Matrix c c K)
    (L : Matrix n n K) (z : n → K) : n → K :=
  project J N Ginv (sampleMomentum L z)

/-- Second moment `Σ wᵢ zᵢ zᵢᵀ` of a finite weighted sample (the covariance when the mean is 0). -/
def secondMoment {ι : Type*} [Fintype ι] (w : ι → K) (z : ι → n → K) : Matrix n n K :=
  ∑ i, w i • vecMulVec (z i) (z i)

/-- mean `Σ wᵢ zᵢ` -/
def mean {ι : Type*} [Fintype ι] (w : ι → K) (z : ι → n → K) : n → K := ∑ i, w i • z i

end Sample

/-! ### `CorrelatedMomentumTransition.sample` -/

section Transition
variable [CommRing K] [DecidableEq K] {n : Type*}

inductive Branch | fullRefresh | partialRefresh | unchanged
  deriving DecidableEq, Repr

/-- which branch of `sample` runs: `if state.mom is None or c == 1: … elif c != 0: …` -/
def branch (momIsNone : Bool) (c : K) : Branch :=
  if momIsNone = true ∨ c = 1 then .fullRefresh else if c ≠ 0 then .partialRefresh else .unchanged

/-- `CorrelatedMomentumTransition.sample`.  `S` is `system.sample_momentum` as a function of the
normal draw, `rng k` the `k`-th draw of the generator, `a` the value of `(1 - c**2) ** 0.5`.
Returns the new momentum and the number of draws consumed so far. -/
def correlatedSample (S : (n → K) → (n → K)) (c a : K) (mom : Option (n → K))
    (rng : Nat → n → K) (k : Nat) : (n → K) × Nat :=
  match mom with
  | none => (S (rng k), k + 1)
  | some p =>
    if c = 1 then (S (rng k), k + 1)
    else if c ≠ 0 then (a • p + c • S (rng k), k + 1)
    else (p, k)

/-- `IndependentMomentumTransition.sample` -/
def independentSample (S : (n → K) → (n → K)) (rng : Nat → n → K) (k : Nat) : (n → K) × Nat :=
  (S (rng k), k + 1)

end Transition

end MiciVerif.Momentum
