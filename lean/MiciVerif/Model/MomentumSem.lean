/-
A reading of the momentum transitions of `mici.transitions` on the state of `Model/Momentum.lean`
(builder B10; same technique and the same types `Skel.E` / `Skel.S` as the sampler / transition skeletons).

`Generated/TransitionSkeleton.lean` (regenerated from the tree under test on every run) holds the statement
trees of `IndependentMomentumTransition.sample`, `CorrelatedMomentumTransition.__init__` and `.sample`.
`Skel.MSem` reads such a tree as a function on the model's state — the momentum (`state.mom`, possibly
`None`), the local `mom_ind`, the number of normal draws consumed so far — in two steps:

* `MSem.act?` translates the statements into a small typed language (`SExp` scalar expressions of the
  resampling coefficient, `CExp` conditions, `VExp` vector expressions, `Act` statements).  It is an
  *expression-level* translation, not a table of whole statements: `c`, `c**2`, `1.0 - c**2`,
  `(…) ** 0.5`, `c * mom_ind`, `x is None or c == 1`, `not (c >= 0 and c <= 1)` … are translated
  compositionally, anything else is rejected (`none`: fail closed).
* `MSem.exec` executes the translated statements IN SOURCE ORDER.  Conventions (what the reading assumes):
  `self.system.sample_momentum(state, rng)` is `S (rng k)` for the `k`-th draw of the generator and
  advances the draw counter by one (`S` is `system.sample_momentum` as a function of the normal draw:
  `Momentum.sampleMomentum L`, `sampleMomentumConstrained …`); `x ** 0.5` is `sqrt x` for a function
  `sqrt : K → K` (checked datum: the theorems that need it assume `sqrt x * sqrt x = x` at the one
  argument used); the float literals `1.0` / `0.0` are `1` / `0`; `state.mom *= e` / `+= e` have the value
  semantics of `state.mom = state.mom * e` / `+ e` and fail on `None`; `a >= b` is `le b a` for the
  supplied comparison `le`; `return state, None` ends the execution.

`Props/C08K.lean` proves that the readings of the bodies *generated from the current source* are
`Momentum.independentSample` / `Momentum.correlatedSample` with `a = sqrt (1 - c*c)`, for every commutative
ring, index type, coefficient, momentum and generator, that the constructor accepts exactly `0 ≤ c ≤ 1`,
and transports the C08 theorems to the reading.
-/
import MiciVerif.Model.SamplerSkeleton
import MiciVerif.Model.Momentum

namespace MiciVerif.Skel.MSem
open MiciVerif.Momentum

/-! ## the typed language -/

/-- scalar expressions in the resampling coefficient -/
inductive SExp where
  /-- `self.mom_resample_coeff` (in `__init__`: the argument `mom_resample_coeff`) -/
  | coeff
  /-- an integer literal, or the float literal `1.0` / `0.0` -/
  | int (k : Int)
  | add (a b : SExp)
  | sub (a b : SExp)
  | mul (a b : SExp)
  /-- `a ** 2` -/
  | sq (a : SExp)
  /-- `a ** 0.5` -/
  | sqrt (a : SExp)
  deriving DecidableEq, Repr

/-- conditions -/
inductive CExp where
  /-- `state.mom is None` -/
  | momIsNone
  | eq (a b : SExp)
  | ne (a b : SExp)
  /-- `a <= b` (also written `b >= a`) -/
  | le (a b : SExp)
  /-- `a < b` (also written `b > a`) -/
  | lt (a b : SExp)
  | or (a b : CExp)
  | and (a b : CExp)
  | not (a : CExp)
  deriving DecidableEq, Repr

/-- vector expressions -/
inductive VExp where
  /-- `self.system.sample_momentum(state, rng)` -/
  | draw
  /-- the local `mom_ind` -/
  | momInd
  /-- `state.mom` -/
  | mom
  /-- `a * v` / `v * a` -/
  | smul (a : SExp) (v : VExp)
  | add (u v : VExp)
  deriving DecidableEq, Repr

/-- statements (blocks encoded by `seq` / `skip` like `Skel.S`) -/
inductive Act where
  | skip
  | seq (h t : Act)
  /-- `state.mom = v` -/
  | setMom (v : VExp)
  /-- `mom_ind = v` -/
  | setInd (v : VExp)
  /-- `state.mom *= a` -/
  | scaleMom (a : SExp)
  /-- `state.mom += v` -/
  | addMom (v : VExp)
  | ite (c : CExp) (t f : Act)
  /-- `return state, None` -/
  | ret
  deriving DecidableEq, Repr

/-- statements of `CorrelatedMomentumTransition.__init__` -/
inductive InitAct where
  /-- `super().__init__(system)` -/
  | superInit
  /-- `if <c>: raise ValueError(msg)` -/
  | rejectIf (c : CExp)
  /-- `self.mom_resample_coeff = mom_resample_coeff` -/
  | store
  deriving DecidableEq, Repr

/-! ## translation of `Skel.E` / `Skel.S` (fail closed) -/

/-- scalar expression; `cname` is the name under which the coefficient is visible in the function -/
def sexp? (cname : String) : E → Option SExp
  | .v x => if x = cname then some .coeff else Option.none
  | .n k => some (.int k)
  | .src t => if t = "1.0" then some (.int 1) else if t = "0.0" then some (.int 0) else Option.none
  | .op o (.cons a (.cons b .nil)) =>
    if o = "**" then
      if b = .n 2 then (sexp? cname a).map .sq
      else if b = .src "0.5" then (sexp? cname a).map .sqrt
      else Option.none
    else
      match sexp? cname a, sexp? cname b with
      | some x, some y =>
        if o = "+" then some (.add x y) else if o = "-" then some (.sub x y)
        else if o = "*" then some (.mul x y) else Option.none
      | _, _ => Option.none
  | _ => Option.none

/-- condition -/
def cexp? (cname : String) : E → Option CExp
  | .op o (.cons a (.cons b .nil)) =>
    if o = "is" then (if a = .v "state.mom" ∧ b = .none then some .momIsNone else Option.none)
    else if o = "is not" then (if a = .v "state.mom" ∧ b = .none then some (.not .momIsNone) else Option.none)
    else if o = "or" then
      (match cexp? cname a, cexp? cname b with
       | some x, some y => some (.or x y)
       | _, _ => Option.none)
    else if o = "and" then
      (match cexp? cname a, cexp? cname b with
       | some x, some y => some (.and x y)
       | _, _ => Option.none)
    else
      match sexp? cname a, sexp? cname b with
      | some x, some y =>
        if o = "==" then some (.eq x y) else if o = "!=" then some (.ne x y)
        else if o = "<=" then some (.le x y) else if o = ">=" then some (.le y x)
        else if o = "<" then some (.lt x y) else if o = ">" then some (.lt y x)
        else Option.none
      | _, _ => Option.none
  | .op o (.cons a .nil) => if o = "not" then (cexp? cname a).map .not else Option.none
  | _ => Option.none

/-- `self.system.sample_momentum(state, rng)` -/
def drawCall : E := .call "self.system.sample_momentum" (E.l [.v "state", .v "rng"])

/-- vector expression -/
def vexp? (cname : String) : E → Option VExp
  | .v x => if x = "state.mom" then some .mom else if x = "mom_ind" then some .momInd else Option.none
  | .call f args => if E.call f args = drawCall then some .draw else Option.none
  | .op o (.cons a (.cons b .nil)) =>
    if o = "*" then
      match sexp? cname a, vexp? cname b with
      | some x, some v => some (.smul x v)
      | _, _ =>
        match vexp? cname a, sexp? cname b with
        | some v, some x => some (.smul x v)
        | _, _ => Option.none
    else if o = "+" then
      match vexp? cname a, vexp? cname b with
      | some u, some v => some (.add u v)
      | _, _ => Option.none
    else Option.none
  | _ => Option.none

/-- statement tree of a `sample` method -/
def act? (cname : String) : S → Option Act
  | .skip => some .skip
  | .seq h t =>
    match act? cname h, act? cname t with
    | some x, some y => some (.seq x y)
    | _, _ => Option.none
  | .assign tgt e =>
    if tgt = .v "state.mom" then (vexp? cname e).map .setMom
    else if tgt = .v "mom_ind" then (vexp? cname e).map .setInd
    else Option.none
  | .aug tgt o e =>
    if tgt = .v "state.mom" then
      if o = "*" then (sexp? cname e).map .scaleMom
      else if o = "+" then (vexp? cname e).map .addMom
      else Option.none
    else Option.none
  | .ifc c t f =>
    match cexp? cname c, act? cname t, act? cname f with
    | some x, some y, some z => some (.ite x y z)
    | _, _, _ => Option.none
  | .ret e => if e = .tup (E.l [.v "state", .none]) then some .ret else Option.none
  | _ => Option.none

/-- one statement of the constructor -/
def initAct? (s : S) : Option InitAct :=
  if s = .expr (.meth (.call "super" (E.l [])) "__init__" (E.l [.v "system"])) then some .superInit
  else if s = .assign (.v "self.mom_resample_coeff") (.v "mom_resample_coeff") then some .store
  else match s with
    | .ifc c t f =>
      if t = S.b [.raise_ (.call "ValueError" (E.l [.v "msg"])) .none] ∧ f = S.b [] then
        (cexp? "mom_resample_coeff" c).map .rejectIf
      else Option.none
    | _ => Option.none

def initPlan : List S → Option (List InitAct)
  | [] => some []
  | s :: l => (initAct? s).bind fun a => (initPlan l).map fun as => a :: as

/-! ## evaluation -/

section Eval
variable {K : Type*} [CommRing K] [DecidableEq K]

/-- value of a scalar expression at coefficient `c`, with `x ** 0.5` read as `sqrt x` -/
def SExp.eval (sqrt : K → K) (c : K) : SExp → K
  | .coeff => c
  | .int k => (k : K)
  | .add a b => a.eval sqrt c + b.eval sqrt c
  | .sub a b => a.eval sqrt c - b.eval sqrt c
  | .mul a b => a.eval sqrt c * b.eval sqrt c
  | .sq a => a.eval sqrt c * a.eval sqrt c
  | .sqrt a => sqrt (a.eval sqrt c)

/-- truth value of a condition (`le`, `lt`: the comparisons of the scalar type) -/
def CExp.eval (sqrt : K → K) (le lt : K → K → Bool) (c : K) (momIsNone : Bool) : CExp → Bool
  | .momIsNone => momIsNone
  | .eq a b => decide (a.eval sqrt c = b.eval sqrt c)
  | .ne a b => !decide (a.eval sqrt c = b.eval sqrt c)
  | .le a b => le (a.eval sqrt c) (b.eval sqrt c)
  | .lt a b => lt (a.eval sqrt c) (b.eval sqrt c)
  | .or a b => a.eval sqrt le lt c momIsNone || b.eval sqrt le lt c momIsNone
  | .and a b => a.eval sqrt le lt c momIsNone && b.eval sqrt le lt c momIsNone
  | .not a => !a.eval sqrt le lt c momIsNone

variable {n : Type*}

/-- the variables a `sample` method works on -/
structure Vars (K : Type*) (n : Type*) where
  /-- `state.mom` (`none`: Python's `None`) -/
  mom : Option (n → K)
  /-- the local `mom_ind` (`none`: not yet assigned) -/
  ind : Option (n → K)
  /-- number of normal draws consumed so far -/
  k : Nat

/-- value of a vector expression, operands evaluated left to right; a draw advances the counter; reading
`None` / an unassigned local fails -/
def VExp.eval (Sm : (n → K) → (n → K)) (sqrt : K → K) (c : K) (rng : Nat → n → K) :
    VExp → Vars K n → Option ((n → K) × Vars K n)
  | .draw, v => some (Sm (rng v.k), { v with k := v.k + 1 })
  | .momInd, v => v.ind.map fun x => (x, v)
  | .mom, v => v.mom.map fun x => (x, v)
  | .smul a e, v => (e.eval Sm sqrt c rng v).map fun r => (a.eval sqrt c • r.1, r.2)
  | .add e f, v =>
    (e.eval Sm sqrt c rng v).bind fun r => (f.eval Sm sqrt c rng r.2).map fun r' => (r.1 + r'.1, r'.2)

/-- execute a statement tree in source order; the flag says that `return` was reached -/
def exec (Sm : (n → K) → (n → K)) (sqrt : K → K) (le lt : K → K → Bool) (c : K) (rng : Nat → n → K) :
    Act → Vars K n → Option (Vars K n × Bool)
  | .skip, v => some (v, false)
  | .seq h t, v =>
    (exec Sm sqrt le lt c rng h v).bind fun r => if r.2 then some r else exec Sm sqrt le lt c rng t r.1
  | .setMom e, v => (e.eval Sm sqrt c rng v).map fun r => ({ r.2 with mom := some r.1 }, false)
  | .setInd e, v => (e.eval Sm sqrt c rng v).map fun r => ({ r.2 with ind := some r.1 }, false)
  | .scaleMom a, v => v.mom.map fun p => ({ v with mom := some (a.eval sqrt c • p) }, false)
  | .addMom e, v =>
    v.mom.bind fun p => (e.eval Sm sqrt c rng v).map fun r => ({ r.2 with mom := some (p + r.1) }, false)
  | .ite cnd t f, v =>
    if cnd.eval sqrt le lt c v.mom.isNone then exec Sm sqrt le lt c rng t v else exec Sm sqrt le lt c rng f v
  | .ret, v => some (v, true)

/-- **A `sample` method read from its statement tree**: the momentum of the returned state and the number of
draws consumed; `none` if a statement is not understood, `None` is used as an array, or the body does not
end in `return state, None` with a momentum set. -/
def samplePass (body : S) (Sm : (n → K) → (n → K)) (sqrt : K → K) (le lt : K → K → Bool) (c : K)
    (mom : Option (n → K)) (rng : Nat → n → K) (k : Nat) : Option ((n → K) × Nat) :=
  (act? "self.mom_resample_coeff" body).bind fun a =>
    (exec Sm sqrt le lt c rng a ⟨mom, Option.none, k⟩).bind fun r =>
      if r.2 then r.1.mom.map fun p => (p, r.1.k) else Option.none

/-- execute the constructor's statements: `some (some c)` — accepted, `c` stored; `some none` — `ValueError` -/
def runInit (sqrt : K → K) (le lt : K → K → Bool) (c : K) : List InitAct → Bool → Option K → Option (Option K)
  | [], sup, stored => if sup then some stored else Option.none
  | .superInit :: l, _, stored => runInit sqrt le lt c l true stored
  | .rejectIf cnd :: l, sup, stored =>
    if cnd.eval sqrt le lt c false then some Option.none else runInit sqrt le lt c l sup stored
  | .store :: l, sup, _ => runInit sqrt le lt c l sup (some c)

/-- **`CorrelatedMomentumTransition.__init__` read from its statement list**: `some (some c)` if the
coefficient is accepted and stored, `some none` if `ValueError` is raised. -/
def initPass (body : List S) (sqrt : K → K) (le lt : K → K → Bool) (c : K) : Option (Option K) :=
  (initPlan body).bind fun acts => runInit sqrt le lt c acts false Option.none

end Eval

/-! ## the trees the model was written against, in the typed language -/

/-- `IndependentMomentumTransition.sample` -/
def expectedIndependent : Act :=
  .seq (.setMom .draw) (.seq .ret .skip)

/-- `(1.0 - c**2) ** 0.5` -/
def cnCoeff : SExp := .sqrt (.sub (.int 1) (.sq .coeff))

/-- `CorrelatedMomentumTransition.sample` -/
def expectedCorrelated : Act :=
  .seq
    (.ite (.or .momIsNone (.eq .coeff (.int 1)))
      (.seq (.setMom .draw) .skip)
      (.seq
        (.ite (.ne .coeff (.int 0))
          (.seq (.setInd .draw) (.seq (.scaleMom cnCoeff) (.seq (.addMom (.smul .coeff .momInd)) .skip)))
          .skip)
        .skip))
    (.seq .ret .skip)

/-- `CorrelatedMomentumTransition.__init__` -/
def expectedInit : List InitAct :=
  [.superInit, .rejectIf (.not (.and (.le (.int 0) .coeff) (.le .coeff (.int 1)))), .store]

end MiciVerif.Skel.MSem
