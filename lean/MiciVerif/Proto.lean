/-
Line-protocol helpers shared by the drivers (core Lean only).
Rationals cross the boundary as `p/q` (or `p`), vectors as `[a,b,...]`, matrices as
`[[..],[..]]` row lists.  Nothing is ever defaulted: a malformed token yields `none`
and the driver answers `bad-op`.
-/
namespace MiciVerif.Proto

def parseInt? (s : String) : Option Int := s.toInt?

def parseRat? (s : String) : Option Rat :=
  match s.splitOn "/" with
  | [a] => (parseInt? a).map (fun (i : Int) => (i : Rat))
  | [a, b] => do
      let n ← parseInt? a
      let d ← b.toNat?
      if d = 0 then none else some ((n : Rat) / (d : Rat))
  | _ => none

def showRat (q : Rat) : String := s!"{q.num}/{q.den}"

def parseList? {α} (f : String → Option α) (s : String) : Option (List α) :=
  let s := s.trimAscii.toString
  if s.length < 2 || s.front != '[' || s.back != ']' then none else
  let body := ((s.drop 1).dropEnd 1).toString
  if body.trimAscii.toString.isEmpty then some [] else
  (body.splitOn ",").mapM (fun t => f t.trimAscii.toString)

def parseVec? (s : String) : Option (List Rat) := parseList? parseRat? s

/-- `[[a,b],[c,d]]` → rows. Rows are separated by `],[`. -/
def parseMat? (s : String) : Option (List (List Rat)) :=
  let s := s.trimAscii.toString
  if s.length < 2 || s.front != '[' || s.back != ']' then none else
  let body := ((s.drop 1).dropEnd 1).toString.trimAscii.toString
  if body.isEmpty then some [] else
  let rows := body.splitOn "],["
  let n := rows.length
  (rows.zipIdx).mapM (fun (r, i) =>
    let r := if i = 0 then r else "[" ++ r
    let r := if i + 1 = n then r else r ++ "]"
    parseVec? r)

def showVec (v : List Rat) : String := "[" ++ ",".intercalate (v.map showRat) ++ "]"
def showMat (m : List (List Rat)) : String := "[" ++ ",".intercalate (m.map showVec) ++ "]"

def parseBool? (s : String) : Option Bool :=
  if s = "1" then some true else if s = "0" then some false else none

/-- Generic main loop: one response line per request line. -/
partial def loop (h : IO.FS.Stream) (out : IO.FS.Stream) (step : String → String) : IO Unit := do
  let line ← h.getLine
  if line.isEmpty then return ()
  out.putStrLn (step (line.trimAscii.toString))
  loop h out step

def run (step : String → String) : IO Unit := do
  loop (← IO.getStdin) (← IO.getStdout) step

end MiciVerif.Proto
