-- Root of the `MiciVerif` library: models, lemmas and property theorems.
import MiciVerif.Model.Stagers
